"""C19 - The artifact's keys, file and contents always agree (DESIGN.md section 5, C19).

Tie to the code (model: coq/theories/Artifact.v, theorems: coq/props/C19.v):
  stream `ops`  : an operation sequence (write / load / remove / replace / clear_cache / re-open) on a REAL HDF file in
                  a per-run temporary directory.  Half of the histories run on handles opened WITH filter_terms (row terms
                  over existing / value / absent columns, draw terms; 1-3 filters per case, switched at re-opening, one
                  of them built to bite on a table of the case) while the observer - the second Artifact - always reads
                  UNFILTERED: the handle's loads must equal filter(stored) (computed by the harness: apply_filter), the
                  stored content must stay whole whatever goes through the filtered handle.  After EVERY operation the harness records the outcome, artifact.keys,
                  hdf.get_keys(path), the keys of a second Artifact opened on the same path and what that second
                  artifact loads (every key ever used in the case at "full" observation points - after every rejected
                  operation, remove, replace and at the end - otherwise the operation's key and one more).  The Coq
                  model must reproduce every observation (key lists as multisets, loaded values as content ids).
  stream `filt` : a table written through Artifact.write and loaded through Artifact(path, filter_terms).load;
                  observed: which stored rows come back, and (draw filter `draw == n` / `draw in [...]`) which columns.
Aliasing: after every write / replace the harness MUTATES the object it handed over (lists grow, dicts get keys - nested
too -, frames get other cells and a new column); the expected value is the deep copy taken at write time (for JSON data its
json round-trip: tuples and nested tuples come back as lists, through the writing handle as through any other).  Objects
RETURNED by load are mutated likewise (60% of the loads) once the aliasing of loaded values - Artifact.load hands out the
cached object itself, corpus/C19/pending/loaded_object_aliasing.py - is listed in known_findings.json under ALIAS_ID
(open: KNOWN-FINDING via finding_of_ops; fixed: regression guard) or with VERIF_C19_LOAD_ALIAS=1.
Direct oracle (independent of the model): a plain python dict key -> last written value; after every operation
keys == reserved + dict keys (no duplicates) == file keys == second artifact's keys, every load == dict value
(canonical form: frames with index names / index values / columns / dtypes / cells, JSON values by their JSON text),
loads of absent keys raise, an operation with a listed rejection reason raises, and a rejected operation leaves
everything observed equal to the dict (i.e. unchanged).  filt: returned rows are a sub-sequence of the stored rows and
exactly those satisfying every term over queryable columns (evaluated in python).

Two defect classes found while building this check (keys `t.m` / `t.m.x` sharing the HDF subtree /t/m; frames with
object cells on which HDFStore.put fails after check_writable passed; an empty group /t/n left by removing `t.n.m` or by
a failed put below it blocking the JSON write of `t.n`) were repaired in /repo by 4bbd9e87, 4cf26c03, 29349355, d4f70230;
further: a strict comparison of a float column with 0 in a filter term raised FloatingPointError (ddb6f9f8), a Series not
named `value` could not be loaded through a draw filter (7b59923b) - float index levels / Series value columns compared with
0 and Series of any name under draw filters are generated too;
all these classes are part of the generator and the corpus (overlapping two-/three-part keys, `badframe` data, three-part
key removed / refused and then its two-part prefix written), so a regression of those fixes - or of 18714332, f8d5c251,
7b352a55 - fails the oracle: a write for which the property lists no rejection reason must be ACCEPTED.
"""
import atexit
import copy
import json
import math
import os
import random
import shutil
import tempfile

import boot
from core import Result, Stream, cbool, clist, copt, cpair, cz, czlist

PROPERTY = "C19"
CLAIM = {
    "technique": "machine-checked invariant + refinement proof (Coq) over a hand-written model, tied to the code by "
                 "operation-sequence correspondence on real HDF files",
    "text": "For the Gallina model of Artifact/Keys/hdf (effects in the code's order; the HDF layer with recursive "
            "remove, group-deleting put and late-failing put): an invariant (in-memory keys = persisted keys = reserved "
            "key + file nodes, no duplicates, no key a dotted prefix of another, cache coherent) is preserved by every "
            "operation, accepted or rejected; the artifact refines a plain finite map for ALL operation sequences "
            "(reported keys = loadable keys = what a re-opened artifact reports; load returns the roundtrip of the last "
            "written data); every rejected operation leaves keys, persisted keys and every content as they were (the "
            "state is literally unchanged except after a replace that failed inside HDFStore.put, which is proved "
            "unobservable); clear_cache / re-opening are unobservable by later operations; filter terms return a "
            "sub-sequence of the rows. The model is compared with /repo/src on generated operation sequences executed on "
            "real HDF files (Coq decides agreement per batch).",
    "note": "No guards: the theorems hold for every key, data value and history (four defects found while building this "
            "check - overlapping keys, put-failing frames in write and in replace, leftover empty groups - were repaired in "
            "/repo: 4bbd9e87, 29349355, 4cf26c03, d4f70230; their witnesses are corpus cases). Trusted: the model's transcription, "
            "HDF5/PyTables/pandas behaviour as modelled (validated on the explored sequences only), canonicalisation of "
            "loaded data, single writer per file, re-writing loaded old data reproduces the node (replace's restore), the "
            "harness's own evaluation of filter terms (apply_filter). "
            "Content of load('metadata.keyspace') is not modelled; returned objects are the cached ones (aliasing not "
            "covered); the draw filter is modelled as column selection (C19_draw_filter_columns), malformed draw terms are "
            "refused at construction and not generated.",
}
RULE = ("ops: 50% of the cases use handles opened with 1-3 filters (alternating at re-openings; 70% of those contain a scripted "
        "write / load x2 / replace-with-put-failing-frame | clear_cache | replace / load / re-open unfiltered / load on a table "
        "the filter is built to restrict); 45% of the cases start with 2-4 sibling keys in ONE hdf group (/type/name, /type or /metadata), mostly JSON "
        "values, followed by remove / replace of one of them and loads of the survivors; then / otherwise "
        "sequences of 3-10 (quick) / 3-25 (thorough) operations over a pool of 5-8 two- and three-part keys (two-part "
        "keys that are prefixes of three-part keys included) + the reserved key + a key below the reserved node + "
        "malformed keys; data: multi-index frames with mixed dtypes, single-index frames, Series, empty indexed frames, "
        "JSON values (nested, tuples, int-keyed dicts), None, unserialisable values, empty frames without index, frames "
        "with object cells (put fails); clear_cache / re-open at random points; second artifact "
        "after every operation. filt: 1-3 integer / string index levels, 3-12 rows, 0-4 terms (atoms, &, |) over index "
        "levels, value columns and absent columns, also on empty indexed frames; 35% with one draw term (==, =, in) over "
        "frames with a random subset of draw_0..draw_3 / value / other columns. distinct = distinct case JSON; trivial = "
        "no accepted write")
ASSUMPTIONS = [
    "one writer per file: the second Artifact opened after every operation only reads",
    "draw filters: one term `draw ==|=|in ...` per artifact (two draw terms / other comparisons are refused when the "
    "Artifact is constructed, before any load - not generated)",
    "hdf.load o hdf.write is the identity on the data shapes generated (checked on every load of every case: the "
    "content id loaded must equal the id written, for JSON values the id of json.loads(json.dumps(v)))",
    "the queryable columns of a stored table are read off the file with PyTables (node.table.colnames) by the harness",
    "re-writing the data loaded from a node reproduces the node (used by replace when it restores the old data)",
    "key parts named `table`, `meta`, `_i_table` (pandas' own node names) are not used",
]
TRUSTED = [
    "C19: canonical form of loaded data (frames: kind, index names, index tuples, columns, column dtypes, cells with "
    "floats as hex; JSON: sorted-key JSON text); only public interfaces are used (Artifact.keys/load/write/remove/"
    "replace/clear_cache, hdf.get_keys)",
]
LEVEL_NOTE = ("Full for the key / cache / file state machine, all keys / data / histories (no guards). Content of the reserved "
              "node when loaded and aliasing of returned (cached) objects are outside the model.")

RESERVED = "metadata.keyspace"
_TMP = None
_COUNTER = [0]


def tmpdir():
    global _TMP
    if _TMP is None:
        _TMP = tempfile.mkdtemp(prefix="verif_c19_")
        atexit.register(cleanup)
    return _TMP


def cleanup():
    global _TMP
    if _TMP and os.path.isdir(_TMP):
        shutil.rmtree(_TMP, ignore_errors=True)
    _TMP = None


def fresh_path():
    _COUNTER[0] += 1
    return os.path.join(tmpdir(), f"a{_COUNTER[0]}.hdf")


# ----------------------------------------------------------------------------------------------------------------
# data specs (JSON-able) -> python values
# ----------------------------------------------------------------------------------------------------------------
def build(spec):
    import numpy as np
    import pandas as pd
    t = spec["t"]
    if t == "none":
        return None
    if t == "json":
        return copy.deepcopy(spec["v"])          # the harness mutates what it hands over: never the case itself
    if t == "tuple":
        return tuple(spec["v"])
    if t == "nested_tuple":          # tuples at several depths, inside lists and dicts: JSON gives lists back
        def tup(x, d=0):
            if isinstance(x, list):
                y = [tup(e, d + 1) for e in x]
                return tuple(y) if d % 2 == 0 else y
            if isinstance(x, dict):
                return {k: tup(e, d) for k, e in x.items()}
            return x
        return tup(spec["v"])
    if t == "intkeys":
        return {int(k): v for k, v in spec["v"].items()}
    if t == "unser":
        k = spec["k"]
        return {"x": object()} if k == 0 else ({1, 2} if k == 1 else [1, {"y": (lambda: 0)}])
    if t == "empty_noindex":
        return pd.DataFrame() if spec["k"] == 0 else pd.DataFrame({"a": [], "b": []})
    if t == "badframe":
        return pd.DataFrame({"v": [object(), object()]}, index=pd.Index([1, 2], name="i"))
    names = spec["names"]
    tuples = [tuple(x) for x in spec["index"]]
    if len(names) == 1:
        idx = pd.Index([x[0] for x in tuples], name=names[0])
    else:
        idx = pd.MultiIndex.from_tuples(tuples, names=names)
    if t == "frame":
        return pd.DataFrame({c: v for c, v in spec["cols"].items()}, index=idx)
    if t == "series":
        return pd.Series(spec["values"], index=idx, name=spec.get("name"))
    raise ValueError(spec)


def kind_of(spec):
    """model data constructor: N none | U unwritable | B bad frame | F frame | J json"""
    if spec["t"] == "json" and spec["v"] is None:
        return "N"                                   # a top-level JSON null IS python's None
    return {"none": "N", "unser": "U", "empty_noindex": "U", "badframe": "B", "frame": "F", "series": "F"}.get(spec["t"], "J")


def canon_cell(x):
    import numpy as np
    if isinstance(x, (bool, np.bool_)):
        return ["b", bool(x)]
    if isinstance(x, (int, np.integer)):
        return ["i", int(x)]
    if isinstance(x, (float, np.floating)):
        return ["f", "nan" if math.isnan(float(x)) else float(x).hex()]
    if isinstance(x, str):
        return ["s", x]
    if x is None:
        return ["n"]
    return ["o", repr(x)]


def dtype_name(dt):
    """string columns are `str` in pandas 3 and come back as `object` when the table read has no rows: one name"""
    return "str" if str(dt) in ("object", "str", "string") else str(dt)


def canon(v):
    """canonical text of a value as far as `equal data` goes"""
    import pandas as pd
    if isinstance(v, pd.DataFrame):
        idx = [[canon_cell(c) for c in (t if isinstance(t, tuple) else (t,))] for t in v.index.tolist()]
        cols = [str(c) for c in v.columns]
        body = {c: [canon_cell(x) for x in v[c].tolist()] for c in v.columns}
        return "F:" + json.dumps({"k": "frame", "names": [str(n) for n in v.index.names], "index": idx, "columns": cols,
                                  "dtypes": [dtype_name(v[c].dtype) for c in v.columns], "cells": {str(c): body[c] for c in v.columns}},
                                 sort_keys=True)
    if isinstance(v, pd.Series):
        idx = [[canon_cell(c) for c in (t if isinstance(t, tuple) else (t,))] for t in v.index.tolist()]
        return "F:" + json.dumps({"k": "series", "names": [str(n) for n in v.index.names], "index": idx, "name": v.name,
                                  "dtype": dtype_name(v.dtype), "cells": [canon_cell(x) for x in v.tolist()]}, sort_keys=True)
    return "J:" + json.dumps(v, sort_keys=True)


# ----------------------------------------------------------------------------------------------------------------
# generator
# ----------------------------------------------------------------------------------------------------------------
TYPES = ["pop", "cause", "risk"]
M2 = ["structure", "theta", "age_bins"]          # measures of two-part keys
N3 = ["flu", "tb", "structure"]                  # names of three-part keys; `structure` makes t.structure.x extend t.structure
M3 = ["incidence", "prevalence", "structure"]
MALFORMED = ["a", "a.b.c.d", "a..b", "", ".a.b", "a.b.", "..", "pop", "pop.flu.incidence.x"]


def gen_json(rng, depth=0):
    r = rng.random()
    if depth >= 3 or r < 0.45:
        return rng.choice([0, 1, -7, 2 ** 40, 2.5, -0.125, 1e300, True, False, None, "", "x", "mean value", "é"])
    if r < 0.75:
        return [gen_json(rng, depth + 1) for _ in range(rng.randint(0, 3))]
    return {rng.choice(["a", "b", "restrictions", "1", ""]): gen_json(rng, depth + 1) for _ in range(rng.randint(0, 3))}


def gen_index(rng, nmax=6):
    nlev = rng.choice([1, 1, 2, 2, 3])
    names = rng.sample(["age", "year", "sex", "draw_id", "location"], nlev)
    n = rng.randint(1, nmax)
    pools = {"age": [0, 1, 5, 10, 95], "year": [1990, 2000, 2019, 2020], "sex": ["Female", "Male"],
             "draw_id": [0, 1, 2, 999], "location": ["Kenya", "India", "x y"]}
    seen, tuples = set(), []
    for _ in range(n * 3):
        t = tuple(rng.choice(pools[nm]) for nm in names)
        if t not in seen:
            seen.add(t)
            tuples.append(list(t))
        if len(tuples) == n:
            break
    return names, tuples


def gen_good_data(rng):
    r = rng.random()
    if r < 0.36:
        names, tuples = gen_index(rng)
        n = len(tuples)
        cols = {}
        for c in rng.sample(["value", "draw_0", "draw_1", "flag", "label", "count"], rng.randint(1, 3)):
            kind = {"flag": "b", "label": "s", "count": "i"}.get(c, "f")
            if kind == "f":
                cols[c] = [rng.choice([0.0, 0.5, -1.25, 1e-9, 3.0, 1e10]) for _ in range(n)]
            elif kind == "i":
                cols[c] = [rng.choice([0, 1, -5, 2 ** 40]) for _ in range(n)]
            elif kind == "b":
                cols[c] = [rng.random() < 0.5 for _ in range(n)]
            else:
                cols[c] = [rng.choice(["a", "bb", "", "x y"]) for _ in range(n)]
        return {"t": "frame", "names": names, "index": tuples, "cols": cols}
    if r < 0.44:
        names, tuples = gen_index(rng)
        return {"t": "frame", "names": names, "index": tuples, "cols": {}}          # empty indexed frame
    if r < 0.52:
        names, tuples = gen_index(rng)
        return {"t": "series", "names": names, "index": tuples, "name": rng.choice(["value", None, "x", "count"]),
                "values": [rng.choice([0.0, 1.5, -2.0]) for _ in tuples]}
    if r < 0.57:
        if rng.random() < 0.5:
            return {"t": "nested_tuple", "v": rng.choice([[1, [2, [3, 4]], {"a": [5, [6]]}], {"k": [1, [2, 3]], "l": []}, [[["x"]], [0.5, [True]]]])}
        return {"t": "tuple", "v": [gen_json(rng, 2) for _ in range(rng.randint(0, 3))]}
    if r < 0.61:
        return {"t": "intkeys", "v": {str(rng.randint(0, 3)): gen_json(rng, 2) for _ in range(rng.randint(1, 2))}}
    return {"t": "json", "v": gen_json(rng)}


def gen_data(rng):
    r = rng.random()
    if r < 0.08:
        return {"t": "none"}
    if r < 0.16:
        return {"t": "unser", "k": rng.randint(0, 2)}
    if r < 0.21:
        return {"t": "empty_noindex", "k": rng.randint(0, 1)}
    if r < 0.29:
        return {"t": "badframe"}
    return gen_good_data(rng)


def gen_pool(rng):
    pool = set()
    want = rng.randint(5, 8)
    if rng.random() < 0.5:                     # a two-part key and three-part keys extending it
        t, n = rng.choice(TYPES), rng.choice(N3)
        pool.add(f"{t}.{n}")
        for m in rng.sample(M3, rng.randint(1, 2)):
            pool.add(f"{t}.{n}.{m}")
    while len(pool) < want:
        if rng.random() < 0.5:
            pool.add(f"{rng.choice(TYPES)}.{rng.choice(M2)}")
        else:
            pool.add(f"{rng.choice(TYPES)}.{rng.choice(N3)}.{rng.choice(M3)}")
    return sorted(pool)


def gen_group_keys(rng):
    """3-4 keys that live in ONE hdf group: /type/name (three-part keys), /type (two-part keys) or /metadata (next to the
    keyspace node, which is removed and re-written on every accepted write / remove)"""
    r = rng.random()
    if r < 0.4:
        t, n = rng.choice(TYPES), rng.choice(["flu", "tb"])
        return [f"{t}.{n}.{m}" for m in rng.sample(["incidence", "prevalence", "structure", "restrictions", "name"], rng.randint(3, 4))]
    if r < 0.75:
        t = rng.choice(TYPES)
        return [f"{t}.{m}" for m in rng.sample(["structure", "theta", "age_bins", "locations", "versions"], rng.randint(3, 4))]
    return [f"metadata.{m}" for m in rng.sample(["versions", "locations", "notes", "source"], rng.randint(2, 3))]


HANDLE_LEVELS = {"age": [0, 1, 5, 10, 95], "year": [1990, 2000, 2019, 2020], "draw_id": [0, 1, 2, 999],
                 "age_start": [0.0, 0.5, 1.0, 5.0, -2.5]}          # a FLOAT level, as real artifacts have them


def gen_hterm(rng, depth=0):
    if depth < 1 and rng.random() < 0.2:
        return ["and" if rng.random() < 0.5 else "or", gen_hterm(rng, 1), gen_hterm(rng, 1)]
    r = rng.random()
    if r < 0.55:
        col = rng.choice(list(HANDLE_LEVELS))
        if col == "age_start" and rng.random() < 0.5:      # strict / non-strict comparison of a float column with 0 (F-AG)
            return ["atom", col, rng.choice(["<", ">", "<", ">", "<=", ">=", "==", "!="]), rng.choice([0, 0.0])]
        return ["atom", col, rng.choice(["<", "<=", "==", ">=", ">", "!="]), rng.choice(HANDLE_LEVELS[col])]
    if r < 0.75:
        return ["atom", rng.choice(["sex", "location"]), rng.choice(["==", "!="]), rng.choice(["Female", "Male", "Kenya", "x y"])]
    if r < 0.88:
        # value columns: not queryable in a DataFrame; a Series' own column IS - also against 0, strictly (F-AG)
        return ["atom", rng.choice(["value", "count", "draw_0", "x"]), rng.choice([">", "<", "<=", "==", ">="]), rng.choice([0, 0, 1, 0.5])]
    return ["atom", rng.choice(["parameter", "absent_col"]), "==", 1]               # absent


def gen_filterable_frame(rng):
    names = rng.sample(["age", "year", "draw_id", "sex", "age_start", "age_start"], rng.choice([2, 2, 3]))
    names = list(dict.fromkeys(names))
    if len(names) < 2:
        names.append("year")
    pools = dict(HANDLE_LEVELS, sex=["Female", "Male"])
    seen, tuples = set(), []
    for _ in range(24):
        t = tuple(rng.choice(pools[n]) for n in names)
        if t not in seen:
            seen.add(t)
            tuples.append(list(t))
        if len(tuples) == rng.randint(3, 6):
            break
    n = len(tuples)
    if rng.random() < 0.2:               # a Series of any name (or none): its own column can be queried, a draw filter leaves it alone (F-AH)
        return {"t": "series", "names": names, "index": tuples, "name": rng.choice(["value", None, "x", "count", "draw_0"]),
                "values": [rng.choice([0.0, 0.5, 2.0, -1.25]) for _ in range(n)]}
    if rng.random() < 0.12:
        return {"t": "frame", "names": names, "index": tuples, "cols": {}}              # empty indexed table
    cols = {c: [rng.choice([0.0, 0.5, 2.0, -1.25]) for _ in range(n)] for c in rng.sample(["draw_0", "draw_1", "draw_2", "value"], rng.randint(1, 4))}
    if rng.random() < 0.4:
        cols["label"] = [rng.choice(["a", "bb"]) for _ in range(n)]
    return {"t": "frame", "names": names, "index": tuples, "cols": cols}


def gen_filter(rng):
    """what an Artifact is opened with: row terms + at most one draw term"""
    draw = None
    if rng.random() < 0.45:
        form = rng.choice(["==", "=", "in"])
        draw = {"form": form, "draws": rng.sample([0, 1, 2, 7], rng.randint(1, 2) if form == "in" else 1)}
    terms = [gen_hterm(rng) for _ in range(rng.choice([0, 1, 1, 2]) if draw else rng.choice([1, 1, 2, 3]))]
    return {"terms": terms, "draw": draw, "pos": rng.randint(0, len(terms))}


def hterm_str(t):
    if t[0] == "atom":
        v = f"'{t[3]}'" if isinstance(t[3], str) else str(t[3])
        return f"{t[1]} {t[2]} {v}"
    return f"({hterm_str(t[1])}) {'&' if t[0] == 'and' else '|'} ({hterm_str(t[2])})"


def filter_strings(spec):
    if spec is None:
        return None
    if spec.get("invalid") == "two_draws":
        return ["draw == 1", "age > 0", "draw in [0,2]"]
    if spec.get("invalid") == "bad_op":
        return ["draw > 1"]
    strs = [hterm_str(t) for t in spec["terms"]]
    d = spec.get("draw")
    if d:
        strs.insert(min(spec.get("pos", 0), len(strs)),
                    f"draw in [{','.join(map(str, d['draws']))}]" if d["form"] == "in" else f"draw {d['form']} {d['draws'][0]}")
    return strs or None


def hterm_cols(t):
    return [t[1]] if t[0] == "atom" else hterm_cols(t[1]) + hterm_cols(t[2])


def hterm_eval(t, row):
    if t[0] == "atom":
        return {"<": lambda a, b: a < b, "<=": lambda a, b: a <= b, "==": lambda a, b: a == b, ">=": lambda a, b: a >= b,
                ">": lambda a, b: a > b, "!=": lambda a, b: a != b}[t[2]](row[t[1]], t[3])
    if t[0] == "and":
        return hterm_eval(t[1], row) and hterm_eval(t[2], row)
    return hterm_eval(t[1], row) or hterm_eval(t[2], row)


def apply_filter(value, spec):
    """What a handle opened with `spec` must return for the stored `value` - computed by the harness itself:
    rows: every term ALL of whose columns can be queried (the index levels of a multi-index table; every column of an
    empty indexed table) must hold; columns (non-empty frames, one draw term): draw_n for the requested n, and `value`."""
    import pandas as pd
    if spec is None or not isinstance(value, (pd.DataFrame, pd.Series)):
        return value
    levels = [str(n) for n in value.index.names]
    is_empty_table = isinstance(value, pd.DataFrame) and value.empty
    queryable = levels if (len(levels) > 1 or is_empty_table) else []
    own = []
    if isinstance(value, pd.Series) and value.name is not None:
        own = [str(value.name)]                   # a Series is stored as a one-column table: its own column can be queried
        queryable = queryable + own
    valid = [t for t in spec["terms"] if set(hterm_cols(t)) <= set(queryable)]
    tuples = [t if isinstance(t, tuple) else (t,) for t in value.index.tolist()]
    cells = value.tolist() if own else [None] * len(tuples)
    keep = [all(hterm_eval(t, dict(zip(levels + own, tup + ((c,) if own else ())))) for t in valid) for tup, c in zip(tuples, cells)]
    out = value[keep] if not all(keep) else value
    d = spec.get("draw")
    if d and isinstance(out, pd.DataFrame) and not is_empty_table:
        request = [f"draw_{n}" for n in d["draws"]] + ["value"]
        out = out[[c for c in out.columns if c in request]]
    return out


def canon_h(v, spec):
    """canonical text of what a HANDLE returned: under a draw filter the order of the selected columns is not part of it"""
    import pandas as pd
    if spec is not None and spec.get("draw") and isinstance(v, pd.DataFrame):
        v = v[sorted(v.columns)]
    return canon(v)


def gen_ops(rng, tier_max):
    case = gen_ops0(rng, tier_max)
    if rng.random() < 0.5:
        # handles opened WITH filter terms (the observer always reads unfiltered): 1-2 filters, switched at re-opening
        filters = [gen_filter(rng) for _ in range(rng.randint(1, 2))]
        if rng.random() < 0.25:          # terms the Artifact constructor refuses: the old handle stays in use
            filters.append({"invalid": rng.choice(["two_draws", "bad_op"]), "terms": [], "draw": None})
        has_draw = any(f["draw"] for f in filters)
        ops = case["ops"]
        for o in ops:
            if "data" in o and kind_of(o["data"]) in "FJ" and rng.random() < 0.45:
                o["data"] = gen_filterable_frame(rng)  # tables the filters can bite on
        # more re-openings, so that handles alternate
        extra = []
        for o in ops:
            extra.append(o)
            if o["op"] in ("write", "replace") and rng.random() < 0.25:
                extra.append({"op": "reopen"})
        for o in extra:
            if o["op"] == "reopen":
                o["f"] = rng.choice([0] + [i + 1 for i in range(len(filters))] * 2)
        valid_ids = [i + 1 for i, f in enumerate(filters) if not f.get("invalid")]
        case["ops"] = [{"op": "reopen", "f": rng.choice(valid_ids)}] + extra
        if rng.random() < 0.4:
            # tables with DIFFERENT column sets behind ONE handle whose terms each apply to only some of them, loaded in
            # every order, the same key again after clear_cache: the handle's filter must stay what it was opened with
            level_sets = rng.sample([["age", "year"], ["draw_id", "sex"], ["age_start", "year"], ["age", "draw_id"], ["sex", "age_start"]],
                                    rng.randint(2, 3))
            pools = dict(HANDLE_LEVELS, sex=["Female", "Male"])
            tabs = []
            for names in level_sets:
                seen_t, tuples = set(), []
                for _ in range(30):
                    tp = tuple(rng.choice(pools[n]) for n in names)
                    if tp not in seen_t:
                        seen_t.add(tp)
                        tuples.append(list(tp))
                    if len(tuples) == 5:
                        break
                tabs.append({"t": "frame", "names": names, "index": tuples,
                             "cols": {"value": [0.5 * i for i in range(len(tuples))], "draw_0": [1.0] * len(tuples)}})
            all_levels = sorted({n for names in level_sets for n in names})
            only_some = [n for n in all_levels if sum(n in names for names in level_sets) < len(level_sets)] or all_levels
            terms = []
            for n in rng.sample(only_some, min(len(only_some), rng.randint(1, 3))):
                if n == "sex":
                    terms.append(["atom", "sex", rng.choice(["==", "!="]), rng.choice(["Female", "Male"])])
                else:
                    vals = sorted({t[names.index(n)] for tb, names in zip(tabs, level_sets) if n in names for t in tb["index"]})
                    terms.append(["atom", n, rng.choice([">", ">=", "<", "==", "!="]), rng.choice(vals)])
            rng.shuffle(terms)
            filters.append({"terms": terms, "draw": None, "pos": 0})
            fm = len(filters)
            keys_m = rng.sample(["pop.structure", "cause.flu.incidence", "risk.theta", "cause.tb.prevalence"], len(tabs))
            script = [{"op": "write", "key": k, "data": tb} for k, tb in zip(keys_m, tabs)] + [{"op": "reopen", "f": fm}]
            for _ in range(rng.randint(2, 3)):
                order = keys_m[:]
                rng.shuffle(order)
                script += [{"op": "load", "key": k} for k in order]
                script.append({"op": "clear"})
            script += [{"op": "load", "key": rng.choice(keys_m)}, {"op": "reopen", "f": fm}] + [{"op": "load", "key": k} for k in keys_m]
            keep = max(0, tier_max - len(script))
            case["ops"] = case["ops"][:keep] + script if rng.random() < 0.5 else script + case["ops"][:keep]
        elif rng.random() < 0.7:
            # a filter made to BITE on a table of this very case, and the operations through which a filtered view could
            # leak into the file: repeated loads (cache), clear_cache, replace with good data, replace refused inside put
            fr = gen_filterable_frame(rng)
            while not fr.get("cols"):
                fr = gen_filterable_frame(rng)
            ints = [n for n in fr["names"] if n != "sex"]
            lvl = rng.choice(ints)
            vals = sorted({t[fr["names"].index(lvl)] for t in fr["index"]} | ({0} if lvl == "age_start" else set()))
            if rng.random() < 0.3:
                # a Series (any name, or none) behind a draw filter and / or a term over its own column, 0 included
                nm = rng.choice(["value", None, "x", "count"])
                fr = {"t": "series", "names": fr["names"], "index": fr["index"], "name": nm,
                      "values": [rng.choice([0.0, 0.5, 2.0, -1.25]) for _ in fr["index"]]}
                bite = {"terms": [], "draw": {"form": rng.choice(["==", "in"]), "draws": [rng.choice([0, 1, 7])]} if rng.random() < 0.7 else None,
                        "pos": 0}
                if nm is not None and rng.random() < 0.6:
                    bite["terms"].append(["atom", nm, rng.choice([">", "<", ">=", "=="]), rng.choice([0, 0, 0.5])])
                if not bite["terms"] and (bite["draw"] is None or rng.random() < 0.4):
                    bite["terms"].append(["atom", lvl, rng.choice([">", "<", "==", "!="]), rng.choice(vals)])
            else:
                draws = [int(c.split("_")[1]) for c in fr["cols"] if c.startswith("draw_")]
                bite = {"terms": [["atom", lvl, rng.choice([">", "==", "!=", "<=", "<"]), rng.choice(vals)]] if rng.random() < 0.75 else [],
                        "draw": None, "pos": 0}
                if (not bite["terms"] or rng.random() < 0.4) and len(fr["cols"]) > 1:
                    bite["draw"] = {"form": "in", "draws": rng.sample(draws, 1) if draws else [7]}
                if not bite["terms"] and not bite["draw"]:
                    bite["terms"] = [["atom", lvl, ">", vals[0]]]
            filters.append(bite)
            fb = len(filters)
            k = rng.choice(["pop.flu.incidence", "cause.theta", "risk.tb.structure", "metadata.versions"])
            script = [{"op": "reopen", "f": rng.choice([0, fb])}, {"op": "write", "key": k, "data": fr}, {"op": "reopen", "f": fb},
                      {"op": "load", "key": k}, {"op": "load", "key": k}]
            for _ in range(rng.randint(1, 3)):
                r = rng.random()
                if r < 0.35:
                    script.append({"op": "replace", "key": k, "data": {"t": "badframe"}})
                elif r < 0.6:
                    script.append({"op": "clear"})
                elif r < 0.8:
                    script.append({"op": "replace", "key": k, "data": gen_filterable_frame(rng)})
                else:
                    script.append({"op": "replace", "key": k, "data": {"t": rng.choice(["none", "unser"]), "k": 0}})
                script.append({"op": "load", "key": k})
            script += [{"op": "reopen", "f": rng.choice([0, 0, 1])}, {"op": "load", "key": k}]
            keep = max(0, tier_max - len(script))
            case["ops"] = script + case["ops"][:keep] if rng.random() < 0.5 else case["ops"][:keep] + script
        case["filters"] = filters
    return case


def gen_ops0(rng, tier_max):
    pool = gen_pool(rng)
    n = rng.randint(3, tier_max)
    ops, present = [], set()       # `present` = a guess used only to bias the generator (writes may be rejected)

    def pick_key(kind):
        r = rng.random()
        if r < 0.06:
            return rng.choice(MALFORMED)
        if r < 0.11:
            return RESERVED
        if r < 0.14:
            return RESERVED + "." + rng.choice(["x", "structure"])
        have = sorted(present)
        absent = [k for k in pool if k not in present]
        want_present = rng.random() < (0.25 if kind == "write" else 0.75)
        if want_present and have:
            return rng.choice(have)
        if absent:
            return rng.choice(absent)
        return rng.choice(pool)

    if rng.random() < 0.45:
        # siblings in one hdf group, most of them JSON values; then one of them is removed / replaced and the survivors
        # are loaded (the full observation after remove / replace loads every key used so far through a fresh artifact)
        group = gen_group_keys(rng)
        pool = sorted(set(pool) | set(group))
        p_json = rng.choice([1.0, 1.0, 0.8, 0.5])
        for k in group:
            d = {"t": "json", "v": gen_json(rng) if rng.random() < 0.7 else [rng.randint(0, 9)]} if rng.random() < p_json else gen_good_data(rng)
            if kind_of(d) == "N":
                d = {"t": "json", "v": 0}
            ops.append({"op": "write", "key": k, "data": d})
            present.add(k)
        if rng.random() < 0.3:
            ops.append({"op": rng.choice(["reopen", "clear"])})
        for _ in range(rng.randint(1, 2)):
            victim = rng.choice(group)
            if rng.random() < 0.5:
                ops.append({"op": "remove", "key": victim})
                present.discard(victim)
            else:
                ops.append({"op": "replace", "key": victim, "data": gen_good_data(rng) if rng.random() < 0.8 else gen_data(rng)})
            for k in rng.sample(group, rng.randint(1, 2)):
                ops.append({"op": "load", "key": k})
        n = max(0, n - len(ops))

    for _ in range(n):
        r = rng.random()
        if r < 0.36 or not present and r < 0.6:
            k, d = pick_key("write"), gen_data(rng)
            ops.append({"op": "write", "key": k, "data": d})
            if kind_of(d) in "FJ" and k in pool:
                present.add(k)
        elif r < 0.52:
            ops.append({"op": "load", "key": pick_key("load")})
        elif r < 0.66:
            k = pick_key("remove")
            ops.append({"op": "remove", "key": k})
            present.discard(k)
        elif r < 0.84:
            ops.append({"op": "replace", "key": pick_key("replace"), "data": gen_data(rng)})
        elif r < 0.92:
            ops.append({"op": "clear"})
        else:
            ops.append({"op": "reopen"})
    return {"ops": ops, "obs_seed": rng.randint(0, 10 ** 9)}


def gen_ops_quick(rng):
    return gen_ops(rng, 10)


def gen_ops_thorough(rng):
    return gen_ops(rng, 25)


FRAME12 = {"t": "frame", "names": ["i"], "index": [[1], [2]], "cols": {"v": [1.0, 2.0]}}
REPAIRED_CASES = [
    # 4bbd9e87: a.b / a.b.c overlap (were: put on a.b deletes a.b.c; remove a.b removes a.b.c)
    {"ops": [{"op": "write", "key": "a.b.c", "data": {"t": "json", "v": [1]}}, {"op": "write", "key": "a.b", "data": FRAME12},
             {"op": "load", "key": "a.b.c"}], "obs_seed": 1},
    {"ops": [{"op": "write", "key": "a.b", "data": FRAME12}, {"op": "write", "key": "a.b.c", "data": {"t": "json", "v": [1]}},
             {"op": "remove", "key": "a.b"}, {"op": "write", "key": "a.b.c", "data": {"t": "json", "v": [1]}},
             {"op": "write", "key": "a.b", "data": FRAME12}], "obs_seed": 2},
    {"ops": [{"op": "write", "key": "a.b", "data": {"t": "json", "v": 1}}, {"op": "write", "key": "a.b.c", "data": FRAME12},
             {"op": "write", "key": "a.b.c.d", "data": {"t": "json", "v": 1}}, {"op": "write", "key": "a", "data": {"t": "json", "v": 1}}],
     "obs_seed": 5},
    # 4cf26c03 / 29349355: put-failing frame
    {"ops": [{"op": "write", "key": "x.w", "data": {"t": "json", "v": 0}}, {"op": "write", "key": "x.y", "data": {"t": "json", "v": 5}},
             {"op": "write", "key": "x.z", "data": FRAME12}, {"op": "load", "key": "x.y"},
             {"op": "replace", "key": "x.y", "data": {"t": "badframe"}}, {"op": "load", "key": "x.y"},
             {"op": "replace", "key": "x.z", "data": {"t": "badframe"}}, {"op": "load", "key": "x.z"}], "obs_seed": 3},
    {"ops": [{"op": "write", "key": "x.y", "data": {"t": "badframe"}}, {"op": "write", "key": "x.y", "data": {"t": "json", "v": 5}},
             {"op": "write", "key": "x.q.r", "data": {"t": "badframe"}}, {"op": "write", "key": "x.q.r", "data": FRAME12}], "obs_seed": 4},
    # siblings in one hdf group survive the removal / replacement of one of them (seeded change C19_a)
    {"ops": [{"op": "write", "key": "cause.measles.name", "data": {"t": "json", "v": "measles"}},
             {"op": "write", "key": "cause.measles.sequelae", "data": {"t": "json", "v": ["a", "b"]}},
             {"op": "write", "key": "cause.measles.restrictions", "data": {"t": "json", "v": {"male_only": False}}},
             {"op": "replace", "key": "cause.measles.restrictions", "data": {"t": "json", "v": {"male_only": True}}},
             {"op": "load", "key": "cause.measles.sequelae"}, {"op": "remove", "key": "cause.measles.name"},
             {"op": "load", "key": "cause.measles.sequelae"}], "obs_seed": 9},
    {"ops": [{"op": "write", "key": "metadata.versions", "data": {"t": "json", "v": {"v": 1}}},
             {"op": "write", "key": "metadata.locations", "data": {"t": "json", "v": ["Kenya"]}},
             {"op": "write", "key": "pop.structure", "data": FRAME12}, {"op": "load", "key": "metadata.versions"},
             {"op": "remove", "key": "metadata.locations"}, {"op": "load", "key": "metadata.versions"}], "obs_seed": 10},
    {"ops": [{"op": "write", "key": "pop.theta", "data": {"t": "json", "v": 1}}, {"op": "write", "key": "pop.age_bins", "data": {"t": "json", "v": [0, 5]}},
             {"op": "write", "key": "pop.structure", "data": FRAME12}, {"op": "remove", "key": "pop.structure"},
             {"op": "load", "key": "pop.theta"}, {"op": "load", "key": "pop.age_bins"}], "obs_seed": 11},
    # filtered handles never reach the file (second seeded change: roll-back copy read through the handle's filter)
    {"filters": [{"terms": [["atom", "age", ">", 1]], "draw": None, "pos": 0}, {"terms": [], "draw": {"form": "==", "draws": [1]}, "pos": 0}],
     "ops": [{"op": "write", "key": "pop.structure", "data": {"t": "frame", "names": ["age", "year"],
                                                            "index": [[0, 2000], [1, 2000], [5, 2000], [10, 2019]],
                                                            "cols": {"draw_0": [0.0, 0.5, 2.0, 0.5], "draw_1": [2.0, 2.0, 0.5, 0.0], "value": [0.0, 0.0, 0.5, 2.0]}}},
             {"op": "reopen", "f": 1}, {"op": "load", "key": "pop.structure"}, {"op": "load", "key": "pop.structure"},
             {"op": "replace", "key": "pop.structure", "data": {"t": "badframe"}}, {"op": "load", "key": "pop.structure"},
             {"op": "clear"}, {"op": "load", "key": "pop.structure"}, {"op": "reopen", "f": 2}, {"op": "load", "key": "pop.structure"},
             {"op": "replace", "key": "pop.structure", "data": {"t": "badframe"}}, {"op": "clear"},
             {"op": "reopen", "f": 0}, {"op": "load", "key": "pop.structure"}], "obs_seed": 12},
    # terms the constructor refuses: nothing happens, the old (filtered) handle goes on
    {"filters": [{"terms": [["atom", "age", ">", 0]], "draw": None, "pos": 0}, {"invalid": "two_draws", "terms": [], "draw": None},
                 {"invalid": "bad_op", "terms": [], "draw": None}],
     "ops": [{"op": "reopen", "f": 1}, {"op": "write", "key": "pop.structure", "data": {"t": "frame", "names": ["age", "year"],
                                                                                    "index": [[0, 2000], [5, 2000]], "cols": {"value": [1.0, 2.0]}}},
             {"op": "load", "key": "pop.structure"}, {"op": "reopen", "f": 2}, {"op": "load", "key": "pop.structure"},
             {"op": "reopen", "f": 3}, {"op": "load", "key": "pop.structure"}, {"op": "reopen", "f": 0}, {"op": "load", "key": "pop.structure"}],
     "obs_seed": 13},
    # ddb6f9f8 (F-AG): a float column compared strictly with 0; 7b59923b (F-AH): Series of any name under a draw filter
    {"filters": [{"terms": [["atom", "age_start", ">", 0]], "draw": None, "pos": 0}, {"terms": [["atom", "age_start", "<", 0]], "draw": None, "pos": 0},
                 {"terms": [["atom", "x", ">", 0]], "draw": {"form": "==", "draws": [0]}, "pos": 0}],
     "ops": [{"op": "write", "key": "cause.flu.incidence", "data": {"t": "frame", "names": ["age_start", "year"],
                                                                  "index": [[0.0, 2000], [5.0, 2000], [-2.5, 2019]], "cols": {"value": [1.5, 2.5, 0.5]}}},
             {"op": "write", "key": "cause.flu.prevalence", "data": {"t": "series", "names": ["age_start", "year"], "name": "x",
                                                                   "index": [[0.0, 2000], [5.0, 2000]], "values": [0.0, 2.0]}},
             {"op": "write", "key": "cause.flu.structure", "data": {"t": "series", "names": ["draw_id"], "name": None, "index": [[2], [3]], "values": [1.5, -1.25]}},
             {"op": "reopen", "f": 1}, {"op": "load", "key": "cause.flu.incidence"}, {"op": "load", "key": "cause.flu.prevalence"},
             {"op": "reopen", "f": 2}, {"op": "load", "key": "cause.flu.incidence"}, {"op": "load", "key": "cause.flu.structure"},
             {"op": "reopen", "f": 3}, {"op": "load", "key": "cause.flu.prevalence"}, {"op": "load", "key": "cause.flu.structure"},
             {"op": "load", "key": "cause.flu.incidence"}], "obs_seed": 14},
    # the store holds values: the caller mutates what it wrote (always) and what it loaded (see load_mutation_mode)
    {"ops": [{"op": "write", "key": "pop.structure", "data": {"t": "json", "v": {"a": [1, 2], "b": {"c": []}}}}, {"op": "load", "key": "pop.structure"},
             {"op": "load", "key": "pop.structure"}, {"op": "write", "key": "pop.theta", "data": {"t": "nested_tuple", "v": [1, [2, [3, 4]], {"a": [5, [6]]}]}},
             {"op": "load", "key": "pop.theta"}, {"op": "replace", "key": "pop.structure", "data": FRAME12}, {"op": "load", "key": "pop.structure"},
             {"op": "load", "key": "pop.structure"}, {"op": "reopen"}, {"op": "load", "key": "pop.structure"}, {"op": "load", "key": "pop.theta"}],
     "obs_seed": 15},
    # the handle's filter terms stay what they were opened with (seeded change C19_e: pruning the handle's own list):
    # first the table WITHOUT the term's column, then the one WITH it, again after clear_cache
    {"filters": [{"terms": [["atom", "age", ">", 1], ["atom", "draw_id", "==", 2]], "draw": None, "pos": 0}],
     "ops": [{"op": "write", "key": "pop.structure", "data": {"t": "frame", "names": ["age", "year"],
                                                            "index": [[0, 2000], [1, 2000], [5, 2000], [10, 2019]], "cols": {"value": [0.0, 0.5, 1.0, 1.5]}}},
             {"op": "write", "key": "cause.flu.incidence", "data": {"t": "frame", "names": ["draw_id", "sex"],
                                                                  "index": [[0, "Female"], [2, "Female"], [2, "Male"]], "cols": {"value": [0.0, 0.5, 1.0]}}},
             {"op": "reopen", "f": 1}, {"op": "load", "key": "cause.flu.incidence"}, {"op": "load", "key": "pop.structure"},
             {"op": "clear"}, {"op": "load", "key": "pop.structure"}, {"op": "load", "key": "cause.flu.incidence"}, {"op": "clear"},
             {"op": "load", "key": "cause.flu.incidence"}, {"op": "reopen", "f": 1}, {"op": "load", "key": "pop.structure"}], "obs_seed": 16},
    # d4f70230: an empty group /t/n left behind must not block the JSON write of t.n
    {"ops": [{"op": "write", "key": "t.n.m", "data": {"t": "json", "v": [1]}}, {"op": "remove", "key": "t.n.m"},
             {"op": "write", "key": "t.n", "data": {"t": "json", "v": [2]}}, {"op": "load", "key": "t.n"}], "obs_seed": 6},
    {"ops": [{"op": "write", "key": "t.n.m", "data": {"t": "badframe"}}, {"op": "write", "key": "t.n", "data": {"t": "json", "v": [2]}},
             {"op": "load", "key": "t.n"}], "obs_seed": 7},
    {"ops": [{"op": "write", "key": "t.n.m", "data": FRAME12}, {"op": "write", "key": "t.n.q", "data": {"t": "json", "v": 0}},
             {"op": "remove", "key": "t.n.m"}, {"op": "write", "key": "t.n", "data": {"t": "json", "v": 1}},
             {"op": "remove", "key": "t.n.q"}, {"op": "write", "key": "t.n", "data": {"t": "json", "v": 1}},
             {"op": "replace", "key": "t.n", "data": FRAME12}, {"op": "remove", "key": "t.n"},
             {"op": "write", "key": "t.n.m", "data": {"t": "json", "v": 3}}], "obs_seed": 8},
]


def corpus_ops():
    base = [
        # the fixed defects F-F1, F-F2, F-F3 (commits 18714332, f8d5c251, 7b352a55): must now hold
        {"ops": [{"op": "write", "key": "pop.structure", "data": {"t": "json", "v": [1, 2]}},
                 {"op": "replace", "key": "pop.structure", "data": {"t": "none"}},
                 {"op": "replace", "key": "pop.structure", "data": {"t": "unser", "k": 0}},
                 {"op": "load", "key": "pop.structure"}], "obs_seed": 11},
        {"ops": [{"op": "write", "key": "cause.flu.incidence", "data": {"t": "unser", "k": 0}},
                 {"op": "write", "key": "cause.flu.incidence", "data": {"t": "json", "v": {"a": 1}}},
                 {"op": "load", "key": "cause.flu.incidence"}], "obs_seed": 12},
        {"ops": [{"op": "remove", "key": RESERVED}, {"op": "reopen"}, {"op": "load", "key": RESERVED},
                 {"op": "replace", "key": RESERVED, "data": {"t": "json", "v": []}},
                 {"op": "write", "key": RESERVED + ".x", "data": {"t": "json", "v": 1}}], "obs_seed": 13},
        # cache invalidation on replace / remove, re-open in between
        {"ops": [{"op": "write", "key": "risk.theta", "data": {"t": "json", "v": 1}}, {"op": "load", "key": "risk.theta"},
                 {"op": "replace", "key": "risk.theta", "data": {"t": "json", "v": 2}}, {"op": "load", "key": "risk.theta"},
                 {"op": "remove", "key": "risk.theta"}, {"op": "load", "key": "risk.theta"},
                 {"op": "write", "key": "risk.theta", "data": {"t": "frame", "names": ["age", "sex"],
                                                              "index": [[0, "Female"], [5, "Male"]], "cols": {}}},
                 {"op": "reopen"}, {"op": "load", "key": "risk.theta"}], "obs_seed": 14},
    ]
    return base + REPAIRED_CASES


# ----------------------------------------------------------------------------------------------------------------
# running an operation sequence
# ----------------------------------------------------------------------------------------------------------------
MODEL_HAS_MUTATE = True    # Artifact.v has the operation [Mutate k j]: the caller changed a loaded object in place
ALIAS_ID = "F-AL"       # loads hand out the cached object itself: mutating a loaded value changes later loads (same handle)


def load_mutation_mode():
    """Mutating LOADED objects is part of the generator once the aliasing of loaded values is listed in known_findings.json
    (open: reported as KNOWN-FINDING; fixed: a regression guard) or when VERIF_C19_LOAD_ALIAS=1; objects handed to write /
    replace are mutated always."""
    if os.environ.get("VERIF_C19_LOAD_ALIAS"):
        return True
    if not MODEL_HAS_MUTATE:
        return False
    try:
        import core
        return any(f["id"] == ALIAS_ID and PROPERTY in f["properties"] for f in core._findings())
    except Exception:
        return False


def mutate(obj, depth=0):
    """change a value IN PLACE, the way a careless caller would (lists grow, dicts get keys, frames get other cells and a
    new column); immutable values and tuples are left (their mutable contents are not)"""
    import pandas as pd
    try:
        if isinstance(obj, pd.DataFrame):
            if len(obj.index) and len(obj.columns):
                c = obj.columns[0]
                obj.iloc[0, 0] = (not obj.iloc[0, 0]) if obj[c].dtype == bool else (
                    obj.iloc[0, 0] + 1 if pd.api.types.is_numeric_dtype(obj[c].dtype) else "MUT")
            obj["MUT"] = 0
        elif isinstance(obj, pd.Series):
            if len(obj) and pd.api.types.is_numeric_dtype(obj.dtype):
                obj.iloc[0] = obj.iloc[0] + 1
        elif isinstance(obj, list):
            if depth < 2:
                for x in obj[:1]:
                    mutate(x, depth + 1)
            obj.append("MUT")
        elif isinstance(obj, dict):
            if depth < 2:
                for x in list(obj.values())[:1]:
                    mutate(x, depth + 1)
            obj["MUT"] = 1
        elif isinstance(obj, tuple) and depth < 2:
            for x in obj[:2]:
                mutate(x, depth + 1)
    except Exception:
        pass


class Interner:
    def __init__(self, first=1):
        self.ids, self.next = {}, first

    def __call__(self, x):
        if x not in self.ids:
            self.ids[x] = self.next
            self.next += 1
        return self.ids[x]


def ckey(parts_of, k):
    return czlist(parts_of(k))


def overlap(a, b):
    return a.startswith(b + ".") or b.startswith(a + ".")


def expected_reject(op, ref, invalid_filter=False):
    """the rejection reasons the property lists: duplicate write, removing / replacing / loading a missing key, no data,
    malformed key, value that cannot be stored; + the reserved key cannot be removed (7b352a55) and a key that is a
    dotted prefix / extension of a present key cannot be written (4bbd9e87)"""
    kind = op["op"]
    k = op.get("key")
    if kind == "reopen":
        return bool(invalid_filter)
    if kind == "clear":
        return False
    parts = k.split(".")
    malformed = len(parts) not in (2, 3) or any(p == "" for p in parts)
    dk = kind_of(op["data"]) if "data" in op else None
    if kind == "write":
        return (malformed or k in ref or k == RESERVED or dk in ("N", "U", "B")
                or any(overlap(k, x) for x in list(ref) + [RESERVED]))
    if kind == "load":
        return k not in ref and k != RESERVED
    if kind == "remove":
        return k not in ref
    if kind == "replace":
        return k not in ref or dk in ("N", "U", "B")
    return False


def run_ops(case):
    from vivarium.framework.artifact import Artifact, hdf
    path = fresh_path()
    rng = random.Random(case.get("obs_seed", 0))
    part = Interner(3)
    part.ids.update({"": 0, "metadata": 1, "keyspace": 2})

    def parts_of(k):
        return [part(p) for p in k.split(".")]
    content = Interner(1)
    rtj = {}
    ok, msg = True, ""

    def fail(m, cls="other"):
        nonlocal ok, msg
        classes.append(cls)
        if ok or (cls == "other" and classes.count("other") == 1):
            ok, msg = False, m
    mutate_loads = load_mutation_mode()
    tainted = set()         # keys of which a LOADED object was mutated in place (handle not re-opened / cleared since)
    classes = []            # class of every oracle failure
    filters = [None] + list(case.get("filters") or [])
    cur_f = 0               # index of the filter the handle `a` was opened with (0 = none)
    frames = {}             # content id -> frame ever given to write / replace (for the filters' effect table)
    a = Artifact(path)
    terms_opened = None     # the filter terms the handle in use was opened with
    ref = {}                # the direct oracle's plain map: key -> canonical text expected from an UNFILTERED load
    ref_val = {}            # ... and the value itself (what a filtered handle must return is computed from it)
    used = []               # every key string used so far (for full observations)
    obs_coq, trace, tags = [], [], set()
    n_ops = len(case["ops"])
    accepted_writes = 0
    try:
        for step_no, op in enumerate(case["ops"]):
            kind = op["op"]
            k = op.get("key")
            if k is not None and k not in used:
                used.append(k)
            err, loaded = None, None
            mutated_to = None
            d_coq = None
            keys_before = [str(x) for x in a.keys]
            if "data" in op:
                value = build(op["data"])
                dk = kind_of(op["data"])
                if dk in "FJ":
                    cid = content(canon(value))
                    if dk == "F":
                        frames[cid] = value.copy(deep=True)
                    if dk == "J":
                        rtj[cid] = content(canon(json.loads(json.dumps(value))))
                    d_coq = f"(DFrame {cz(cid)})" if dk == "F" else f"(DJson {cz(cid)})"
                else:
                    d_coq = {"N": "DNone", "U": "DUnwritable", "B": "DBadFrame"}[dk]
            try:
                if kind == "write":
                    a.write(k, value)
                elif kind == "load":
                    loaded = a.load(k)
                elif kind == "remove":
                    a.remove(k)
                elif kind == "replace":
                    a.replace(k, value)
                elif kind == "clear":
                    a.clear_cache()
                elif kind == "reopen":
                    new_f = op.get("f", 0) if op.get("f", 0) < len(filters) else 0
                    a = Artifact(path, filter_terms=filter_strings(filters[new_f]))     # raises for refused terms: `a` stays
                    cur_f = new_f
                    terms_opened = filter_strings(filters[cur_f])
            except Exception as e:  # noqa: BLE001 - the outcome class is the observation
                err = e
            rejected = err is not None
            tags.add(f"{kind}:{'rej_' + type(err).__name__ if rejected else 'ok'}")
            # ---- the oracle's map ----
            exp_rej = expected_reject(op, ref, kind == "reopen" and bool((filters[op.get("f", 0)] or {}).get("invalid")) if op.get("f", 0) < len(filters) else False)
            if exp_rej and not rejected:
                fail(f"step {step_no}: {kind}({k!r}) has a listed rejection reason but was accepted")
            if rejected and not exp_rej:
                fail(f"step {step_no}: {kind}({k!r}) was refused ({type(err).__name__}: {str(err)[:120]}) although none of the "
                     f"listed rejection reasons applies (keys present: {sorted(ref)})")
            if not rejected:
                if kind in ("write", "replace"):
                    # the store holds VALUES: what must come back is the value as it was when written (a deep copy taken
                    # now; for JSON data its json round-trip - tuples come back as lists), whatever the caller does next
                    ref_val[k] = json.loads(json.dumps(value)) if kind_of(op["data"]) == "J" else value.copy(deep=True)
                    ref[k] = canon(ref_val[k])
                    accepted_writes += kind == "write"
                    tainted.discard(k)
                elif kind == "remove":
                    ref.pop(k, None)
                    ref_val.pop(k, None)
            if "data" in op and kind_of(op["data"]) in "FJ":
                mutate(value)                      # the caller goes on using - and changing - the object it handed over
            if kind in ("clear", "reopen") and not rejected:
                tainted.clear()
            if kind == "remove" and not rejected:
                tainted.discard(k)
            loaded_id = None
            if kind == "load" and not rejected and k != RESERVED:
                loaded_id = content(canon_h(loaded, filters[cur_f]))
                if k not in ref:
                    fail(f"step {step_no}: load({k!r}) returned data for a key nothing was written under")
                else:
                    want_l = canon_h(apply_filter(ref_val[k], filters[cur_f]), filters[cur_f])
                    if canon_h(loaded, filters[cur_f]) != want_l:
                        fail(f"step {step_no}: load({k!r}) through a handle with filter terms {filter_strings(filters[cur_f])} returned "
                             f"{canon(loaded)[:200]}; last written {ref[k][:200]}; expected through the filter {want_l[:200]}"
                             + (" [an object returned by an earlier load of this key was mutated in place]" if k in tainted else ""),
                             "alias_load" if k in tainted else "other")
                    if filters[cur_f] is not None and k not in tainted and rng.random() < 0.6:
                        # ... and what a FRESH handle opened with the same terms returns
                        fresh = Artifact(path, filter_terms=filter_strings(filters[cur_f])).load(k)
                        if canon_h(fresh, filters[cur_f]) != canon_h(loaded, filters[cur_f]):
                            fail(f"step {step_no}: load({k!r}) through the handle in use differs from a fresh handle opened with the same filter "
                                 f"terms {filter_strings(filters[cur_f])}: {canon(loaded)[:160]} vs {canon(fresh)[:160]}")
                if mutate_loads and rng.random() < 0.6:
                    mutate(loaded)                 # ... and changes what it was given back
                    tainted.add(k)
                    mutated_to = content(canon_h(loaded, filters[cur_f]))
            now_terms = a.filter_terms
            if (list(now_terms) if now_terms else None) != terms_opened:
                fail(f"step {step_no} ({kind} {k!r}): artifact.filter_terms is now {now_terms}, the handle was opened with {terms_opened}")
            # ---- observations ----
            keys1 = [str(x) for x in a.keys]
            filekeys = [str(x) for x in hdf.get_keys(path)]
            b = Artifact(path)                     # the observer reads UNFILTERED
            keys2 = [str(x) for x in b.keys]
            full = rejected or kind in ("remove", "replace") or step_no == n_ops - 1 or rng.random() < 0.25
            if full:
                probe = list(dict.fromkeys(used + keys2))
            else:
                probe = [k] if k is not None else []
                if used:
                    probe.append(rng.choice(used))
                probe = list(dict.fromkeys(probe))
            loads2 = []
            for pk in probe:
                if pk == RESERVED:
                    continue
                try:
                    v2 = b.load(pk)
                    c2 = canon(v2)
                    loads2.append((pk, content(c2)))
                    if pk not in ref:
                        fail(f"step {step_no} ({kind} {k!r}): a fresh artifact loads {pk!r}, which should not exist")
                    elif c2 != ref[pk]:
                        fail(f"step {step_no} ({kind} {k!r}): a fresh artifact loads {pk!r} = {c2[:160]}, last written {ref[pk][:160]}"
                             + (" [after a REJECTED operation]" if rejected else ""))
                except Exception as e2:  # noqa: BLE001
                    loads2.append((pk, None))
                    if pk in ref:
                        fail(f"step {step_no} ({kind} {k!r}): a fresh artifact cannot load {pk!r} ({type(e2).__name__}), "
                             f"though it was written and not removed" + (" [after a REJECTED operation]" if rejected else ""))
            if rejected and keys1 != keys_before:
                fail(f"step {step_no}: rejected {kind}({k!r}) changed artifact.keys from {keys_before} to {keys1}")
            want = sorted([RESERVED] + list(ref))
            if sorted(keys1) != want:
                fail(f"step {step_no} ({kind} {k!r}{' rejected' if rejected else ''}): artifact.keys = {sorted(keys1)} but the keys written and not removed are {want}")
            if sorted(filekeys) != sorted(keys1):
                fail(f"step {step_no} ({kind} {k!r}): hdf.get_keys = {sorted(filekeys)} differs from artifact.keys = {sorted(keys1)}")
            if sorted(keys2) != sorted(keys1):
                fail(f"step {step_no} ({kind} {k!r}): a fresh artifact reports {sorted(keys2)}, this one {sorted(keys1)}")
            # ---- Coq observation ----
            if kind == "write":
                o = f"Write {ckey(parts_of, k)} {d_coq}"
            elif kind == "load":
                o = f"Load {ckey(parts_of, k)}"
            elif kind == "remove":
                o = f"Remove {ckey(parts_of, k)}"
            elif kind == "replace":
                o = f"Replace {ckey(parts_of, k)} {d_coq}"
            else:
                o = "ClearCache" if kind == "clear" else (f"(Reopen {cz(cur_f)})" if not rejected else "(Reopen (-1))")
            obs_coq.append("{| o_op := %s; o_rej := %s; o_loaded := %s; o_keys := %s; o_file := %s; o_keys2 := %s; o_loads2 := %s |}" % (
                o, cbool(rejected), copt(loaded_id, cz), clist(ckey(parts_of, x) for x in keys1),
                clist(ckey(parts_of, x) for x in filekeys), clist(ckey(parts_of, x) for x in keys2),
                clist(cpair(ckey(parts_of, pk), copt(cid, cz)) for pk, cid in loads2)))
            if mutated_to is not None:
                # the model is told: the object this load returned was changed in place and is now `mutated_to` (the cache
                # holds that very object - open finding F-AL); nothing else has changed
                obs_coq.append("{| o_op := Mutate %s %s; o_rej := false; o_loaded := None; o_keys := %s; o_file := %s; o_keys2 := %s; o_loads2 := [] |}" % (
                    ckey(parts_of, k), cz(mutated_to), clist(ckey(parts_of, x) for x in keys1),
                    clist(ckey(parts_of, x) for x in filekeys), clist(ckey(parts_of, x) for x in keys2)))
            trace.append([kind, k, type(err).__name__ if rejected else "ok", sorted(keys1)])
    finally:
        try:
            os.remove(path)
        except OSError:
            pass
    # the filters' effect on every table content that was ever stored, computed by the harness (apply_filter)
    vt = []
    for fi in range(1, len(filters)):
        if filters[fi].get("invalid"):
            continue
        for cid, frame in sorted(frames.items()):
            try:
                j = content(canon_h(apply_filter(frame, filters[fi]), filters[fi]))
            except Exception:       # a frame pandas cannot even slice (object cells): never stored
                continue
            if j != cid:
                vt.append(cpair(cz(fi), cz(cid), cz(j)))
    coq = "(" + cpair(clist(cpair(cz(i), cz(j)) for i, j in sorted(rtj.items()) if i != j), "[]", clist(vt),
                      clist("\n    " + x for x in obs_coq)) + " : ops_case)"
    tags.add("filtered_handles" if len(filters) > 1 else "unfiltered_handle")
    if vt:
        tags.add("filter_bites")
    tags.add("loads_mutated" if mutate_loads else "loads_not_mutated")
    return Result(ok=ok, msg=msg, coq=coq, key=json.dumps(case, sort_keys=True) if accepted_writes else None,
                  obs={"trace": trace[-12:], "failure_classes": sorted(set(classes)), "tainted": sorted(tainted)},
                  tags=tuple(sorted(tags)) + (f"len{min(n_ops, 25) // 5 * 5}",))


def finding_of_ops(case, res):
    """F-AL: every oracle failure of the case is a same-handle load of a key of which an earlier LOADED object was changed in
    place.  (The Coq model has that aliasing - [Mutate] - so a model / implementation disagreement is never attributed.)"""
    cl = (res.obs or {}).get("failure_classes") or []
    return ALIAS_ID if cl and set(cl) == {"alias_load"} else None


# ----------------------------------------------------------------------------------------------------------------
# stream `filt`
# ----------------------------------------------------------------------------------------------------------------
OPS = {"<": "CLt", "<=": "CLe", "==": "CEq", ">=": "CGe", ">": "CGt", "!=": "CNe"}
PYOPS = {"<": lambda a, b: a < b, "<=": lambda a, b: a <= b, "==": lambda a, b: a == b, ">=": lambda a, b: a >= b,
         ">": lambda a, b: a > b, "!=": lambda a, b: a != b}


def gen_term(rng, levels, depth=0):
    r = rng.random()
    if depth < 2 and r < 0.25:
        return ["and" if rng.random() < 0.5 else "or", gen_term(rng, levels, depth + 1), gen_term(rng, levels, depth + 1)]
    cr = rng.random()
    if cr < 0.7:
        col = rng.choice(levels)
    elif cr < 0.85:
        col = rng.choice(["value", "rid"])                       # value columns: not queryable
    else:
        col = rng.choice(["location", "parameter", "absent_col"])   # absent (not `draw`: draw filters select columns, not modelled)
    if col == "sex":
        return ["atom", col, rng.choice(["==", "!="]), rng.choice(["Female", "Male", "Other"])]
    return ["atom", col, rng.choice(list(OPS)), rng.choice([0, 1, 2, 3, 5, 2000, 2005, 2010])]


def gen_filt(rng):
    nlev = rng.choice([1, 2, 2, 3])
    levels = rng.sample(["age", "year", "sex", "bin", "age_start"], nlev)
    pools = {"age": [0, 1, 2, 3, 5], "year": [2000, 2005, 2010], "sex": ["Female", "Male"], "bin": [0, 1, 2, 3],
             "age_start": [0.0, 1.0, 2.0, 5.0, -1.0]}           # a float level (integral values: the model's cells are integers)
    n = rng.randint(3, 12)
    seen, rows = set(), []
    for _ in range(4 * n):
        t = tuple(rng.choice(pools[l]) for l in levels)
        if t not in seen:
            seen.add(t)
            rows.append(list(t))
        if len(rows) == n:
            break
    terms = [gen_term(rng, levels) for _ in range(rng.choice([0, 1, 1, 2, 2, 3, 4]))]
    draw = None
    if rng.random() < 0.35:          # one draw term: selects the columns draw_n (+ value), never rows
        form = rng.choice(["==", "=", "in"])
        draw = {"form": form, "draws": rng.sample([0, 1, 2, 3, 7], rng.randint(1, 3) if form == "in" else 1), "pos": rng.randint(0, len(terms))}
    value_cols = ["rid"] + rng.sample(["draw_0", "draw_1", "draw_2", "draw_3", "value", "other"], rng.randint(1, 5))
    rng.shuffle(value_cols)
    return {"levels": levels, "rows": rows, "terms": terms, "empty": rng.random() < 0.2, "draw": draw, "value_cols": value_cols,
            "key": rng.choice(["pop.structure", "cause.flu.incidence"])}


def term_str(t):
    if t[0] == "atom":
        v = f"'{t[3]}'" if isinstance(t[3], str) else str(t[3])
        return f"{t[1]} {t[2]} {v}"
    sym = "&" if t[0] == "and" else "|"
    return f"({term_str(t[1])}) {sym} ({term_str(t[2])})"


def term_cols(t):
    return [t[1]] if t[0] == "atom" else term_cols(t[1]) + term_cols(t[2])


def term_eval(t, row):
    if t[0] == "atom":
        return PYOPS[t[2]](row[t[1]], t[3])
    if t[0] == "and":
        return term_eval(t[1], row) and term_eval(t[2], row)
    return term_eval(t[1], row) or term_eval(t[2], row)


def run_filt(case):
    import pandas as pd
    from vivarium.framework.artifact import Artifact
    path = fresh_path()
    levels, rows, terms = case["levels"], case["rows"], case["terms"]
    tuples = [tuple(r) for r in rows]
    idx = pd.Index([t[0] for t in tuples], name=levels[0]) if len(levels) == 1 else pd.MultiIndex.from_tuples(tuples, names=levels)
    if case["empty"]:
        df = pd.DataFrame(index=idx)
    else:
        vcols = case.get("value_cols") or ["rid", "value"]
        df = pd.DataFrame({c: (list(range(len(rows))) if c == "rid" else [0.5 * i + j for i in range(len(rows))])
                           for j, c in enumerate(vcols)}, index=idx)
    strs = [term_str(t) for t in terms]
    draw = case.get("draw")
    if draw:
        dstr = (f"draw in [{','.join(map(str, draw['draws']))}]" if draw["form"] == "in" else f"draw {draw['form']} {draw['draws'][0]}")
        strs.insert(min(draw["pos"], len(strs)), dstr)
    ok, msg = True, ""
    try:
        Artifact(path).write(case["key"], df)
        import tables
        parts = case["key"].split(".")
        with tables.open_file(path) as h5:            # what hdf._get_valid_filter_terms is given, read independently
            colnames = list(h5.get_node("/" + "/".join(parts)).table.colnames)
        full = Artifact(path).load(case["key"])
        try:
            got = Artifact(path, filter_terms=list(strs)).load(case["key"])
        except Exception as e:  # noqa: BLE001
            return Result(ok=False, msg=f"load with filter terms {strs} raised {type(e).__name__}: {e}", obs={"terms": strs})
    finally:
        try:
            os.remove(path)
        except OSError:
            pass
    full_t = [t if isinstance(t, tuple) else (t,) for t in full.index.tolist()]
    got_t = [t if isinstance(t, tuple) else (t,) for t in got.index.tolist()]
    if full_t != tuples:
        ok, msg = False, f"unfiltered load returned rows {full_t}, written {tuples}"
    pos_of = {t: i for i, t in enumerate(tuples)}
    positions = [pos_of.get(t, -1) for t in got_t]
    if not case["empty"] and "rid" in got.columns and positions != [int(x) for x in got["rid"].tolist()]:
        ok, msg = False, "returned index rows and returned value cells do not belong together"
    # direct oracle: sub-sequence + exactly the rows satisfying every term over queryable columns
    if any(p < 0 for p in positions) or positions != sorted(set(positions)):
        ok, msg = False, f"filter terms {strs} returned rows {got_t} that are not a sub-sequence of the stored rows {tuples}"
    queryable = [l for l in levels if l in colnames]
    if len(levels) > 1 and queryable != levels:
        ok, msg = False, f"index levels {levels} are not all queryable columns of the stored table ({colnames})"
    valid = [t for t in terms if set(term_cols(t)) <= set(colnames)]
    want = [i for i, r in enumerate(rows) if all(term_eval(t, dict(zip(levels, r))) for t in valid)]
    if ok and positions != want:
        ok, msg = False, f"filter terms {strs} on rows {tuples}: returned positions {positions}, the terms select {want}"
    # the draw filter: columns, never rows
    stored_cols = [] if case["empty"] else [str(c) for c in full.columns]
    got_cols = [str(c) for c in got.columns]
    request = None if not draw else [f"draw_{n}" for n in draw["draws"]] + ["value"]
    want_cols = stored_cols if request is None else [c for c in stored_cols if c in request]
    if sorted(got_cols) != sorted(want_cols):
        ok, msg = False, f"filter terms {strs}: columns returned {got_cols}, stored {stored_cols}, requested {request}"
    if any(c not in stored_cols for c in got_cols):
        ok, msg = False, f"filter terms {strs} returned columns {got_cols} that were never stored ({stored_cols})"
    cid = Interner(1)
    sval = {"Female": 1, "Male": 2, "Other": 3}

    def cell(x):
        return sval[x] if isinstance(x, str) else int(x)

    def cterm(t):
        if t[0] == "atom":
            return f"(TAtom {cz(cid(t[1]))} {OPS[t[2]]} {cz(cell(t[3]))})"
        return f"({'TAnd' if t[0] == 'and' else 'TOr'} {cterm(t[1])} {cterm(t[2])})"
    qpos = [levels.index(l) for l in queryable]
    colid = Interner(1)
    coq = "(" + cpair(czlist(cid(l) for l in queryable), clist(czlist(cell(r[j]) for j in qpos) for r in rows),
                      clist(cterm(t) for t in terms), czlist(positions),
                      cpair(czlist(colid(c) for c in stored_cols), copt(request, lambda r: czlist(colid(c) for c in r)),
                            czlist(colid(c) for c in got_cols))) + " : filt_case)"
    tags = ("draw_filter" if draw else "no_draw_filter", f"terms{len(terms)}", f"valid{len(valid)}", f"levels{len(levels)}", "empty_frame" if case["empty"] else "frame",
            "all_rows" if len(want) == len(rows) else ("no_rows" if not want else "some_rows"))
    return Result(ok=ok, msg=msg, coq=coq, key=json.dumps(case, sort_keys=True) if terms else None,
                  obs={"terms": strs, "returned": positions, "of": len(rows)}, tags=tags)


def corpus_filt():
    return [
        {"levels": ["age", "year"], "rows": [[0, 2000], [1, 2000], [1, 2005], [5, 2010]], "empty": False, "key": "pop.structure",
         "terms": [["atom", "age", ">", 0], ["atom", "absent_col", "==", 3], ["or", ["atom", "year", "==", 2000], ["atom", "year", "==", 2010]]]},
        {"levels": ["sex", "age"], "rows": [["Female", 0], ["Male", 0], ["Male", 5]], "empty": True, "key": "cause.flu.incidence",
         "terms": [["atom", "sex", "==", "Male"], ["atom", "value", ">", 100]]},
        {"levels": ["age"], "rows": [[0], [1], [2]], "empty": False, "key": "pop.structure", "terms": [["atom", "rid", "==", 1]]},
        {"levels": ["age"], "rows": [[0], [1], [2]], "empty": False, "key": "pop.structure", "terms": [["atom", "age", ">=", 9]]},
        # draw filters: column selection only
        {"levels": ["age", "year"], "rows": [[0, 2000], [1, 2000], [1, 2005]], "empty": False, "key": "pop.structure",
         "value_cols": ["draw_0", "draw_1", "draw_2", "value", "rid"], "draw": {"form": "in", "draws": [0, 2], "pos": 0},
         "terms": [["atom", "age", ">", 0]]},
        {"levels": ["age", "year"], "rows": [[0, 2000], [1, 2000], [1, 2005]], "empty": False, "key": "pop.structure",
         "value_cols": ["draw_0", "other", "rid"], "draw": {"form": "==", "draws": [7], "pos": 1}, "terms": [["atom", "year", "==", 2000]]},
        {"levels": ["age", "year"], "rows": [[0, 2000], [1, 2000]], "empty": True, "key": "pop.structure",
         "value_cols": [], "draw": {"form": "=", "draws": [1], "pos": 0}, "terms": []},
    ]


def shrink_data(d):
    """smaller variants of a data spec: fewer rows, fewer columns, a plain JSON value"""
    if d.get("t") in ("frame", "series") and len(d.get("index", [])) > 1:
        h = len(d["index"]) // 2
        for sl in (slice(0, h), slice(h, None)):
            e = dict(d, index=d["index"][sl])
            if d["t"] == "frame":
                e["cols"] = {c: v[sl] for c, v in d["cols"].items()}
            else:
                e["values"] = d["values"][sl]
            yield e
    if d.get("t") == "frame" and len(d.get("cols", {})) > 1:
        for c in d["cols"]:
            yield dict(d, cols={k: v for k, v in d["cols"].items() if k != c})
    if d.get("t") in ("json", "tuple", "intkeys") and d.get("v") not in (0, [0]):
        yield {"t": "json", "v": 0}


def shrink_ops(case):
    """smaller variants of an operation history: drop one operation, drop the filters, simplify a filter, shrink a datum"""
    ops = case["ops"]
    for i in range(len(ops)):
        yield dict(case, ops=ops[:i] + ops[i + 1:])
    if case.get("filters"):
        yield dict({k: v for k, v in case.items() if k != "filters"}, ops=[dict({k: v for k, v in o.items() if k != "f"}) for o in ops])
        for fi, f in enumerate(case["filters"]):
            for ti in range(len(f["terms"])):
                g = dict(f, terms=f["terms"][:ti] + f["terms"][ti + 1:])
                yield dict(case, filters=case["filters"][:fi] + [g] + case["filters"][fi + 1:])
            if f.get("draw") and f["terms"]:
                yield dict(case, filters=case["filters"][:fi] + [dict(f, draw=None)] + case["filters"][fi + 1:])
    for i, o in enumerate(ops):
        if "data" in o:
            for d in shrink_data(o["data"]):
                yield dict(case, ops=ops[:i] + [dict(o, data=d)] + ops[i + 1:])


def shrink_filt(case):
    for i in range(len(case["terms"])):
        yield dict(case, terms=case["terms"][:i] + case["terms"][i + 1:])
    for i in range(len(case["rows"])):
        if len(case["rows"]) > 1:
            yield dict(case, rows=case["rows"][:i] + case["rows"][i + 1:])
    if case.get("draw"):
        yield dict(case, draw=None)
    if len(case.get("value_cols") or []) > 1:
        for c in case["value_cols"]:
            yield dict(case, value_cols=[x for x in case["value_cols"] if x != c])


def streams(tier):
    return [
        Stream(name="ops", imports="From Viv Require Import Common Artifact.", check="check_ops",
               gen=gen_ops_quick if tier == "quick" else gen_ops_thorough, run=run_ops, n_quick=48, n_thorough=180,
               corpus=corpus_ops, shrink=shrink_ops, finding_of=finding_of_ops,
               doc="operation sequences on real HDF files, observed after every operation"),
        Stream(name="filt", imports="From Viv Require Import Common Artifact.", check="check_filt", gen=gen_filt,
               run=run_filt, n_quick=60, n_thorough=240, corpus=corpus_filt, shrink=shrink_filt,
               doc="tables loaded through an artifact with filter terms"),
    ]


def extra(run):
    cleanup()
