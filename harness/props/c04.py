"""C04 - Same identity, same randomness across scenarios (DESIGN.md section 5, C04).

Tie to the code (model: coq/theories/IndexMap.v, theorems: coq/props/C04.v):
  stream `pairs` : two real IndexMaps of one size ("baseline" A and "counterfactual" B).  B's registration history is
                   derived from A's by (a) permuting every batch, (b) relabelling the simulants, (c) adding extra keys /
                   dropping keys (super-/sub-set batches), (d) splitting a batch into two batches at the same clock
                   time or merging batches of equal time - and combinations.  1-3 key columns; ONE-column schemas in
                   small maps are prominent (the class repaired by commit b091dd41).  Positions are read back through
                   IndexMap.__getitem__ after every batch of both maps.
  stream `sims`  : whole simulations in pairs (SimulationContext, real RandomnessManager / streams / population manager):
                   a baseline and a counterfactual with different birth schedules, different batch order and therefore
                   different state-table labels; CRN keys (entrance_time, age) or a single column (uid / age).  Every
                   IndexMap.update the simulations make is recorded from outside (class-level wrapper in the harness
                   process), the per-key trajectory of draws at two decision points is read from the state table.
  Coq (check_c04) replays both recorded histories through the model from the observed maps (as C03 does), flags every
  key that is clean (collides with nothing) in both, and demands for those: equal observed position in A and B, and
  (sims) identical draw trajectories.  Keys flagged as colliding are exempt - the property's only exception.
Direct oracle (model-free): the implementation is its own oracle for hash(key, time): the key registered ALONE in a
fresh map of the same size through the public API; the private helper IndexMap._hash is only a fast route, used after
it has reproduced the public route on probe keys, and silently not used otherwise.  A shared key whose hash is neither taken before its batch nor shared with a batch-mate, in both simulations,
must sit at that hash in both, carry the simulant that supplied it, and (sims) have equal trajectories.
"""
import hashlib
import json
import random
import re

import boot
from core import Result, Stream, cbool, clist, cnat, cpair, cz
from props import c03 as base

PROPERTY = "C04"
RULE = ("pairs: a generated base history (as C03: 1-3 key columns, boundary-rich values, sizes 10..2**40, 20% one-column "
        "dense small maps) and a derived history (permute / relabel / superset / subset / split / merge / combinations), "
        "both run on real IndexMaps. sims: pairs of real simulations (2-6 initial simulants, 3-6 steps, births 0-4 per "
        "step with different schedules and batch orders, map size 10 x initial population or larger, key schemas "
        "entrance_time+age / uid / age). distinct = distinct case JSON; trivial = no key shared by the two histories")
ASSUMPTIONS = base.ASSUMPTIONS + [
    "equal positions give equal draws because a draw is the element of the seeded block at the simulant's position "
    "(C02); the sims stream checks the draws themselves (two decision points, every step)",
    "an integer / float key value reaches the model as its mathematical value whatever the storage type (int8..int64, "
    "uint8..uint64, nullable Int*/UInt*, float32/float64, Float32/Float64); storage types are varied on purpose between "
    "the two members of a pair and between batches; one map never mixes uint64/UInt64 storage with signed storage",
    "two simulations are comparable when seed and block size agree; the storage unit of datetime key columns may differ "
    "(identity is the instant: commit 11362e66) and is varied on purpose between the two members of a pair",
]
TRUSTED = [
    "C04: positions are observed through the public IndexMap.__getitem__ (sims: on the IndexMap instance seen by a "
    "class-level wrapper around the public IndexMap.update installed by the harness and removed afterwards); the "
    "direct oracle's hashes come from registering keys alone through the public API, the private IndexMap._hash being "
    "a validated shortcut only; the private IndexMap._map is read for the key-association check only while it has "
    "the known shape (skipped otherwise)",
]
CLAIM = {
    "technique": "Coq proof over all pairs of registration histories + paired correspondence incl. whole simulations",
    "text": "For any two registration histories over the same block size, a key registered in both at the same clock time "
            "that collides with nothing registered with or before it in either gets the same position in both - whatever "
            "the simulant labels, the batch order, the batching and the other simulants - namely hash(attributes, time, "
            "size); it keeps it for the rest of the run, carries the simulant that supplied it, and so receives the "
            "same draws at every decision point (C04_alignment, C04_position_is_hash(_history), C04_join_by_key, "
            "C04_same_draws). Real IndexMaps fed permuted / relabelled / super-set / re-batched histories and pairs of "
            "whole simulations with different birth schedules are compared with the model inside Coq.",
    "note": "Trusted: the transcription of index_map.py into IndexMap.v (validated on the sampled pairs only), the block "
            "abstraction of SHA-1 + Mersenne twister (C02), the harness. Keys that collide are exempt, as the property "
            "says; the share of exempt keys is measured and reported.",
}

FUEL = base.FUEL
_LITS = []
_HASH_ERRORS = []
_SKIPPED = [0]


# ----------------------------------------------------------------------------------------------------------------
# derived histories
# ----------------------------------------------------------------------------------------------------------------
def _copy(x):
    return json.loads(json.dumps(x))


def fresh_key(rng, like, dtypes, size, seen, j):
    for _ in range(50):
        k = []
        for c, dt in zip(like, dtypes):
            if dt.startswith("d:"):
                v = c[1] + rng.randint(-10 ** 7, 10 ** 7) * base.NPU[dt[2:]]
                k.append(["d", v if abs(v) < 9 * 10 ** 18 else c[1] + base.NPU[dt[2:]] * rng.randint(1, 999)])   # inside the ns range
            elif base.kind(dt) == "i":
                if dt[2:] in base.UNSIGNED:        # the column lives in unsigned storage (maybe above 2**63): stay non-negative
                    k.append(["i", base.gen_int(rng, rng.choice(["small", "seq", "ulim"]), j, size)])
                else:
                    k.append(["i", base.gen_int(rng, rng.choice(["small", "seq", "big", "mult", "lim"]), j, size)])
            else:
                k.append(["f", float(base.gen_float(rng, rng.choice(["dyadic", "decimal", "age"]), j)).hex()])
        if base.py_key(k) not in seen:
            seen.add(base.py_key(k))
            return k
    return None


def derive(rng, A, kinds):
    """A counterfactual history for the baseline A."""
    steps = _copy(A["steps"])
    seen = {base.py_key(k) for st in steps for k in st["keys"]}
    size = A["size"]
    if "subset" in kinds:
        for st in steps:
            keep = [i for i in range(len(st["keys"])) if rng.random() > 0.3]
            st["keys"] = [st["keys"][i] for i in keep]
            st["labels"] = [st["labels"][i] for i in keep]
    if "superset" in kinds:
        cap = max(2, int(0.7 * size)) if size < 400 else 10 ** 9
        total = sum(len(st["keys"]) for st in steps)
        for st in steps:
            if not st["keys"]:
                continue
            for j in range(rng.choice([1, 1, 2, 3, 6])):
                if total >= cap:
                    break
                k = fresh_key(rng, st["keys"][0], st["dtypes"], size, seen, 1000 + j)
                if k is None:
                    continue
                pos = rng.randint(0, len(st["keys"]))
                st["keys"].insert(pos, k)
                st["labels"].insert(pos, -1)
                total += 1
    if "split" in kinds:
        out = []
        for st in steps:
            n = len(st["keys"])
            if n >= 2 and rng.random() < 0.7:
                cut = rng.randint(1, n - 1)
                out.append({"dtypes": st["dtypes"], "labels": st["labels"][:cut], "keys": st["keys"][:cut], "t": st["t"]})
                out.append({"dtypes": st["dtypes"], "labels": st["labels"][cut:], "keys": st["keys"][cut:], "t": st["t"]})
            else:
                out.append(st)
        steps = out
    if "merge" in kinds:
        out = []
        for st in steps:
            if out and out[-1]["t"] == st["t"] and out[-1]["dtypes"] == st["dtypes"]:
                out[-1]["labels"] += st["labels"]
                out[-1]["keys"] += st["keys"]
            else:
                out.append(st)
        steps = out
    if "permute" in kinds:
        for st in steps:
            order = list(range(len(st["keys"])))
            rng.shuffle(order)
            if rng.random() < 0.3:
                order = order[::-1] if rng.random() < 0.5 else sorted(order, reverse=True)
            st["keys"] = [st["keys"][i] for i in order]
            st["labels"] = [st["labels"][i] for i in order]
    # labels: fresh ones for the added keys, then the chosen relabelling
    used = {l for st in steps for l in st["labels"] if l >= 0}
    nxt = max(used | {0}) + 1
    for st in steps:
        for i, l in enumerate(st["labels"]):
            if l < 0:
                st["labels"][i] = nxt
                nxt += 1
    # storage types of the integer / float columns: B keeps A's unless told to store the SAME values in other widths /
    # signedness / nullable types ("retype")
    base.fit_types(steps, rng, retype="retype" in kinds)
    if "reunit" in kinds:
        # the counterfactual stores the same instants (and clock) in other units: s / ms / us / ns
        base.fit_units(steps, rng, reunit=True)
    else:
        base.fit_units(steps, rng)
    if "relabel" in kinds:
        mode = rng.choice(["offset", "consecutive", "reverse", "sparse"])
        allv = [l for st in steps for l in st["labels"]]
        if mode == "offset":
            off = rng.choice([1, 7, 1000, 10 ** 6])
            mp = {l: l + off for l in allv}
        elif mode == "consecutive":
            mp = {l: i for i, l in enumerate(allv)}
        elif mode == "reverse":
            mp = {l: len(allv) - 1 - i for i, l in enumerate(allv)}
        else:
            vals = rng.sample(range(10 ** 6), len(allv))
            mp = dict(zip(allv, vals))
        for st in steps:
            st["labels"] = [mp[l] for l in st["labels"]]
    B = {"size": size, "crn": True, "fuel": A["fuel"], "steps": steps, "qseed": rng.getrandbits(32)}
    return B


KIND_SETS = [["permute"], ["relabel"], ["superset"], ["subset"], ["split"], ["permute", "relabel"],
             ["superset", "permute"], ["superset", "relabel", "permute"], ["split", "permute"], ["split", "relabel"],
             ["subset", "superset", "permute", "relabel"], ["merge"], ["merge", "permute"], [],
             ["reunit"], ["reunit"], ["reunit", "permute"], ["reunit", "relabel", "superset"], ["reunit", "split"],
             ["retype"], ["retype"], ["retype", "permute"], ["retype", "relabel", "superset"], ["retype", "merge"]]


def gen_pair(rng):
    r = rng.random()
    if r < 0.3:
        A = base.gen_single_column(rng)
    else:
        A = base.gen_history(rng, nbatch=rng.choice([1, 2, 2, 3, 3, 4]))
    if rng.random() < 0.3:          # make two batches share a clock time (so that split/merge have something to do)
        for i in range(1, len(A["steps"])):
            if rng.random() < 0.5:
                A["steps"][i]["t"] = A["steps"][i - 1]["t"]
    kinds = list(rng.choice(KIND_SETS))
    has_dates = any(dt.startswith("d:") for st in A["steps"] for dt in st["dtypes"]) or any(st["t"][0] == "d" for st in A["steps"])
    if has_dates and "reunit" not in kinds and rng.random() < 0.5:
        kinds.append("reunit")
    has_num = any(base.kind(dt) in "if" for st in A["steps"] for dt in st["dtypes"])
    if has_num and "retype" not in kinds and rng.random() < 0.5:
        kinds.append("retype")
    return {"A": A, "B": derive(rng, A, kinds), "kinds": kinds}


def corpus_pairs():
    f = lambda x: ["f", float(x).hex()]
    mk = lambda size, steps: {"size": size, "crn": True, "fuel": FUEL, "qseed": 11, "steps": steps}
    one = lambda labels, vals, t: {"dtypes": ["i"], "labels": labels, "keys": [[["i", v]] for v in vals], "t": ["i", t]}
    return [
        # the regression pair of commit b091dd41: key 3 collides with nothing (hashes 5->7, 25->7, 3->1); alone / after
        # the colliding pair it must sit at 1 in both
        {"A": mk(10, [one([0], [3], 1)]), "B": mk(10, [one([0, 1, 2], [5, 25, 3], 1)]), "kinds": ["superset"]},
        {"A": mk(10, [one([0, 1, 2, 3], [5, 15, 25, 3], 1), one([4], [8], 2)]),
         "B": mk(10, [one([10, 11, 12], [3, 40, 15], 1), one([13, 14], [77, 8], 2)]), "kinds": ["subset", "superset", "relabel"]},
        # entrance_time + age, permuted and relabelled
        {"A": mk(50, [{"dtypes": ["d:us", "f"], "labels": [0, 1, 2], "t": ["d", 1120262400000000000, "us"],
                       "keys": [[["d", 1120262400000000000], f(30.5)], [["d", 1120262400000000000], f(3.25)], [["d", 1120262400000000000], f(77.125)]]}]),
         "B": mk(50, [{"dtypes": ["d:s", "f"], "labels": [7, 5, 9], "t": ["d", 1120262400000000000, "ns"],
                       "keys": [[["d", 1120262400000000000], f(77.125)], [["d", 1120262400000000000], f(30.5)], [["d", 1120262400000000000], f(3.25)]]}]),
         "kinds": ["permute", "relabel"]},
    ]


# ----------------------------------------------------------------------------------------------------------------
# the implementation as its own hash oracle
# ----------------------------------------------------------------------------------------------------------------
_HELPER = {"trusted": 0, "distrusted": 0, "absent": 0}


def impl_hashes(size, st, qrng, nprobe=2, public_only=False):
    """Initial hashes of the keys of one batch, the implementation being its own oracle.
    Public route: every key registered ALONE in a fresh map of the same size at the batch's clock (IndexMap.update /
    __getitem__).  Fast route: the private helper IndexMap._hash on a fresh map - used only after it has reproduced the
    public route on two randomly chosen keys of this batch; a helper that is absent, renamed, or means something else
    now is simply not used (small batches then go the public route entirely, larger ones are skipped and counted)."""
    from vivarium.framework.randomness.index_map import IndexMap
    n = len(st["keys"])
    if not n or any(dt.startswith("b:") for dt in st["dtypes"]):
        return None
    if n <= 4 or public_only:
        return [singleton_position(size, st, i) for i in range(n)]
    probe = sorted(qrng.sample(range(n), nprobe))
    public = {i: singleton_position(size, st, i) for i in probe}
    hs = None
    try:
        cols = [f"k{j}" for j in range(len(st["dtypes"]))]
        fn = getattr(IndexMap(cols, size=size), "_hash", None)
        if callable(fn):
            clock, _ = base.clock_value(st["t"])
            out = fn(base.key_index(st["dtypes"], st["keys"]), salt=clock)
            hs = [int(v) for v in list(out)]
            if len(hs) != n or any(not 0 <= h < size for h in hs) or any(hs[i] != public[i] for i in probe):
                hs = None
                _HELPER["distrusted"] += 1
            else:
                _HELPER["trusted"] += 1
        else:
            _HELPER["absent"] += 1
    except Exception as e:
        _HASH_ERRORS.append(f"{type(e).__name__}: {e}"[:200])
        hs = None
    if hs is not None:
        return hs
    if n <= 12:
        return [public[i] if i in public else singleton_position(size, st, i) for i in range(n)]
    return None


def singleton_position(size, st, i):
    """Position of key i of the batch when it is registered ALONE in a fresh map at the batch's clock time (public API)."""
    import pandas as pd
    from vivarium.framework.randomness.index_map import IndexMap
    ncols = len(st["dtypes"])
    imap = IndexMap([f"k{j}" for j in range(ncols)], size=size)
    df = base.frame(st["dtypes"], [0], [st["keys"][i]])
    clock, _ = base.clock_value(st["t"])
    imap.update(df, clock)
    return int(imap[pd.Index([0], dtype="int64")][0])


def clean_table(case, trace, qrng, public_only=False):
    """key -> (clock spec, clean?, hash, observed final position, label) for the accepted keys of one history,
    clean-ness judged with the implementation's own hashes relative to the observed maps.  Batches whose hashes could
    not be obtained are left out (second result: how many)."""
    size = case["size"]
    table = {}
    prev_pos = set()
    skipped = 0
    validated = False
    final = {l: p for l, p in trace[-1]["obs"]} if trace else {}
    for st, tr in zip(case["steps"], trace):
        if tr["code"] == 0 and st["keys"]:
            hs = impl_hashes(size, st, qrng, nprobe=1 if validated else 2, public_only=public_only)
            validated = validated or (hs is not None and len(st["keys"]) > 4)
            if hs is None:
                skipped += 1
            else:
                for l, k, h in zip(st["labels"], st["keys"], hs):
                    clean = (h not in prev_pos) and hs.count(h) == 1
                    table[base.py_key(k)] = (json.dumps(st["t"]), clean, h, final.get(l), l)
        prev_pos = {p for _, p in tr["obs"]}
    return table, skipped


def pair_oracle(A, tA, B, tB, traj=None):
    """A failure found with hashes from the private helper is re-derived through the public route alone before it is
    reported: the helper can speed the oracle up, it can never make it fail."""
    before = _HELPER["trusted"]
    res = _pair_oracle(A, tA, B, tB, traj, False)
    if not res[0] and _HELPER["trusted"] > before:
        res = _pair_oracle(A, tA, B, tB, traj, True)
    return res


def _pair_oracle(A, tA, B, tB, traj, public_only):
    qrng = random.Random(A.get("qseed", 0) ^ 0x5EED)
    ta, sa = clean_table(A, tA, qrng, public_only)
    tb, sb = clean_table(B, tB, qrng, public_only)
    _SKIPPED[0] += sa + sb
    shared = both_clean = 0
    for k, (t, ca, h, pa, la) in ta.items():
        if ca and pa != h:
            return False, f"A: key {k} collides with nothing but sits at {pa}, its hash is {h}", shared, both_clean
    for k, (t, cb, h, pb, lb) in tb.items():
        if cb and pb != h:
            return False, f"B: key {k} collides with nothing but sits at {pb}, its hash is {h}", shared, both_clean
    for k, (t, ca, h, pa, la) in ta.items():
        if k in tb:
            t2, cb, h2, pb, lb = tb[k]
            shared += 1
            if t == t2 and ca and cb:
                both_clean += 1
                if pa != pb:
                    return False, (f"key {k} registered at {t} in both simulations, colliding with nothing in either, "
                                   f"sits at {pa} (simulant {la}) in A and at {pb} (simulant {lb}) in B"), shared, both_clean
                if traj is not None and traj.get(k) is False:
                    return False, f"key {k} has one position ({pa}) in both simulations but its draws differ", shared, both_clean
    return True, "", shared, both_clean


def run_pair(case):
    A, B = case["A"], case["B"]
    tA, regA = base.drive(A)
    tB, regB = base.drive(B)
    ok, msg = base.oracle(A, tA, regA)
    if ok:
        ok, msg = base.oracle(B, tB, regB)
    shared = both = 0
    if ok:
        ok, msg, shared, both = pair_oracle(A, tA, B, tB)
    fuel = max(base.model_fuel(A), base.model_fuel(B))
    coq = "(" + cpair(cz(A["size"]), cnat(fuel), base.coq_steps(A, tA), base.coq_steps(B, tB), "([] : list traj)") + " : c04_case)"
    _LITS.append(coq)
    ncols = len(A["steps"][0]["dtypes"]) if A["steps"] else 0
    size = A["size"]
    tags = ["kinds:" + ("+".join(case["kinds"]) or "same"), f"ncols{ncols}",
            "size<=50" if size <= 50 else "size<=256" if size <= 256 else "size>256",
            f"shared{'0' if shared == 0 else '1-9' if shared < 10 else '10+'}",
            f"codesA{''.join(map(str, sorted({t['code'] for t in tA})))}"]
    key = hashlib.sha1(json.dumps(case, sort_keys=True).encode()).hexdigest() if shared else None
    obs = {"codesA": [t["code"] for t in tA], "codesB": [t["code"] for t in tB], "shared": shared, "clean_in_both": both,
           "finalA": tA[-1]["obs"][:30] if tA else [], "finalB": tB[-1]["obs"][:30] if tB else []}
    return Result(ok=ok, msg=msg, coq=coq, key=key, obs=obs, tags=tuple(tags))


# ----------------------------------------------------------------------------------------------------------------
# whole simulations
# ----------------------------------------------------------------------------------------------------------------
def gen_sim(rng):
    schema = rng.choice(["et_age", "et_age", "uid", "age"])
    pop = rng.randint(2, 6)
    steps = rng.randint(3, 6)
    sched_a = [rng.choice([0, 0, 1, 2, 3, 4]) for _ in range(steps)]
    mode = rng.choice(["more", "less", "other", "same"])
    if mode == "more":
        sched_b = [a + rng.choice([0, 1, 2]) for a in sched_a]
    elif mode == "less":
        sched_b = [max(0, a - rng.choice([0, 1, 2])) for a in sched_a]
    elif mode == "same":
        sched_b = list(sched_a)
    else:
        sched_b = [rng.choice([0, 1, 2, 3, 4]) for _ in range(steps)]
    pop_b = pop if rng.random() < 0.6 else rng.randint(2, 6)
    map_size = rng.choice([0, 0, 0, 97, 101, 1000, 10 ** 6])     # 0 -> the manager's floor 10 x population_size
    if map_size == 0 and pop != pop_b:
        pop_b = pop                                              # the block size must agree between the scenarios
    return {"schema": schema, "pop": [pop, pop_b], "sched": [sched_a, sched_b], "order": [rng.choice(["id", "id", "rev", "shuf"]),
            rng.choice(["id", "rev", "shuf"])], "map_size": map_size, "seed": rng.randint(0, 99), "aseed": rng.getrandbits(30),
            "step_days": rng.choice([1, 1, 7, 28]), "start": [rng.choice([1990, 2005, 2020]), rng.randint(1, 12), rng.randint(1, 28)],
            "et_units": [rng.choice(["us", "ns", "s", "ms"]), rng.choice(["us", "ns", "s", "ms"])],
            "uid_types": [rng.choice(["int64", "int32", "Int16", "uint16", "UInt32", "uint64"]), rng.choice(["int64", "int32", "int16", "uint32", "Int64", "UInt16"])]}


def corpus_sims():
    return [
        {"schema": "uid", "pop": [5, 5], "sched": [[2, 0, 3], [4, 1, 3]], "order": ["id", "rev"], "map_size": 0, "seed": 1,
         "aseed": 7, "step_days": 1, "start": [2005, 7, 1], "uid_types": ["int64", "int32"]},
        {"schema": "et_age", "pop": [4, 4], "sched": [[1, 1, 1, 1], [3, 3, 3, 3]], "order": ["id", "shuf"], "map_size": 0, "seed": 0,
         "aseed": 9, "step_days": 28, "start": [2020, 1, 1], "et_units": ["us", "ns"]},
        {"schema": "et_age", "pop": [5, 5], "sched": [[2, 2, 0], [2, 1, 3]], "order": ["id", "rev"], "map_size": 0, "seed": 3,
         "aseed": 4, "step_days": 1, "start": [2005, 7, 1], "et_units": ["s", "ms"]},
    ]


def cohort_values(case, cohort, n):
    """The identities available to cohort number `cohort` (0 = initial population): deterministic in the case, the same
    in both scenarios.  Scenario X takes the first n_X of them, in its own order."""
    r = random.Random(case["aseed"] * 1000 + cohort)
    vals, seen = [], set()
    while len(vals) < n:
        if case["schema"] == "uid":
            v = cohort * 100 + len(vals) * r.choice([1, 1, 3]) + r.choice([0, 0, 30000, 30000, 10 ** 10])
        else:
            # ages: unique across cohorts (the hundreds digit is the cohort), fractional parts repeat on purpose
            v = 100.0 * cohort + r.choice([r.randint(0, 1599) / 16.0, r.randint(0, 999) / 10.0, r.uniform(0, 99.9), 0.0, 0.5])
        if v not in seen:
            seen.add(v)
            vals.append(v)
    return vals


def make_population(case, which, log):
    import pandas as pd
    from vivarium import Component

    class CrnPopulation(Component):
        @property
        def name(self):
            return "crn_population"

        @property
        def columns_created(self):
            return ["entrance_time", "age", "uid", "d1", "d2"]

        def setup(self, builder):
            self.register = builder.randomness.register_simulants
            self.s1 = builder.randomness.get_stream("dp_one")
            self.s2 = builder.randomness.get_stream("dp.two")
            self.creator = builder.population.get_simulant_creator()
            self.cohort = 0
            self.step = 0
            # ONE storage type for the uid column in this scenario (the state table does not like a column changing
            # its type while simulants are added - finding F-L): the wanted narrow type if every value any cohort can
            # offer fits, else the 64-bit type of the same flavour
            want = case.get("uid_types", ["int64", "int64"])[which]
            if case["schema"] == "uid":
                every = [int(v) for c in range(len(case["sched"][which]) + 2) for v in cohort_values(case, c, 8)]
                lo, hi = base.INT_TYPES[want]
                if not all(lo <= v <= hi for v in every):
                    want = "uint64" if want[0] in "uU" else "Int64" if want[0] == "I" else "int64"
            self.uid_type = want
            self.rng = random.Random(case["aseed"] + (17 if which else 0))

        def on_initialize_simulants(self, pop_data):
            n = len(pop_data.index)
            vals = cohort_values(case, self.cohort, n)
            order = case["order"][which]
            if order == "rev":
                vals = vals[::-1]
            elif order == "shuf":
                self.rng.shuffle(vals)
            self.cohort += 1
            df = pd.DataFrame(index=pop_data.index)
            df["entrance_time"] = pd.Series(pop_data.creation_time, index=pop_data.index).dt.as_unit(case.get("et_units", ["us", "us"])[which])
            if case["schema"] == "uid":
                df["uid"] = pd.array([int(v) for v in vals], dtype=self.uid_type)
                df["age"] = 0.0
            else:
                df["age"] = [float(v) for v in vals]
                df["uid"] = 0
            self.register(df[KEYCOLS[case["schema"]]])
            df["d1"] = self.s1.get_draw(pop_data.index)
            df["d2"] = self.s2.get_draw(pop_data.index, additional_key="init")
            self.population_view.update(df)
            log.append(("init", [int(l) for l in df.index], [x.hex() for x in df["d1"]], [x.hex() for x in df["d2"]]))

        def key_of(self, df):
            cols = [_cell_of(df[c])[0] for c in KEYCOLS[case["schema"]]]
            return [tuple(col[i] for col in cols) for i in range(len(df))]

        def on_time_step(self, event):
            pop = self.population_view.get(event.index)
            d1 = self.s1.get_draw(pop.index)
            d2 = self.s2.get_draw(pop.index, additional_key=3)
            pop["d1"], pop["d2"] = d1, d2
            self.population_view.update(pop[["d1", "d2"]])
            log.append(("step", [int(l) for l in pop.index], [x.hex() for x in d1], [x.hex() for x in d2]))
            n = case["sched"][which][self.step] if self.step < len(case["sched"][which]) else 0
            self.step += 1
            if n > 0:
                self.creator(n, {"sim_state": "time_step"})

    return CrnPopulation()


KEYCOLS = {"et_age": ["entrance_time", "age"], "uid": ["uid"], "age": ["age"]}


def _cell_of(col):
    """Cells of a real key column (whatever dtype the simulation produced)."""
    import numpy as np
    dt = str(col.dtype)
    m = re.match(r"datetime64\[(\w+)\]", dt)
    if m:
        return [("d", int(v) * base.NPU[m.group(1)]) for v in col.to_numpy().view("i8")], f"d:{m.group(1)}"
    if dt in base.INT_TYPES:
        return [("i", int(v)) for v in col.tolist()], "i:" + dt
    if dt in base.FLOAT_TYPES:
        return [("f", float(v).hex()) for v in col.tolist()], "f:" + dt
    return [("b", str(v)) for v in col.tolist()], "b:str"


def run_one_sim(case, which):
    """-> (history case in the format of C03, trace, trajectories {py_key: [..draws..]}, map size)"""
    import pandas as pd
    from vivarium.framework.engine import SimulationContext
    from vivarium.framework.randomness.index_map import IndexMap
    boot.reset_contexts()
    log = []
    comp = make_population(case, which, log)
    y, mo, d = case["start"]
    nsteps = len(case["sched"][which])
    end = pd.Timestamp(year=y, month=mo, day=d) + pd.Timedelta(days=case["step_days"] * nsteps)
    cfg = {"population": {"population_size": case["pop"][which]},
           "time": {"start": {"year": y, "month": mo, "day": d}, "end": {"year": end.year, "month": end.month, "day": end.day},
                    "step_size": case["step_days"]},
           "randomness": {"key_columns": KEYCOLS[case["schema"]], "random_seed": case["seed"],
                          "map_size": case["map_size"] if case["map_size"] else 1}}
    steps, trace, registered = [], [], []
    orig = IndexMap.update
    qrng = random.Random(case["aseed"])
    sizes = []
    uncounted = []

    def recording_update(self, new_keys, clock_time):
        cols = [_cell_of(new_keys[c]) for c in new_keys.columns]
        keys = [[list(cols[j][0][i]) for j in range(len(cols))] for i in range(len(new_keys))]
        labels = [int(l) for l in new_keys.index]
        if isinstance(clock_time, pd.Timestamp):
            t = ["d", int(clock_time.as_unit("ns").value), clock_time.unit]
        else:
            t = ["i", int(clock_time)]
        st = {"dtypes": [c[1] for c in cols], "labels": labels, "keys": keys, "t": t}
        code, err = base.guarded_update(self, new_keys, clock_time, FUEL, call=orig)
        if not base.COUNTED[0]:
            uncounted.append(1)
        if code == 0:
            registered.extend([l, k, st["dtypes"]] for l, k in zip(labels, keys))
        obs = base.read_positions(self, [r[0] for r in registered], qrng)
        steps.append(st)
        trace.append({"code": code, "err": err, "obs": obs, "tcell": base.clock_value(t)[1], "nreg": len(registered),
                      "private": base.private_rows(self, len(cols))})
        sizes.append(len(self))
        if code != 0:
            raise RuntimeError(f"registration failed inside the simulation: code {code} {err}")

    IndexMap.update = recording_update
    try:
        sim = SimulationContext(components=[comp], configuration=cfg, logging_verbosity=0)
        boot.quiet_logging()
        sim.setup()
        sim.initialize_simulants()
        for _ in range(nsteps):
            sim.step()
    finally:
        IndexMap.update = orig
    # a simulant's identity is the key it was REGISTERED with (recorded at IndexMap.update), not what the state table
    # shows later
    key_of_label = {l: base.py_key(k) for l, k, _ in registered}
    traj = {}
    for _what, labels, d1, d2 in log:
        for l, a, b in zip(labels, d1, d2):
            if l in key_of_label:
                traj.setdefault(key_of_label[l], []).append((a, b))
    size = sizes[0] if sizes else 0
    hist = {"size": size, "crn": True, "fuel": FUEL, "steps": steps, "qseed": case["aseed"]}
    if uncounted:
        hist["_uncounted"] = True
    return hist, trace, registered, traj


def run_sim(case):
    try:
        A, tA, regA, trA = run_one_sim(case, 0)
        B, tB, regB, trB = run_one_sim(case, 1)
    except RuntimeError as e:
        if "registration failed" in str(e) and ("code 3" in str(e) or "code 4" in str(e)):
            return Result(ok=True, coq=None, key=None, obs=str(e), tags=("collision_loop_cut",))
        raise
    if A["size"] != B["size"]:
        return Result(ok=True, coq=None, key=None, obs="block sizes differ", tags=("sizes_differ",))
    ok, msg = base.oracle(A, tA, regA)
    if ok:
        ok, msg = base.oracle(B, tB, regB)
    same = {k: (trA[k] == trB[k]) for k in trA if k in trB}
    shared = both = 0
    if ok:
        ok, msg, shared, both = pair_oracle(A, tA, B, tB, traj=same)
    # Coq: the trajectories verdict per shared key
    keycells = {}
    for st in A["steps"]:
        for k in st["keys"]:
            keycells[base.py_key(k)] = k
    tr = "(" + clist(cpair(base.coq_key(keycells[k]), cbool(v)) for k, v in same.items() if k in keycells) + " : list traj)"
    fuel = max(base.model_fuel(A), base.model_fuel(B))
    coq = "(" + cpair(cz(A["size"]), cnat(fuel), base.coq_steps(A, tA), base.coq_steps(B, tB), tr) + " : c04_case)"
    _LITS.append(coq)
    ndiff = sum(1 for v in same.values() if not v)
    tags = [f"schema:{case['schema']}", f"size{A['size']}" if A["size"] <= 100 else "size>100", f"shared{min(shared, 30) // 10 * 10}+",
            "some_trajectories_differ" if ndiff else "all_trajectories_equal"]
    obs = {"size": A["size"], "shared": shared, "clean_in_both": both, "trajectories_compared": len(same), "differ": ndiff,
           "regsA": len(regA), "regsB": len(regB)}
    key = hashlib.sha1(json.dumps(case, sort_keys=True).encode()).hexdigest() if shared else None
    return Result(ok=ok, msg=msg, coq=coq, key=key, obs=obs, tags=tuple(tags))


# ----------------------------------------------------------------------------------------------------------------
def extra(run):
    """Statistics measured by the model on a sample of this run's pairs (never decides anything)."""
    cap = 60 if run.tier == "quick" else 300
    lits = _LITS[:cap // 2] + _LITS[-(cap // 2):] if len(_LITS) > cap else list(_LITS)
    jobs, sizes = [], []
    for k in range(0, len(lits), 50):
        chunk = lits[k:k + 50]
        jobs.append((f"stats_C04_{k // 50}.v", "From Viv Require Import Common IndexMap.",
                     "Definition cases : list c04_case := " + clist("\n  " + c for c in chunk) + ".", "c04_stats cases"))
        sizes.append(len(chunk))
    tot = [0, 0, 0]
    n = 0
    for (rc, out), sz in zip(base.coq_eval_many(jobs), sizes):
        m = re.search(r"=\s*\((-?\d+)(?:%Z)?,\s*(-?\d+)(?:%Z)?,\s*(-?\d+)(?:%Z)?\)", out.replace("\n", " "))
        if rc == 0 and m:
            for i in range(3):
                tot[i] += int(m.group(i + 1))
            n += sz
        else:
            run.notes.append(f"a statistics file did not evaluate: {out[-300:]}")
    run.notes.append(f"direct oracle: hashes of {_HELPER['trusted']} batches from the private helper after it reproduced the public "
                     f"route on probe keys, {_HELPER['distrusted']} batches with a helper that did not (not used), "
                     f"{_HELPER['absent']} without helper; {_SKIPPED[0]} batches left out of the oracle (too large for the public route)")
    if n:
        run.notes.append(f"measured by the model on a sample of {n} of this run's pairs: {tot[0]} keys are registered in both "
                         f"histories, {tot[1]} of them collide with nothing in either (compared exactly), {tot[0] - tot[1]} are "
                         f"exempt (the property's permitted exception); {tot[2]} whole-simulation draw trajectories compared")
        run.hist["stats:sample_pairs"] = n
        run.hist["stats:shared_keys"] = tot[0]
        run.hist["stats:shared_clean_in_both"] = tot[1]
        run.hist["stats:trajectories_compared"] = tot[2]


def shrink_pair(case):
    """Smaller variants of a pair: shrink one history (as C03), or drop one key from both."""
    import copy
    for side in ("A", "B"):
        for h in base.shrink_hist(case[side]):
            c = copy.deepcopy(case)
            c[side] = h
            yield c
    keysB = {base.py_key(k): (i, j) for i, st in enumerate(case["B"]["steps"]) for j, k in enumerate(st["keys"])}
    for i, st in enumerate(case["A"]["steps"]):
        for j, k in enumerate(st["keys"]):
            if base.py_key(k) in keysB:
                c = copy.deepcopy(case)
                del c["A"]["steps"][i]["keys"][j]
                del c["A"]["steps"][i]["labels"][j]
                bi, bj = keysB[base.py_key(k)]
                del c["B"]["steps"][bi]["keys"][bj]
                del c["B"]["steps"][bi]["labels"][bj]
                yield c


def shrink_sim(case):
    """Smaller variants of a pair of simulations: fewer steps, fewer births, smaller initial population, plain order."""
    import copy
    n = len(case["sched"][0])
    if n > 1:
        c = copy.deepcopy(case)
        c["sched"] = [s[:-1] for s in c["sched"]]
        yield c
    for w in (0, 1):
        for i, v in enumerate(case["sched"][w]):
            if v > 0:
                c = copy.deepcopy(case)
                c["sched"][w][i] = v - 1
                yield c
                if v > 1:
                    c = copy.deepcopy(case)
                    c["sched"][w][i] = 0
                    yield c
    if min(case["pop"]) > 1 and case["pop"][0] == case["pop"][1]:
        c = copy.deepcopy(case)
        c["pop"] = [case["pop"][0] - 1] * 2
        yield c
    for w in (0, 1):
        if case["order"][w] != "id":
            c = copy.deepcopy(case)
            c["order"][w] = "id"
            yield c


def streams(tier):
    imp = "From Viv Require Import Common IndexMap."
    return [
        Stream(name="pairs", imports=imp, check="check_c04", gen=gen_pair, run=run_pair, corpus=corpus_pairs, shrink=shrink_pair,
               n_quick=50, n_thorough=450),
        Stream(name="sims", imports=imp, check="check_c04", gen=gen_sim, run=run_sim, corpus=corpus_sims, shrink=shrink_sim,
               n_quick=18, n_thorough=200),
    ]
