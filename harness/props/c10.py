"""C10 - Per-simulant clocks: nobody is skipped, nobody is updated early (DESIGN.md section 5, C10).

Tie to the code: every case builds a real SimulationContext / InteractiveContext (DateTimeClock or SimpleClock) with a
probe component that registers 1-3 step-size modifiers following a generated table (call no., label) -> value / NaN,
listens to the four main-loop events, gives birth and moves simulants to the end during them according to a generated
plan, and records - through the public builder.time interface - event.index / event.time / event.step_size of every
event, clock(), step_size(), simulant_next_event_times() and simulant_step_sizes() of the whole population at every
event and after every step, and every value the modifiers returned.  Streams:

  clock    the per-simulant clock driven by run() / manual step() / InteractiveContext.take_steps(k[, step_size]) /
           InteractiveContext.run_for / run_until / run (returned step counts compared too), with untracking:
           model trace (Clock.check_clock, evaluated by Coq) == observed trace, exactly, in integer ns; the direct oracle
           evaluates the property (post-processor spec, invariant, hits-earliest, active-exact, never-passed,
           included-advances, moved-to-end) on the observed trace alone
  post     the step-size pipeline alone (source + 3 modifiers + step_size_post_processor) on arbitrary value lists,
           incl. values below the minimum, 0, exact multiples, multiples -+ 1 unit, all-NaN (negative requests are
           outside the property and are not generated: the code's behaviour on them is left free)
  global   the clock without any step modifier (no individual clocks): every simulant in every event, constant step

Numbers: one unit = 6 hours (DateTimeClock; compared in ns) or 0.25 (SimpleClock with a float configuration; compared
in quarters); all generated quantities are whole units, so float arithmetic in the implementation is exact.
"""
import random

import boot
from core import Result, Stream, cbool, clist, cnat, copt, cpair, cz, czlist

PROPERTY = "C10"
CLAIM = {
    "technique": "Coq proof of a Gallina clock model + kernel-checked trace correspondence with the real clock",
    "text": "Machine-checked theorems over ALL populations (incl. the single simulant 0), modifier value assignments, "
            "standard/minimum steps and histories of step_forward / births / move-to-end requests: the post-processor "
            "returns m*max(1,floor(min request/m)); every step_forward establishes T < next_i and S = min next - T; the "
            "clock lands exactly on the earliest pending time; each event index is exactly {i | next_i = T+S}; no time is "
            "passed; included simulants advance by their new step, others are untouched; simulants moved to the end sit "
            "at stop+minimum and are in no event at or before the stop time; InteractiveContext.step without override is "
            "the plain step; run_until/run_for/run stop at the first boundary at or after the end time and return the step "
            "count; untracked simulants never influence the schedule (any history = the same history with untracking "
            "erased) and are in events like everybody else. The model is tied to /repo/src by exact integer-ns comparison (decided by Coq vm_compute) of "
            "event indexes, clock, global step and both clock columns after every step of generated runs on real contexts "
            "(both clock plugins, four drivers, births, snoozes, untracking, overrides), plus a direct python oracle of the property.",
    "note": "Trusted: the hand transcription of time.py/engine.step/InteractiveContext.step into Clock.v (validated on the "
            "sampled traces only), the probe/recording harness, pandas float division of step sizes being exact on whole "
            "6-hour units below 2^53 ns, int64 range. Requests are assumed non-negative; a step taken with a pending "
            "move-to-end request at a time beyond stop+minimum is outside the invariant (stated guard); a move-to-end "
            "request for a simulant that is not due raises KeyError (robustness note F-I, modelled as Rejected). "
            "SimpleClock accepts step modifiers only as object-dtype series on a float configuration (anything else "
            "raises inside the post-processor): that is the only SimpleClock form exercised.",
}
RULE = ("clock: one case = one real context (DateTimeClock 70% / SimpleClock 30%; minimum step 1-12 quarter units, "
        "standard step absent / multiple / non-multiple / below minimum; population 0, 1, 2-30; 1-3 modifiers of kind "
        "const / by-label / by-time / table with NaN share 0-60% and partial-index returns; per-step plan of births "
        "(any of the 4 events), move-to-end requests (all / {0} / residue class / first / last of the event index; "
        "rarely a simulant that is not due), untracking, overrides and chunk sizes; drivers run / step / take_steps / "
        "run_until (run_for, run_until, run with spans 0, past, <, =, > the minimum step; ends capped at the stop time); 0-2 "
        "steps beyond the stop time). distinct = distinct case; trivial = no step was taken. post: 1-6 labels x 3 modifiers, "
        "values from {NaN, 0, <minimum, k*minimum, k*minimum-+1, arbitrary}. global: populations 0-12, births")
ASSUMPTIONS = [
    "all generated times and step sizes are whole multiples of 6 hours (0.25 for SimpleClock) and stay below 2^53 ns, so "
    "the float division / floor / multiplication inside step_size_post_processor is exact",
    "simulant labels are 0..n-1 in creation order (population manager; property C13)",
    "step modifiers return non-negative values (the theorems' guard); negative requests are not generated",
    "a move-to-end request naming a simulant that is not updated at the next step_forward raises KeyError in the real "
    "code (F-I): modelled as Rejected, the theorems exclude it",
]
TRUSTED = [
    "C10 harness reads no private attribute of /repo/src: the whole population's labels come from "
    "context.get_population(untracked=True).index, tracked flags from a population view on ['tracked'], everything else "
    "from builder.time / builder.event / builder.population / builder.value; the initial global step is read with "
    "builder.time.step_size() in a post_setup listener; a refused zero step is recognised by exception class + observed "
    "zero step, not by message text",
]

UNIT_NS = 6 * 3600 * 10 ** 9
MAX_STEPS = 80
EVENTS = ["time_step__prepare", "time_step", "time_step__cleanup", "collect_metrics"]
SIMPLE_PLUGINS = {"required": {"clock": {"controller": "vivarium.framework.time.SimpleClock",
                                         "builder_interface": "vivarium.framework.time.TimeInterface"}}}


# ----------------------------------------------------------------------------------------------------------------
# units
# ----------------------------------------------------------------------------------------------------------------
class Units:
    """Conversions between whole units (quarters), the implementation's values and the integers Coq sees."""

    def __init__(self, kind):
        import pandas as pd
        self.kind, self.pd = kind, pd
        self.scale = UNIT_NS if kind == "dt" else 1

    def delta(self, q):            # units -> implementation step
        return self.pd.Timedelta(hours=6 * q) if self.kind == "dt" else q / 4.0

    def time_int(self, x):         # implementation time -> integer (ns / quarters)
        if self.kind == "dt":
            return int(self.pd.Timestamp(x).value)
        v = float(x) * 4
        assert v == int(v), f"non-quarter time {x!r}"
        return int(v)

    def delta_int(self, x):
        if self.kind == "dt":
            return int(self.pd.Timedelta(x).value)
        v = float(x) * 4
        assert v == int(v), f"non-quarter step {x!r}"
        return int(v)

    def q_int(self, q):            # units -> the integer Coq sees
        return q * self.scale

    def add(self, t, q):           # implementation time + q units (q may be 0 or negative)
        return t + (self.pd.Timedelta(hours=6 * q) if self.kind == "dt" else q / 4.0)


def config_for(case):
    kind = case["clock"]
    if kind == "dt":
        import datetime
        d0 = datetime.date(2005, 7, 1) + datetime.timedelta(days=case["start_day"])
        d1 = d0 + datetime.timedelta(days=case["len_days"])
        t = {"start": {"year": d0.year, "month": d0.month, "day": d0.day},
             "end": {"year": d1.year, "month": d1.month, "day": d1.day}, "step_size": case["m"] / 4.0}
        if case.get("std") is not None:
            t["standard_step_size"] = case["std"] / 4.0
        plug = None
    else:
        t = {"start": float(case["start_day"]), "end": float(case["start_day"] + case["len_days"]),
             "step_size": case["m"] / 4.0}
        if case.get("std") is not None:
            t["standard_step_size"] = case["std"] / 4.0
        plug = SIMPLE_PLUGINS
    return {"population": {"population_size": case["pop"]}, "time": t}, plug


def stop_int(case, u):
    if case["clock"] == "dt":
        import datetime
        import pandas as pd
        d1 = datetime.date(2005, 7, 1) + datetime.timedelta(days=case["start_day"] + case["len_days"])
        return int(pd.Timestamp(d1.year, d1.month, d1.day).value)
    return (case["start_day"] + case["len_days"]) * 4


# ----------------------------------------------------------------------------------------------------------------
# generated modifier tables
# ----------------------------------------------------------------------------------------------------------------
def cell(spec, k, l):
    """Value (whole units) or None (NaN) the modifier returns for simulant l at its k-th call."""
    kind = spec["kind"]
    key = {"const": (0, 0), "by_label": (0, l), "by_time": (k, 0), "table": (k, l)}[kind]
    r = random.Random(f"{spec['seed']}:{key[0]}:{key[1]}")
    if r.random() < spec["p_none"]:
        return None
    return spec["palette"][r.randrange(len(spec["palette"]))]


# ----------------------------------------------------------------------------------------------------------------
# probe
# ----------------------------------------------------------------------------------------------------------------
def make_probe(case, u):
    import numpy as np
    import pandas as pd
    from vivarium import Component

    class ClockProbe(Component):
        def __init__(self):
            super().__init__()
            self.sim = None
            self.step_id = 0                # 0 = initialize_simulants; k = k-th main-loop step
            self.calls = [0] * len(case["mods"])
            self.modlog = {}                # step_id -> {modifier j -> (labels, values)}
            self.records = []               # one per main-loop step begun
            self.cur_ovr = None             # set by the driver
            self.post_setup = None
            self.fresh = None
            self.untracked = 0
            self.calls_log = None           # run_until driver: [end time, returned step count] per call

        # -- set-up ------------------------------------------------------------------------------------------
        def setup(self, builder):
            for j in range(len(case["mods"])):
                builder.time.register_step_size_modifier(self._modifier(j))
            self.clock = builder.time.clock()
            self.gstep = builder.time.step_size()
            self.net = builder.time.simulant_next_event_times()
            self.sss = builder.time.simulant_step_sizes()
            self.move_to_end = builder.time.move_simulants_to_end()
            self.creator = builder.population.get_simulant_creator()
            self.tracked_view = builder.population.get_view(["tracked"])
            builder.event.register_listener("post_setup", self._on_post_setup)
            for k, ev in enumerate(EVENTS):
                builder.event.register_listener(ev, self._listener(k))

        def _on_post_setup(self, event):
            self.post_setup = (u.time_int(self.clock()), u.delta_int(self.gstep()))

        def _modifier(self, j):
            spec = case["mods"][j]

            def modifier(index):
                k = self.calls[j]
                self.calls[j] += 1
                labels = [int(l) for l in index]
                vals = [cell(spec, k, l) for l in labels]
                self.modlog.setdefault(self.step_id, {}).setdefault(j, []).append((labels, vals))
                if spec["subset"]:
                    keep = [(l, v) for l, v in zip(labels, vals) if v is not None]
                    labels, vals = [l for l, _ in keep], [v for _, v in keep]
                if u.kind == "dt":
                    return pd.Series([pd.NaT if v is None else u.delta(v) for v in vals], index=pd.Index(labels, dtype="int64"),
                                     dtype="timedelta64[ns]")
                # SimpleClock: the pipeline's source is a NaT series, so only object-dtype series with NaN holes survive
                # the post-processor (numeric dtypes raise, None turns the result into an object column)
                return pd.Series([np.nan if v is None else u.delta(v) for v in vals], index=pd.Index(labels, dtype="int64"),
                                 dtype=object)
            modifier.__name__ = f"probe_modifier_{j}"
            return modifier

        # -- observation -------------------------------------------------------------------------------------
        def gstep_int(self):
            try:
                return u.delta_int(self.gstep())
            except ValueError:          # the step_size property refuses a zero step
                return 0

        def snapshot(self):
            idx = self.sim.get_population(untracked=True).index
            nxt, stp = self.net(idx), self.sss(idx)
            assert list(nxt.index) == list(idx) and list(stp.index) == list(idx)
            trk = self.tracked_view.get(idx)["tracked"]
            return {"T": u.time_int(self.clock()), "S": self.gstep_int(),
                    "rows": [[int(l), u.time_int(n), u.delta_int(s)] for l, n, s in zip(idx, nxt, stp)],
                    "untracked": [int(l) for l, t in zip(trk.index, trk) if not bool(t)]}

        def _listener(self, k):
            def listen(event):
                if k == 0:
                    self.step_id += 1
                    if self.step_id > MAX_STEPS:        # a clock that stopped advancing must not hang the check
                        raise RuntimeError(f"harness: more than {MAX_STEPS} steps - the clock does not reach the stop time")
                    self.records.append({"ovr": self.cur_ovr, "pre": self.snapshot(), "etime": [], "estep": [], "idx": [],
                                         "cols": [], "acts": [], "raised": None})
                    if len(self.records) >= 4 and len({r["pre"]["T"] for r in self.records[-4:]}) == 1:
                        raise RuntimeError("harness: the clock did not advance in three consecutive steps")
                    self.fresh = self.records[-1]["pre"]["rows"]
                rec = self.records[-1]
                rec["etime"].append(u.time_int(event.time))
                rec["estep"].append(u.delta_int(event.step_size))
                rec["idx"].append([int(l) for l in event.index])
                if self.fresh is None:       # the probe acted since the last reading: read the columns again
                    self.fresh = self.snapshot()["rows"]
                rec["cols"].append(self.fresh)
                plan = case["plan"][(self.step_id - 1) % len(case["plan"])]
                sn = []
                rules = plan.get("snooze") or []
                rules = [r for r in (rules if isinstance(rules, list) else [rules]) if r["phase"] == k]
                for rule in rules:              # several requests may precede one update: the pending set is their union
                    one = self.select(rule, rec["idx"][-1], [r[0] for r in rec["cols"][-1]])
                    self.move_to_end(pd.Index(one, dtype="int64") if one else pd.Index([]))
                    sn += one
                ut = plan.get("untrack")
                sel = []
                if ut and ut["phase"] == k:      # untracked simulants are treated like everybody else by the clock
                    sel = self.select(ut, rec["idx"][-1], [r[0] for r in rec["cols"][-1]])
                    if sel:
                        df = self.tracked_view.get(pd.Index(sel, dtype="int64"))
                        df["tracked"] = False
                        self.tracked_view.update(df)
                        self.untracked += len(sel)
                b = plan["births"][k]
                if b:
                    self.creator(b, {"sim_state": "time_step"})
                rec["acts"].append([b, sn, sel])
                if b or rules:
                    self.fresh = None
                if k == 3:
                    rec["cols_end"] = self.fresh if self.fresh is not None else self.snapshot()["rows"]
            listen.__name__ = f"probe_{EVENTS[k]}"
            return listen

        @staticmethod
        def select(rule, active, everyone):
            kind = rule["kind"]
            if kind == "all":
                return list(active)
            if kind == "zero":
                return [l for l in active if l == 0]
            if kind == "mod":
                return [l for l in active if l % rule["a"] == rule["b"] % rule["a"]]
            if kind == "first":
                return list(active[:1])
            if kind == "last":
                return list(active[-1:])
            if kind == "nondue":                       # F-I: a simulant that will not be updated at the next step_forward
                rest = [l for l in everyone if l not in set(active)]
                return rest[:1] + list(active[:1])
            if kind == "empty":
                return []
            raise ValueError(kind)

    return ClockProbe()


# ----------------------------------------------------------------------------------------------------------------
# drivers
# ----------------------------------------------------------------------------------------------------------------
def drive(case, u):
    """Runs the case on the real code; returns (probe, final snapshot or None, error text or None)."""
    from vivarium.framework.engine import SimulationContext
    from vivarium.interface.interactive import InteractiveContext
    boot.reset_contexts()
    probe = make_probe(case, u)
    cfg, plug = config_for(case)
    driver = case["driver"]
    if driver in ("take_steps", "run_until"):
        sim = InteractiveContext(components=[probe], configuration=cfg, plugin_configuration=plug, setup=False,
                                 logging_verbosity=0)
    else:
        sim = SimulationContext(components=[probe], configuration=cfg, plugin_configuration=plug, logging_verbosity=0)
    probe.sim = sim
    boot.quiet_logging()
    if driver in ("take_steps", "run_until"):
        sim.setup()                       # InteractiveContext.setup also creates the population
    else:
        sim.setup()
        sim.initialize_simulants()
    init = probe.snapshot()
    stop = stop_int(case, u)
    err = None

    def now():
        return u.time_int(probe.clock())
    try:
        if driver == "run":
            sim.run()
        elif driver == "step":
            extra, reached = case.get("overshoot", 0), False
            while probe.step_id <= MAX_STEPS:
                reached = reached or now() >= stop      # (past the stop time the clock may move backwards: R4)
                if reached:
                    if extra <= 0:
                        break
                    extra -= 1
                sim.step()
        elif driver == "run_until":
            # InteractiveContext.run_for / run_until / run: `while clock.time < end: step()`; returns the step count
            probe.calls_log = []
            spans = case.get("spans") or [4]
            i = 0
            while now() < stop and probe.step_id <= MAX_STEPS and i < 200:
                kind, q = spans[i % len(spans)]
                i += 1
                t_now = now()
                # end times stay at or before the stop time: beyond stop + minimum a parked simulant's step
                # (stop + minimum - time) is <= 0 and the real clock stalls or runs backwards (robustness note R4)
                q = min(q, (stop - t_now) // u.scale)
                if kind == "run":
                    end = stop
                    probe.calls_log.append([end, None])
                    n = sim.run(with_logging=False)
                elif kind == "for":
                    end = t_now + u.q_int(q)
                    probe.calls_log.append([end, None])
                    n = sim.run_for(u.delta(q), with_logging=False)
                else:
                    end = t_now + u.q_int(q)
                    probe.calls_log.append([end, None])
                    n = sim.run_until(u.add(probe.clock(), q), with_logging=False)
                probe.calls_log[-1][1] = int(n)
        else:
            extra, reached = case.get("overshoot", 0), False
            while probe.step_id <= MAX_STEPS:
                reached = reached or now() >= stop
                if reached:
                    if extra <= 0:
                        break
                    extra -= 1
                plan = case["plan"][len(probe.records) % len(case["plan"])]
                k = plan.get("chunk", 1) if not reached else 1
                ovr = plan.get("ovr")
                probe.cur_ovr = ovr
                n_before = len(probe.records)
                if ovr is None:
                    sim.take_steps(k, with_logging=False)
                else:               # an override is installed before the events of a step: only single steps are observable
                    sim.take_steps(1, step_size=u.delta(ovr), with_logging=False)
                probe.cur_ovr = None
                nxt_plan = case["plan"][len(probe.records) % len(case["plan"])]
                if len(probe.records) > n_before and nxt_plan.get("ovr") is not None:
                    probe.records[-1]["post"] = probe.snapshot()     # the next override would hide the global step
            probe.cur_ovr = None
    except Exception as e:  # the step raised: the trace ends here
        err = e
    return probe, init, err


# ----------------------------------------------------------------------------------------------------------------
# Coq rendering
# ----------------------------------------------------------------------------------------------------------------
def cq(n):
    """Integer literal; large values as `ns k r` = k six-hour units + r ns (exact; keeps coqc's parsing time down)."""
    n = int(n)
    if abs(n) < 10 ** 7:
        return cz(n)
    k, r = divmod(n, UNIT_NS)
    return f"(ns ({k}) {r})" if k < 0 else f"(ns {k} {r})"


def c_state(s):
    return cpair(cq(s["T"]), cq(s["S"]), clist(cpair(cz(l), cq(n), cq(st)) for l, n, st in s["rows"]), czlist(s["untracked"]))


def req_table(probe, step_id, u):
    """label -> [source NaN] + one value per modifier, from the recorded calls of this step (last call wins)."""
    calls = probe.modlog.get(step_id, {})
    tbl = {}
    nm = len(probe.calls)
    for j in range(nm):
        for labels, vals in calls.get(j, []):
            for l, v in zip(labels, vals):
                tbl.setdefault(l, [None] * nm)[j] = v
    return tbl


def c_table(tbl, u):
    return clist(cpair(cz(l), clist(["None"] + [copt(v, lambda q: cq(u.q_int(q))) for v in vs])) for l, vs in sorted(tbl.items()))


# ----------------------------------------------------------------------------------------------------------------
# stream `clock`
# ----------------------------------------------------------------------------------------------------------------
def run_clock(case):
    u = Units(case["clock"])
    probe, init, err = drive(case, u)
    m, std = case["m"] * u.scale, (case["std"] if case.get("std") is not None else case["m"]) * u.scale
    stop = stop_int(case, u)
    t0, s0 = probe.post_setup
    recs = probe.records
    # ---- classify the error, attach post-states ----
    final = None
    raised_new = False
    if err is not None:
        # (recognised by class and by the zero global step, not by the message text)
        if isinstance(err, ValueError) and probe.gstep_int() == 0 and (not recs or "cols_end" in recs[-1]):
            raised_new = True           # a new step refused at its very start (zero global step)
        elif recs:
            recs[-1]["raised"] = f"{type(err).__name__}: {err}"[:200]
        else:
            return Result(ok=False, msg=f"context raised before any step: {type(err).__name__}: {err}")
    try:
        final = probe.snapshot()
    except Exception:           # after an exception inside step_forward the clock need not be in a consistent state
        final = None
    snaps = [init]
    for i, r in enumerate(recs):
        if r["raised"]:
            break
        snaps.append(r["post"] if "post" in r else recs[i + 1]["pre"] if i + 1 < len(recs) else final)
    ok, msg = oracle(case, u, probe, recs, snaps, m, std, stop, t0, s0, err, raised_new)
    # ---- Coq case ----
    steps = []
    for i, r in enumerate(recs):
        sid = i + 1
        sin = cpair(copt(r["ovr"], lambda q: cq(u.q_int(q))), clist(cpair(cnat(b), czlist(sn), czlist(ut)) for b, sn, ut in r["acts"]),
                    c_table(req_table(probe, sid, u), u))
        if r["raised"]:
            steps.append(cpair(sin, "None"))
            break
        out = "(Some " + cpair(cq(r["etime"][0]), clist(czlist(ix) for ix in r["idx"]), c_state(snaps[sid])) + ")"
        steps.append(cpair(sin, out))
    if raised_new:
        steps.append(cpair(cpair("None", "[]", "[]"), "None"))
    coq = cpair(cbool(u.kind == "simple"), cq(t0), cq(stop), cq(m), cq(std), cq(s0), cnat(case["pop"]),
                c_table(req_table(probe, 0, u), u),
                c_state(init), clist(steps),
                "None" if probe.calls_log is None else
                "(Some " + clist(cpair(cq(e), cnat(n if n is not None else 4999)) for e, n in probe.calls_log) + ")")
    coq = f"({coq} : clock_case)"        # the expected type settles the implicit arguments of empty lists / None
    pop_end = len(snaps[-1]["rows"]) if snaps[-1] else 0
    tags = [case["clock"], case["driver"], f"pop{_bucket(case['pop'])}", f"mods{len(case['mods'])}",
            f"steps{_bucket(len(recs))}"]
    if any(a[0] for r in recs for a in r["acts"]):
        tags.append("births")
    if any(a[1] for r in recs for a in r["acts"]):
        tags.append("snooze")
    if any(r["ovr"] is not None for r in recs):
        tags.append("override")
    if probe.untracked:
        tags.append("untracked")
    if err is not None:
        tags.append("step_raised")
    if any(r["etime"] and r["etime"][0] > stop for r in recs):
        tags.append("beyond_stop")
    obs = {"t0": t0, "s0": s0, "init": init, "steps": [{"ovr": r["ovr"], "etime": r["etime"][:1], "idx": r["idx"],
                                                       "acts": r["acts"], "raised": r["raised"]} for r in recs[:12]],
           "final": final if final and len(final["rows"]) <= 12 else None, "n_steps": len(recs), "pop_end": pop_end}
    return Result(ok=ok, msg=msg, coq=coq, key=_key(case) if recs else None, obs=obs, tags=tuple(tags))


def _bucket(n):
    for b in (0, 1, 2, 5, 10, 20, 40):
        if n <= b:
            return f"<={b}"
    return ">40"


def _key(case):
    import json
    return json.dumps(case, sort_keys=True)


def expected_step(vals, m, std):
    """The property's own statement of the post-processor, over integers."""
    vs = [v for v in vals if v is not None]
    v = min(vs) if vs else std
    return m * max(1, v // m) if v >= 0 else None


def oracle(case, u, probe, recs, snaps, m, std, stop, t0, s0, err, raised_new):
    """The property evaluated on the observed trace alone (no model)."""
    def fail(s):
        return False, s
    init = snaps[0]
    if t0 != init["T"]:
        return fail(f"clock after initialize_simulants {init['T']} != start {t0}")
    if len(init["rows"]) != case["pop"] or [r[0] for r in init["rows"]] != list(range(case["pop"])):
        return fail("initial population labels are not 0..n-1")
    # initial update: everyone gets the step requested for them
    tbl0 = req_table(probe, 0, u)
    for l, n, st in init["rows"]:
        vals = [None if v is None else v * u.scale for v in tbl0.get(l, [])]
        exp = expected_step(vals, m, std)
        if exp is None or st != exp or n != t0 + exp:
            return fail(f"initial step of simulant {l}: step {st} next {n}, requested {vals} -> expected {exp}")
    if init["rows"] and init["S"] != min(r[1] for r in init["rows"]) - t0:
        return fail(f"initial global step {init['S']} != min next - T")
    if not init["rows"] and init["S"] != s0:
        return fail("global step changed on an empty population")
    pending = set()         # move-to-end requests not yet consumed
    parked = {}             # label -> step no. at which it was parked
    inv = True              # does the invariant hold at the start of the step? (lost only by an override)
    for i, r in enumerate(recs):
        sid = i + 1
        pre = snaps[i]
        seen = dict(r["pre"])
        if r["ovr"] is not None:        # the override is already installed when the first event fires
            if seen["S"] != r["ovr"] * u.scale:
                return fail(f"step {sid}: override {r['ovr']} units not in force during the events")
            seen["S"] = pre["S"]
        if pre != seen:
            return fail(f"step {sid}: state at time_step__prepare differs from the state after the previous step")
        S_eff = r["ovr"] * u.scale if r["ovr"] is not None else pre["S"]
        et = pre["T"] + S_eff
        if len(r["etime"]) != 4 and not r["raised"]:
            return fail(f"step {sid}: {len(r['etime'])} events")
        pre_rows = {l: (n, st) for l, n, st in pre["rows"]}
        if inv and pre["rows"]:
            if not all(n > pre["T"] for n, _ in pre_rows.values()):
                return fail(f"step {sid}: a next-event time is not after the clock {pre['T']}")
            if pre["S"] != min(n for n, _ in pre_rows.values()) - pre["T"]:
                return fail(f"step {sid}: global step {pre['S']} != earliest next-event time - clock")
        for j in range(len(r["etime"])):
            if r["etime"][j] != et or r["estep"][j] != S_eff:
                return fail(f"step {sid} event {j}: event time/step {r['etime'][j]}/{r['estep'][j]} != {et}/{S_eff}")
            cols = r["cols"][j]
            reached = [l for l, n, st in cols if n <= et]
            if r["idx"][j] != reached:
                return fail(f"step {sid} event {j}: index {r['idx'][j]} != simulants whose time has been reached {reached}")
            if inv and r["ovr"] is None and pre["rows"]:
                exact = [l for l, n, st in cols if n == et]
                if r["idx"][j] != exact or not exact:
                    return fail(f"step {sid} event {j}: index {r['idx'][j]} != simulants with next = T+S {exact}")
            if et <= stop:
                hit = [l for l in r["idx"][j] if l in parked]
                if hit:
                    return fail(f"step {sid} event {j} (time <= stop): simulants {hit} moved to the end at step "
                                f"{[parked[l] for l in hit]} are included")
            if j < len(r["acts"]):
                pending |= set(r["acts"][j][1])
        if inv and r["ovr"] is None and pre["rows"] and et != min(n for n, _ in pre_rows.values()):
            return fail(f"step {sid}: event time {et} is not the earliest pending next-event time")
        if r["raised"]:
            # F-I: KeyError is the documented outcome of a move-to-end request for a simulant that is not updated next
            cols_end = r.get("cols_end")
            if cols_end is None:
                return fail(f"step {sid} raised during the events: {r['raised']}")
            due = {l for l, n, st in cols_end if n <= et}
            if due and pending - due and r["raised"].startswith("KeyError"):
                return True, ""
            return fail(f"step {sid} raised {r['raised']} (pending move-to-end {sorted(pending)}, due {sorted(due)})")
        post = snaps[sid]
        if post is None:
            return fail(f"step {sid}: no state after the step")
        if post["T"] != et:
            return fail(f"step {sid}: clock {post['T']} after the step != event time {et}")
        cols_end = r["cols_end"]
        post_rows = {l: (n, st) for l, n, st in post["rows"]}
        if [l for l, _, _ in post["rows"]] != [l for l, _, _ in cols_end]:
            return fail(f"step {sid}: population changed inside step_forward")
        # births: labels continue, next = event time, step = global step of the moment
        old = set(pre_rows)
        for l, n, st in cols_end:
            if l not in old and (n != et or st != S_eff):
                return fail(f"step {sid}: newborn {l} got next {n} step {st}, expected {et}/{S_eff}")
            if l in old and (n, st) != pre_rows[l]:
                return fail(f"step {sid}: row of {l} changed during the events")
        due = [l for l, n, st in cols_end if n <= et]
        tbl = req_table(probe, sid, u)
        guard_ok = True
        for l, n, st in cols_end:
            if l in due:
                if l in pending:
                    exp = stop + m - et
                    if exp <= 0:
                        guard_ok = False
                else:
                    if l not in tbl:
                        return fail(f"step {sid}: simulant {l} was updated but no modifier was asked about it")
                    exp = expected_step([None if v is None else v * u.scale for v in tbl[l]], m, std)
                if post_rows[l] != (et + exp, exp):
                    return fail(f"step {sid}: included simulant {l}: next/step {post_rows[l]} != {(et + exp, exp)}")
            elif post_rows[l] != (n, st):
                return fail(f"step {sid}: simulant {l} was not due (next {n} > {et}) but its clock changed to {post_rows[l]}")
        if due:
            for l in pending:
                parked[l] = sid
            pending = set()
        for l in due:
            if l in parked and parked[l] != sid:
                del parked[l]           # only reachable beyond the stop time (checked above for times <= stop)
        if r["ovr"] is None:
            if post["rows"]:
                if post["S"] != min(n for n, _ in post_rows.values()) - et:
                    return fail(f"step {sid}: global step {post['S']} != min next - clock")
                if guard_ok and not all(n > et for n, _ in post_rows.values()):
                    return fail(f"step {sid}: a next-event time is not after the clock")
            elif post["S"] != pre["S"]:
                return fail(f"step {sid}: global step changed on an empty population")
            inv = guard_ok
        else:
            if post["S"] != pre["S"]:
                return fail(f"step {sid}: explicit override: global step {post['S']} != pre-step value {pre['S']}")
            inv = False
    if err is not None and not raised_new and not (recs and recs[-1]["raised"]):
        return fail(f"driver raised {type(err).__name__}: {err}")
    # tracked flags: exactly the simulants the probe untracked, and they stayed in the schedule (checked above: event
    # indexes are computed over the whole population, untracked simulants included)
    gone = set()
    for i, r in enumerate(recs):
        for a in r["acts"]:
            gone |= set(a[2])
        if i + 1 < len(snaps) and snaps[i + 1] is not None and snaps[i + 1]["untracked"] != sorted(gone):
            return fail(f"step {i + 1}: untracked simulants {snaps[i + 1]['untracked']} != those untracked so far {sorted(gone)}")
    # run_for / run_until / run: steps are taken while clock < end, the count is returned, the clock ends at or after end
    if probe.calls_log is not None and err is None:
        i = 0
        for end, n in probe.calls_log:
            k = 0
            while i < len(recs) and snaps[i]["T"] < end:
                i, k = i + 1, k + 1
            if n != k:
                return fail(f"run_until({end}) returned {n} but {k} steps start before the end time")
            if snaps[i]["T"] < end:
                return fail(f"run_until({end}) returned at clock {snaps[i]['T']}")
        if i != len(recs):
            return fail(f"{len(recs) - i} steps were taken after the end time of the last run_until call")
    if raised_new and snaps[-1] and snaps[-1]["S"] != 0:
        return fail("step refused with a non-zero global step")
    if case["driver"] == "run" and err is None and snaps[-1] and snaps[-1]["T"] < stop:
        return fail("run() returned before the stop time")
    return True, ""


# ----------------------------------------------------------------------------------------------------------------
# generators
# ----------------------------------------------------------------------------------------------------------------
def gen_palette(rng, m, std):
    pal = []
    for _ in range(rng.randint(1, 5)):
        r = rng.random()
        k = rng.randint(1, 5)
        if r < 0.35:
            pal.append(k * m)                                  # exact multiple
        elif r < 0.55:
            pal.append(max(1, k * m + rng.choice([-1, 1])))    # multiple -+ one unit
        elif r < 0.7:
            pal.append(rng.randint(1, max(1, m)))              # at or below the minimum
        else:
            pal.append(rng.randint(1, 6 * m))
    return pal


def gen_mod(rng, m, std):
    return {"kind": rng.choice(["const", "by_label", "by_label", "by_time", "table", "table"]),
            "seed": rng.randrange(10 ** 6), "palette": gen_palette(rng, m, std),
            "p_none": rng.choice([0.0, 0.0, 0.2, 0.6]), "subset": rng.random() < 0.3}


def gen_plan(rng, m, driver):
    plan = []
    for _ in range(rng.randint(3, 24)):
        births = [0, 0, 0, 0]
        if rng.random() < 0.15:
            births[rng.randrange(4)] = rng.randint(1, 3)
            if rng.random() < 0.2:
                births[rng.randrange(4)] = rng.randint(1, 2)
        p = {"births": births}
        if rng.random() < 0.22:
            r = rng.random()
            kind = ("all" if r < 0.2 else "zero" if r < 0.4 else "mod" if r < 0.65 else "first" if r < 0.8 else
                    "last" if r < 0.92 else "empty" if r < 0.96 else "nondue")
            p["snooze"] = {"phase": rng.randrange(4), "kind": kind, "a": rng.randint(2, 4), "b": rng.randint(0, 3)}
            if rng.random() < 0.35:         # a second request before the same update (same or later event)
                p["snooze"] = [p["snooze"], {"phase": rng.randint(p["snooze"]["phase"], 3),
                                             "kind": rng.choice(["first", "last", "zero", "mod", "empty"]),
                                             "a": rng.randint(2, 3), "b": rng.randint(0, 2)}]
        if rng.random() < 0.07:
            p["untrack"] = {"phase": rng.randrange(4), "kind": rng.choice(["all", "mod", "first", "zero"]),
                            "a": rng.randint(2, 3), "b": rng.randint(0, 2)}
        if driver == "take_steps":
            p["chunk"] = rng.choice([1, 1, 2, 3])
            if rng.random() < 0.12:
                p["ovr"] = rng.randint(1, 3 * m)
        plan.append(p)
    return plan


def gen_clock(rng):
    kind = "dt" if rng.random() < 0.7 else "simple"
    m = rng.choice([1, 2, 3, 4, 4, 4, 4, 6, 8, 12])
    r = rng.random()
    std = None if r < 0.35 else m * rng.randint(1, 4) if r < 0.6 else rng.randint(1, 5 * m)
    driver = rng.choice(["run", "step", "take_steps", "run_until"])
    len_days = rng.randint(1, max(2, min(30, 8 * m // 4 + 3)))
    pop = rng.choice([0, 1, 1, 1, 2, 2, 3, 4, 5, 7, 10, 15, 22, 30])
    mods = [gen_mod(rng, m, std) for _ in range(rng.choice([1, 1, 2, 2, 3]))]
    case = {"clock": kind, "driver": driver, "m": m, "std": std, "start_day": rng.choice([0, 0, 3, 30, 183]),
            "len_days": len_days, "pop": pop, "mods": mods, "plan": gen_plan(rng, m, driver)}
    if driver == "run_until":
        spans = []
        for _ in range(rng.randint(1, 5)):
            r = rng.random()
            kind = "run" if r < 0.12 else "for" if r < 0.55 else "until"
            q = rng.choice([0, 1, m - 1, m, m + 1, 2 * m, 3 * m + 1, rng.randint(1, 8 * m)]) if rng.random() < 0.9 else -rng.randint(1, 4)
            spans.append([kind, q if kind != "for" else max(q, 0)])
        if all(q <= 0 for k, q in spans if k != "run"):
            spans.append(["for", 2 * m])
        case["spans"] = spans
    elif driver != "run":
        case["overshoot"] = rng.choice([0, 0, 0, 1, 2])
    return case


def shrink_clock(case):
    """Smaller variants of a clock case: fewer modifiers / simulants / days, quiet steps, simpler tables and drivers."""
    import copy
    quiet = {"births": [0, 0, 0, 0]}

    def variant(**kw):
        c = copy.deepcopy(case)
        c.update(kw)
        return c
    if len(case["mods"]) > 1:
        for j in range(len(case["mods"])):
            yield variant(mods=case["mods"][:j] + case["mods"][j + 1:])
    if case["pop"] > 1:
        yield variant(pop=case["pop"] // 2)
        yield variant(pop=case["pop"] - 1)
    if case["len_days"] > 1:
        yield variant(len_days=max(1, case["len_days"] // 2))
        yield variant(len_days=case["len_days"] - 1)
    if case.get("overshoot"):
        yield variant(overshoot=0)
    if any(p != quiet for p in case["plan"]):
        yield variant(plan=[quiet])
    if len(case["plan"]) > 1:
        yield variant(plan=case["plan"][:len(case["plan"]) // 2])
        for i in range(len(case["plan"])):
            if case["plan"][i] != quiet:
                c = copy.deepcopy(case)
                c["plan"][i] = dict(quiet)
                yield c
    for i, p in enumerate(case["plan"]):
        for key in ("snooze", "untrack", "ovr", "chunk"):
            if key in p:
                c = copy.deepcopy(case)
                del c["plan"][i][key]
                yield c
        if any(p["births"]):
            c = copy.deepcopy(case)
            c["plan"][i]["births"] = [0, 0, 0, 0]
            yield c
    for j, md in enumerate(case["mods"]):
        if md["kind"] != "const":
            c = copy.deepcopy(case)
            c["mods"][j]["kind"] = "by_label" if md["kind"] == "table" else "const"
            yield c
        if md["p_none"] or md["subset"]:
            c = copy.deepcopy(case)
            c["mods"][j].update(p_none=0.0, subset=False)
            yield c
        if len(md["palette"]) > 1:
            for i in range(len(md["palette"])):
                c = copy.deepcopy(case)
                del c["mods"][j]["palette"][i]
                yield c
    if case["driver"] == "run_until" and len(case.get("spans", [])) > 1:
        for i in range(len(case["spans"])):
            c = copy.deepcopy(case)
            del c["spans"][i]
            yield c
    if case["driver"] != "run":
        c = variant(driver="run")
        c.pop("spans", None)
        c.pop("overshoot", None)
        yield c
    if case.get("std") is not None:
        yield variant(std=None)
    if case["start_day"]:
        yield variant(start_day=0)


def shrink_post(case):
    import copy
    n = len(case["values"][0])
    for l in range(n):
        if n > 1:
            c = copy.deepcopy(case)
            c["values"] = [col[:l] + col[l + 1:] for col in case["values"]]
            yield c
    for j in range(3):
        for l in range(n):
            if case["values"][j][l] is not None:
                c = copy.deepcopy(case)
                c["values"][j][l] = None
                yield c


def shrink_global(case):
    import copy
    quiet = {"births": [0, 0, 0, 0]}
    if case["pop"] > 0:
        c = copy.deepcopy(case); c["pop"] = case["pop"] // 2; yield c
    if case["len_days"] > 1:
        c = copy.deepcopy(case); c["len_days"] = case["len_days"] - 1; yield c
    if any(p != quiet for p in case["plan"]):
        c = copy.deepcopy(case); c["plan"] = [quiet]; yield c


def corpus_clock():
    quiet = [{"births": [0, 0, 0, 0]}]
    three = {"kind": "const", "seed": 1, "palette": [12], "p_none": 0.0, "subset": False}
    two_three = {"kind": "by_label", "seed": 7, "palette": [8, 12], "p_none": 0.0, "subset": False}
    out = []
    for clock in ("dt", "simple"):
        for driver in ("run", "step", "take_steps"):
            # F-A: the single simulant 0 with a 3-day step on a 1-day minimum; then moved to the end at its first event
            out.append({"clock": clock, "driver": driver, "m": 4, "std": None, "start_day": 0, "len_days": 10, "pop": 1,
                        "mods": [three], "plan": quiet})
            out.append({"clock": clock, "driver": driver, "m": 4, "std": None, "start_day": 0, "len_days": 10, "pop": 1,
                        "mods": [three], "plan": [{"births": [0, 0, 0, 0], "snooze": {"phase": 1, "kind": "zero", "a": 2, "b": 0}}] + quiet * 30})
            # F-B: two simulants with steps 2 and 3 days
            out.append({"clock": clock, "driver": driver, "m": 4, "std": None, "start_day": 0, "len_days": 12, "pop": 2,
                        "mods": [two_three], "plan": quiet})
            # empty population, births later
            out.append({"clock": clock, "driver": driver, "m": 4, "std": 8, "start_day": 0, "len_days": 8, "pop": 0,
                        "mods": [two_three], "plan": quiet * 2 + [{"births": [0, 2, 0, 1]}] + quiet * 2})
    # whole population moved to the end; a non-due simulant moved to the end (F-I: KeyError)
    out.append({"clock": "dt", "driver": "run", "m": 4, "std": 8, "start_day": 0, "len_days": 9, "pop": 5, "mods": [two_three],
                "plan": quiet * 2 + [{"births": [0, 0, 0, 0], "snooze": {"phase": 0, "kind": "all", "a": 2, "b": 0}}] + quiet * 30})
    out.append({"clock": "dt", "driver": "step", "m": 4, "std": 8, "start_day": 0, "len_days": 9, "pop": 5, "mods": [two_three],
                "plan": quiet + [{"births": [0, 0, 0, 0], "snooze": {"phase": 2, "kind": "nondue", "a": 2, "b": 0}}] + quiet * 30})
    # run_for / run_until / run under per-simulant clocks (F-AB: the old run_until took a precomputed number of steps)
    for clock in ("dt", "simple"):
        out.append({"clock": clock, "driver": "run_until", "m": 4, "std": None, "start_day": 0, "len_days": 14, "pop": 2,
                    "mods": [two_three], "plan": quiet, "spans": [["for", 20], ["until", 9], ["until", 0], ["for", 0], ["run", 0]]})
    out.append({"clock": "dt", "driver": "run_until", "m": 4, "std": 12, "start_day": 0, "len_days": 12, "pop": 5, "mods": [two_three],
                "plan": [{"births": [0, 1, 0, 0], "untrack": {"phase": 0, "kind": "first", "a": 2, "b": 0}},
                         {"births": [0, 0, 0, 0], "snooze": {"phase": 1, "kind": "last", "a": 2, "b": 0}}] + quiet * 2,
                "spans": [["until", 13], ["until", -2], ["for", 6]]})
    # two move-to-end requests before one update: both are honoured
    out.append({"clock": "dt", "driver": "run", "m": 4, "std": None, "start_day": 0, "len_days": 12, "pop": 4,
                "mods": [three], "plan": [{"births": [0, 0, 0, 0], "snooze": [{"phase": 0, "kind": "first", "a": 2, "b": 0},
                                                                              {"phase": 2, "kind": "last", "a": 2, "b": 0}]}] + quiet * 5})
    # untracked simulants stay in the schedule (test_untracked_simulants)
    out.append({"clock": "dt", "driver": "run", "m": 4, "std": 28, "start_day": 0, "len_days": 12, "pop": 6, "mods": [two_three],
                "plan": [{"births": [0, 0, 0, 0], "untrack": {"phase": 1, "kind": "mod", "a": 2, "b": 0}}] + quiet * 3})
    # explicit override smaller / larger than the clock's own step
    out.append({"clock": "dt", "driver": "take_steps", "m": 4, "std": None, "start_day": 0, "len_days": 12, "pop": 3,
                "mods": [two_three], "plan": [{"births": [0, 0, 0, 0], "chunk": 1}, {"births": [0, 0, 0, 0], "chunk": 2, "ovr": 2},
                                              {"births": [0, 0, 0, 0], "chunk": 1, "ovr": 20}, {"births": [0, 0, 0, 0], "chunk": 3}]})
    return out


# ----------------------------------------------------------------------------------------------------------------
# stream `post`: the pipeline + post-processor alone
# ----------------------------------------------------------------------------------------------------------------
_POST_CTX = {}


def post_context(kind, m, std):
    key = (kind, m, std)
    if key in _POST_CTX:
        return _POST_CTX[key]
    import numpy as np
    import pandas as pd
    from vivarium import Component
    from vivarium.framework.engine import SimulationContext
    u = Units(kind)

    class PostProbe(Component):
        def __init__(self):
            super().__init__()
            self.values = [None, None, None]

        def setup(self, builder):
            for j in range(3):
                builder.time.register_step_size_modifier(self._mod(j))
            self.pipeline = builder.value.get_value("simulant_step_size")

        def _mod(self, j):
            def modifier(index):
                v = self.values[j]
                if v is None:       # initial update: no opinion
                    v = [None] * len(index)
                if u.kind == "dt":
                    return pd.Series([pd.NaT if x is None else u.delta(x) for x in v], index=index, dtype="timedelta64[ns]")
                return pd.Series([np.nan if x is None else u.delta(x) for x in v], index=index, dtype=object)
            modifier.__name__ = f"post_modifier_{j}"
            return modifier

    case = {"clock": kind, "m": m, "std": std, "start_day": 0, "len_days": 5, "pop": 6}
    cfg, plug = config_for(case)
    boot.reset_contexts()
    probe = PostProbe()
    sim = SimulationContext(components=[probe], configuration=cfg, plugin_configuration=plug, logging_verbosity=0)
    boot.quiet_logging()
    sim.setup()
    sim.initialize_simulants()
    _POST_CTX[key] = (sim, probe, u)
    return _POST_CTX[key]


POST_CONFIGS = [("dt", 4, None), ("dt", 4, 10), ("dt", 2, 7), ("dt", 12, 3), ("dt", 1, 1), ("simple", 4, 9), ("simple", 1, None),
                ("simple", 6, 6)]


def gen_post(rng):
    kind, m, std = rng.choice(POST_CONFIGS)
    n = rng.randint(1, 6)

    def val():
        r = rng.random()
        k = rng.randint(1, 6)
        if r < 0.25:
            return None
        if r < 0.45:
            return k * m
        if r < 0.65:
            return max(0, k * m + rng.choice([-1, 1]))
        if r < 0.8:
            return rng.randint(0, m)
        return rng.randint(1, 8 * m)
    return {"clock": kind, "m": m, "std": std, "values": [[val() for _ in range(n)] for _ in range(3)]}


def corpus_post():
    return [{"clock": "dt", "m": 4, "std": 10, "values": [[None, 4, 3, 5, 8, 7], [None, None, 9, 12, 1, 0], [None, 16, 8, 4, 40, 11]]},
            {"clock": "simple", "m": 4, "std": 9, "values": [[None, 4, 3, 5, 8, 7], [None, None, 9, 12, 1, 0], [None, 16, 8, 4, 40, 11]]},
            {"clock": "dt", "m": 2, "std": 7, "values": [[28, 20], [36, 36], [None, None]]}]      # test_step_size_post_processor


def run_post(case):
    import pandas as pd
    sim, probe, u = post_context(case["clock"], case["m"], case["std"])
    n = len(case["values"][0])
    probe.values = case["values"]
    try:
        out = probe.pipeline(pd.Index(range(n), dtype="int64"))
    finally:
        probe.values = [None, None, None]
    got = [u.delta_int(x) for x in out]
    if list(out.index) != list(range(n)):
        return Result(ok=False, msg=f"post-processor result index {list(out.index)}")
    m = case["m"] * u.scale
    std = (case["std"] if case["std"] is not None else case["m"]) * u.scale
    ok, msg, coq = True, "", []
    for l in range(n):
        vals = [None if col[l] is None else col[l] * u.scale for col in case["values"]]
        vs = [v for v in vals if v is not None]
        v = min(vs) if vs else std
        if v >= 0:
            exp = m * max(1, v // m)
            if got[l] != exp:
                ok, msg = False, f"label {l}: requested {vals} (std {std}, min {m}) -> {got[l]}, expected {exp}"
            elif not (got[l] % m == 0 and got[l] >= m and (v < m or got[l] <= v < got[l] + m)):
                ok, msg = False, f"label {l}: {got[l]} is not the request {v} rounded down to a multiple of {m}"
        coq.append(cpair(cq(m), cq(std), clist(["None"] + [copt(x, cq) for x in vals]), cq(got[l])))
    # one Coq case per label would multiply the batch; fold the labels into one case each (cheap)
    return Result(ok=ok, msg=msg, coq=clist(coq), key=_key(case), obs={"out": got},
                  tags=(case["clock"], "below_min" if any(v is not None and v < case["m"] for c in case["values"] for v in c) else "ge_min",
                        "allnan" if any(all(c[l] is None for c in case["values"]) for l in range(n)) else "somevalue"))


# ----------------------------------------------------------------------------------------------------------------
# stream `global`: no step modifier registered
# ----------------------------------------------------------------------------------------------------------------
def gen_global(rng):
    kind = "dt" if rng.random() < 0.6 else "simple"
    m = rng.choice([1, 2, 4, 4, 8])
    std = rng.choice([None, None, 2 * m, m + 1])
    plan = []
    for _ in range(rng.randint(2, 6)):
        births = [0, 0, 0, 0]
        if rng.random() < 0.3:
            births[rng.randrange(4)] = rng.randint(1, 3)
        p = {"births": births}
        if rng.random() < 0.3:
            p["snooze"] = {"phase": rng.randrange(4), "kind": rng.choice(["all", "zero", "first"]), "a": 2, "b": 0}
        plan.append(p)
    return {"clock": kind, "driver": rng.choice(["run", "step", "take_steps"]), "m": m, "std": std, "start_day": 0,
            "len_days": rng.randint(1, max(2, 2 * m)), "pop": rng.choice([0, 1, 2, 3, 6, 12]), "mods": [], "plan": plan}


def run_global(case):
    u = Units(case["clock"])
    probe, init, err = drive(case, u)
    if err is not None:
        return Result(ok=False, msg=f"step raised without individual clocks: {type(err).__name__}: {err}")
    t0, s0 = probe.post_setup
    final = probe.snapshot()
    recs = probe.records
    snaps = [init] + [r["pre"] for r in recs[1:]] + [final]
    ok, msg = True, ""
    steps = []
    if init["T"] != t0 or init["S"] != s0:
        ok, msg = False, f"initialize_simulants moved the clock: {init['T']}/{init['S']} vs {t0}/{s0}"
    for i, r in enumerate(recs):
        pre, post = snaps[i], snaps[i + 1]
        et = pre["T"] + pre["S"]
        for j in range(4):
            everyone = [l for l, _, _ in r["cols"][j]]
            if r["idx"][j] != everyone or everyone != list(range(len(everyone))):
                ok, msg = False, f"step {i + 1} event {j}: index {r['idx'][j]} is not the whole population {everyone}"
            if any(n != et or st != pre["S"] for _, n, st in r["cols"][j]):
                ok, msg = False, f"step {i + 1} event {j}: per-simulant view of the global clock differs from it"
            if r["etime"][j] != et or r["estep"][j] != pre["S"]:
                ok, msg = False, f"step {i + 1} event {j}: event time/step"
        if post["T"] != et or post["S"] != pre["S"]:
            ok, msg = False, f"step {i + 1}: clock {post['T']} step {post['S']} after the step, expected {et} / {pre['S']}"
        steps.append(cpair(clist(cnat(a[0]) for a in r["acts"]),
                           cpair(cq(r["etime"][0]), czlist(len(ix) for ix in r["idx"]), cq(post["T"]), cq(post["S"]))))
    coq = cpair(cq(t0), cq(s0), cnat(case["pop"]), clist(steps))
    return Result(ok=ok, msg=msg, coq=coq, key=_key(case) if recs else None, obs={"n_steps": len(recs), "t0": t0, "s0": s0},
                  tags=(case["clock"], case["driver"], f"pop{_bucket(case['pop'])}"))


def streams(tier):
    return [
        Stream(name="clock", imports="From Viv Require Import Common Clock.", check="check_clock", gen=gen_clock,
               run=run_clock, n_quick=110, n_thorough=900, corpus=corpus_clock, shrink=shrink_clock,
               doc="per-simulant clocks on real contexts: trace == model trace; oracle = the property on the trace"),
        Stream(name="post", imports="From Viv Require Import Common Clock.", check="(forallb check_post)", gen=gen_post,
               run=run_post, n_quick=250, n_thorough=4000, corpus=corpus_post, shrink=shrink_post),
        Stream(name="global", imports="From Viv Require Import Common Clock.", check="check_global", gen=gen_global,
               run=run_global, n_quick=25, n_thorough=250, shrink=shrink_global),
    ]
