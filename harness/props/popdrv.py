"""Driver shared by C11 and C13: runs a generated *program* on a real InteractiveContext with probe components and
records, after EVERY action (view update - accepted or rejected -, read, creation of simulants, each initializer call),
the full state table (labels, dtypes, cells), the outcome class, the labels returned by the creator and the
SimulantData the initializers saw.  Model: coq/theories/Population.v ([check_pop]).

A program (JSON-able; every random choice is derived from the integers in it, so a replay is exact):
  n0      : size of the initial population (configuration population.population_size)
  cols    : [[cid, dtype, owner]]   columns c<cid> created during the initial creation by probe component <owner>
  comps   : number of probe components;  reqs: [[j, i]]  component j's initializer requires the columns of component i
  views   : [[cid,...], query-id]  base views requested in setup (view k+comps.. ; view j < comps is the home view of
            component j: its own columns + tracked).  [] = the full view.  sub-views are made at the moment of use.
  init    : {j: [action,...]}       what component j's initializer does during the initial creation
  ops     : top-level history: {"k":"act", ...action} | {"k":"create", "count", "user", "scripts": {j: [action,...]}}
            | {"k":"step", "inside": {event: [op,...]}}  (ops run by a listener of probe 0 during sim.step())
  action  : {"a": kind, "view": k | [k, [cid,...]] (sub-view), "seed": int, "prop": bool, ...}
The concrete update (rows, columns, values) of an action is drawn at run time from Random(seed) and the table as it is
at that moment, so that "valid" updates stay valid in any state the implementation is in.
"""
import random

import boot
from core import Result, cbool, clist, cnat, copt, cpair, cz, czlist

EVENTS = ["time_step__prepare", "time_step", "time_step__cleanup", "collect_metrics"]
DT_PANDAS = {"bool": "bool", "int": "int64", "float": "float64", "str": "str", "time": "datetime64[us]", "obj": "object",
             "timens": "datetime64[ns]"}
DT_OF_PANDAS = {v: k for k, v in DT_PANDAS.items()}
DT_COQ = {"bool": "DBool", "int": "DInt", "float": "DFloat", "str": "DStr", "time": "DTime", "obj": "DObj",
          "timens": "DTimeNs"}
PROMOTE = {"bool": "obj", "int": "float"}
QUERIES = ["", "tracked == True", "c1 > 0", "tracked == False"]
TWO53 = 2 ** 53
START = (2005, 7, 1)


def cname(c):
    return "tracked" if c == 0 else {9: "ghost", 10: "zz"}.get(c, f"c{c}")


def cid_of(name):
    if name == "tracked":
        return 0
    if name == "ghost":
        return 9
    if name == "zz":
        return 10
    if isinstance(name, str) and name[:1] == "c" and name[1:].isdigit():
        return int(name[1:])
    return None


# ----------------------------------------------------------------------------------------------------------------
# canonical cells / tables
# ----------------------------------------------------------------------------------------------------------------
def canon_cell(x):
    """-> ("N",) | ("B",0/1) | ("I",z) | ("F",2x) | ("S",k) | ("T",days) | ("X",repr) (outside the model's cells)"""
    import numpy as np
    import pandas as pd
    if x is None or x is pd.NaT:
        return ("N",)
    if isinstance(x, (bool, np.bool_)):
        return ("B", int(bool(x)))
    if isinstance(x, (int, np.integer)):
        return ("I", int(x))
    if isinstance(x, (float, np.floating)):
        x = float(x)
        if x != x:
            return ("N",)
        if x in (float("inf"), float("-inf")) or (2 * x) != int(2 * x):
            return ("X", x.hex())
        return ("F", int(2 * x))
    if isinstance(x, str):
        if x[:1] == "s" and x[1:].isdigit():
            return ("S", int(x[1:]))
        return ("X", x)
    if isinstance(x, pd.Timestamp):
        d = x - pd.Timestamp("2000-01-01")
        if d.value % (86400 * 10 ** 9) == 0:
            return ("T", d.value // (86400 * 10 ** 9))
        return ("X", str(x))
    if isinstance(x, np.datetime64):
        return canon_cell(pd.Timestamp(x))
    return ("X", repr(x))


def canon_series(s):
    dt = DT_OF_PANDAS.get(str(s.dtype), "?" + str(s.dtype))
    return dt, [canon_cell(v) for v in s.tolist()]


def snap(df):
    """canonical table: {"labels": [...], "cols": {name: [dtype, [cells]]}}"""
    cols = {}
    for c in df.columns:
        s = df[c]
        dt, cells = canon_series(s)
        cols[str(c)] = [dt, cells]
    return {"labels": [int(x) if hasattr(x, "__index__") else repr(x) for x in df.index], "cols": cols}


def coq_cell(c):
    k = c[0]
    if k == "N":
        return "Null"
    if k == "B":
        return "Bv true" if c[1] else "Bv false"
    return {"I": "Iv", "F": "Fv", "S": "Sv", "T": "Tv"}[k] + " " + cz(c[1])


def modellable_table(t):
    if t["labels"] != list(range(len(t["labels"]))):
        return False
    for name, (dt, cells) in t["cols"].items():
        if cid_of(name) is None or dt not in DT_COQ or any(c[0] == "X" for c in cells):
            return False
    return True


def coq_table(t):
    cols = sorted(t["cols"].items(), key=lambda kv: cid_of(kv[0]))
    return "(mktbl %s %s)" % (cnat(len(t["labels"])), clist(
        "mkcol %s %s %s" % (cz(cid_of(n)), DT_COQ[dt], clist(coq_cell(c) for c in cells)) for n, (dt, cells) in cols))


def is_fz_change(before, after):
    """exactly the class of finding F-Z: an int64 of magnitude above 2^53 replaced by the nearest double (held as
    float64, or cast back to int64)"""
    if before[0] != "I" or abs(before[1]) <= TWO53:
        return False
    rz = int(float(before[1]))
    return tuple(after) in (("I", rz), ("F", 2 * rz))


def pyeq(a, b):
    """Python == on the cells of an object column: True == 1 == 1.0 (what Series.equals uses there)"""
    num = lambda c: {"B": 2 * c[1], "I": 2 * c[1], "F": c[1]}.get(c[0]) if c[0] in "BIF" else None
    return a == b or (num(a) is not None and num(a) == num(b))


def veq(a, b):
    """same value up to the int64/float64 representation"""
    if a == b:
        return True
    if a[0] == "I" and b[0] == "F":
        return 2 * a[1] == b[1]
    if a[0] == "F" and b[0] == "I":
        return a[1] == 2 * b[1]
    return False


# ----------------------------------------------------------------------------------------------------------------
# values
# ----------------------------------------------------------------------------------------------------------------
def draw_value(rng, dt, nulls=True):
    import pandas as pd
    if dt == "bool":
        return rng.random() < 0.5
    if dt == "int":
        r = rng.random()
        if r < 0.04:
            return rng.choice([TWO53, -TWO53, TWO53 - 1])      # the boundary of exact int64 <-> float64 round trips
        if r < 0.052:                                          # beyond it: finding F-Z (births round these)
            return rng.choice([TWO53 + 1, -(TWO53 + 3), TWO53 + 2, 2 ** 60 + 1, 3 * 2 ** 54 + 5, -(2 ** 62) + 127])
        return rng.randint(-3, 9)
    if dt == "float":
        if nulls and rng.random() < 0.1:
            return float("nan")
        return rng.randint(-8, 20) / 2
    if dt == "str":
        return f"s{rng.randint(0, 5)}"
    if dt in ("time", "timens"):
        if nulls and rng.random() < 0.08:
            return pd.NaT
        return pd.Timestamp("2000-01-01") + pd.Timedelta(days=rng.randint(0, 40))
    if dt == "obj":
        return rng.choice([True, False, rng.randint(0, 5), rng.randint(0, 9) / 2])
    raise ValueError(dt)


def lit_value(x, dt):
    """JSON value -> python value: null, bool, int, float, "sK", {"t": days}"""
    import pandas as pd
    if x is None:
        return pd.NaT if dt in ("time", "timens") else float("nan")
    if isinstance(x, dict):
        return pd.Timestamp("2000-01-01") + pd.Timedelta(days=x["t"])
    return x


def mk_series(values, labels, dt, name):
    import pandas as pd
    idx = pd.Index(list(labels), dtype="int64")
    if dt == "obj":
        s = pd.Series(list(values), index=idx, dtype=object, name=name)
    else:
        s = pd.Series(list(values), index=idx, dtype=DT_PANDAS[dt], name=name)
    return s


def value_of_cell(c, dt):
    """python value denoting a canonical cell (to rewrite existing values)"""
    import pandas as pd
    k = c[0]
    if k == "N":
        return pd.NaT if dt in ("time", "timens") else float("nan")
    if k == "B":
        return bool(c[1])
    if k == "I":
        return int(c[1])
    if k == "F":
        return c[1] / 2
    if k == "S":
        return f"s{c[1]}"
    if k == "T":
        return pd.Timestamp("2000-01-01") + pd.Timedelta(days=c[1])
    raise ValueError(c)


# ----------------------------------------------------------------------------------------------------------------
# the run
# ----------------------------------------------------------------------------------------------------------------
class Run:
    def __init__(self, case):
        self.case = case
        self.ok, self.msgs, self.fl = True, [], []          # oracle verdict; self.fl: failures of the F-L class
        self.fs = []                                        # failures of the big-int class (|int64| > 2^53, reported)
        self.trace = []                                     # top-level xops (python structures)
        self.cur_script = None                              # list of act records while inside an initializer
        self.last_obs = None                                # last table rendered into the Coq literal
        self.held = []                                      # (frame handed out by a read, deep copy taken then)
        self.flags = (False, False)                         # expected (creating, adding)
        self.first = True                                   # no population yet
        self.home = {}                                      # dtype of each column before the current creation's reindex
        self.pending = None                                 # scripts of the creation in progress
        self.creation = None
        self.tags = set()
        self.modellable = True
        self.n_updates = 0
        self.finalized, self.stepped, self.cur_event = False, False, None
        self.sim = None
        self.views = []
        self.inside = {}

    # ---- oracle bookkeeping ----
    def fail(self, msg, fl=False, fs=False):
        if fl:
            self.fl.append(msg)
        elif fs:
            self.fs.append(msg)
        else:
            self.ok = False
        self.msgs.append(("[F-L class] " if fl else "[big-int class] " if fs else "") + msg)

    def manager(self):
        """the population manager, looked up BY TYPE among the context's attributes (no private name relied upon)"""
        try:
            from vivarium.framework.population.manager import PopulationManager
            ms = [v for v in vars(self.sim).values() if isinstance(v, PopulationManager)]
            return ms[0] if len(ms) == 1 else None
        except Exception:
            return None

    def table(self):
        try:
            return snap(self.sim.get_population(untracked=True))
        except Exception as e:
            from vivarium.framework.lifecycle import LifeCycleError
            if not isinstance(e, LifeCycleError):
                raise
            # before population_creation the context's accessor is refused by the life cycle: ask the manager's public
            # method; if the manager cannot be found and nothing has been created yet the table is empty
            m = self.manager()
            if m is not None:
                return snap(m.get_population(True))
            if self.first:
                return {"labels": [], "cols": {}}
            raise

    def real_flags(self):
        import os
        if os.environ.get("VERIF_POP_NOFLAGS"):               # self-test: observe through public interfaces only
            return None
        # cross-check only, never required; anything unexpected -> None (the cross-check is skipped)
        try:
            m = self.manager()
            return None if m is None else (bool(m.creating_initial_population), bool(m.adding_simulants))
        except Exception:
            return None

    def tobs(self, t):
        if not modellable_table(t):
            self.modellable = False
            return "TUnobserved"
        if self.last_obs is not None and t == self.last_obs:
            return "TSame"
        self.last_obs = t
        return "(TNew %s)" % coq_table(t)

    def check_held(self):
        for fr, cp in self.held:
            try:
                same = fr.equals(cp) and list(fr.dtypes.astype(str)) == list(cp.dtypes.astype(str)) \
                    and list(fr.columns) == list(cp.columns)
            except Exception:
                same = False
            if not same:
                self.fail("a frame handed out by an earlier read was changed by a later operation")
                self.held = []
                return

    def emit(self, rec):
        if self.cur_script is not None:
            self.cur_script.append(rec)
        else:
            self.trace.append(("act", rec))

    # ---- views ----
    def resolve_view(self, spec):
        """-> (view object or exception, coq vspec, effective python column list or None)"""
        if isinstance(spec, int):
            return self.views[spec % len(self.views)], self.vspec_coq(spec % len(self.views))
        k, sub = spec
        parent = self.views[k % len(self.views)]
        coq = "(VSub %s %s)" % (self.vspec_coq(k % len(self.views)), czlist(sub))
        try:
            return parent.subview([cname(c) for c in sub]), coq
        except Exception as e:
            return e, coq

    def vspec_coq(self, k):
        return "(VBase %s)" % czlist(self.view_cols[k])

    # ---- actions ----
    def do_action(self, act, pop_data=None):
        kind = act["a"]
        rng = random.Random(act["seed"])
        B = self.table()
        if kind == "read":
            return self.do_read(act, rng, B)
        view, vcoq = self.resolve_view(act["view"])
        prop = bool(act.get("prop")) and self.cur_script is not None
        if isinstance(view, Exception):
            from vivarium.framework.population.exceptions import PopulationError
            code = 1 if isinstance(view, PopulationError) else 3
            A = self.table()
            if A != B:
                self.fail("a refused subview() call changed the table")
            self.tags.add("subview_refused")
            self.emit(("upd", vcoq, [], "UNotPandas", False, code, self.tobs(A)))
            return
        upd, ucanon, label = self.concretize(act, rng, B, view, pop_data)
        self.tags.add("a:" + label)
        vcols = list(view.columns)
        # iteration order of the column loop: the same expression the code evaluates, in this process
        try:
            names = list(upd.columns) if hasattr(upd, "columns") else [upd.name if upd.name is not None else vcols[0]]
            ordn = list(set(names).intersection(B["cols"])) + list(set(names).difference(B["cols"]))
            ordc = [cid_of(n) for n in ordn if cid_of(n) is not None]
        except Exception:
            ordc = []
        if rng.random() < 0.3:
            rng.shuffle(ordc)
        code, exc = 0, None
        try:
            view.update(upd)
        except Exception as e:
            exc = e
            code = self.classify(e)
        A = self.table()
        self.n_updates += 1
        self.tags.add(f"code{code}")
        self.oracle_update(B, A, code, ucanon, vcols, label)
        self.check_held()
        rf = self.real_flags()
        if rf is not None and rf != self.flags:
            self.fail(f"manager flags (creating, adding) = {rf}, expected {self.flags}")
        if ucanon is not None and any(c[0] == "X" for _, _, cells in ucanon["cols"] for c in cells):
            self.modellable = False
        self.emit(("upd", vcoq, ordc, self.coq_upd(ucanon), prop, code, self.tobs(A)))
        if exc is not None and prop:
            raise exc

    def classify(self, e):
        from vivarium.framework.population.exceptions import PopulationError
        if isinstance(e, PopulationError):
            return 1
        if isinstance(e, TypeError):
            return 2
        return 3

    def do_read(self, act, rng, B):
        import pandas as pd
        how = rng.choice(["pop", "view", "view"])
        fr = None
        try:
            if how == "pop":
                fr = self.sim.get_population(untracked=True)
            else:
                view = self.views[act.get("view", 0) % len(self.views)] if isinstance(act.get("view", 0), int) else self.views[0]
                n = len(B["labels"])
                rows = [l for l in range(n) if rng.random() < 0.7]
                rng.shuffle(rows)
                fr = view.get(pd.Index(rows, dtype="int64"))
        except Exception:
            fr = None
        if fr is not None:
            self.held.append((fr, fr.copy(deep=True)))
            self.held = self.held[-6:]
            if rng.random() < 0.5 and fr.shape[0] > 0 and fr.shape[1] > 0:
                # copy probe: scribble on a second frame obtained the same way; the table must not notice
                try:
                    fr2 = self.sim.get_population(untracked=True) if how == "pop" else fr.copy(deep=False)
                    col = fr2.columns[0]
                    fr2[col] = fr2[col].iloc[::-1].values
                    fr2["scribble"] = 1
                    if how != "pop":
                        fr.iloc[0, 0] = fr.iloc[-1, 0]
                        self.held[-1] = (fr, fr.copy(deep=True))
                except Exception:
                    pass
        A = self.table()
        if A != B:
            self.fail("a read (or writing into a frame it returned) changed the state table")
        self.check_held()
        self.tags.add("a:read")
        self.emit(("read", self.tobs(A)))

    # ---- concrete updates ----
    def concretize(self, act, rng, B, view, pop_data):
        """-> (object passed to view.update, canonical form or None (not pandas), label for the histogram)"""
        import numpy as np
        import pandas as pd
        kind = act["a"]
        n = len(B["labels"])
        tcols = B["cols"]
        vcols = [c for c in view.columns]
        vin = [c for c in vcols if c in tcols]
        new_labels = [int(x) for x in pop_data.index] if pop_data is not None else []
        old_n = n - len(new_labels)
        creating, adding = self.flags
        own = [cname(c) for c, dt, o in self.case["cols"] if self.cur_owner is not None and o == self.cur_owner]
        owndt = {cname(c): dt for c, dt, o in self.case["cols"]}

        def cur_dt(c):
            return tcols[c][0] if c in tcols else owndt.get(c, "float")

        def home_dt(c):
            return self.home.get(c, owndt.get(c, cur_dt(c)))

        def frame(labels, cols, dts=None, vals=None, shape=None):
            """cols: names; dts: name->dtype; vals: name->list"""
            dts = dts or {}
            data = {}
            cols = list(dict.fromkeys(cols))          # a repeated name would silently collapse in the DataFrame constructor
            for c in cols:
                dt = dts.get(c, cur_dt(c))
                if dt not in DT_PANDAS:
                    dt = "float"
                v = (vals or {}).get(c)
                if v is None:
                    v = [draw_value(rng, dt) for _ in labels]
                data[c] = (dt, v)
            shape = shape or (rng.choice(["series", "series", "frame"]) if len(cols) == 1 else "frame")
            if shape in ("series", "unnamed") and len(cols) == 1:
                c = cols[0]
                s = mk_series(data[c][1], labels, data[c][0], None if shape == "unnamed" else c)
                can = {"idx": list(labels), "unnamed": shape == "unnamed", "series": True,
                       "cols": [(None if shape == "unnamed" else c, data[c][0], canon_series(s)[1])]}
                return s, can
            df = pd.DataFrame({c: mk_series(v, labels, dt, c).array for c, (dt, v) in data.items()},
                              index=pd.Index(list(labels), dtype="int64"))
            if not cols:
                df = pd.DataFrame(index=pd.Index(list(labels), dtype="int64"))
            can = {"idx": list(labels), "unnamed": False, "cols": [(c, data[c][0], canon_series(df[c])[1]) for c in cols]}
            return df, can

        def some_rows(pool, allow_empty=True):
            pool = list(pool)
            r = rng.random()
            if not pool or (allow_empty and r < 0.06):
                return []
            k = rng.randint(1, len(pool))
            rows = rng.sample(pool, k)
            if r > 0.85:
                rows += [rng.choice(rows) for _ in range(rng.randint(1, 2))]      # repeated labels
                rng.shuffle(rows)
            elif r > 0.5:
                rows.sort()
            return rows

        def some_cols(pool):
            pool = list(pool)
            if not pool:
                return []
            return rng.sample(pool, rng.randint(1, min(len(pool), 4)))

        def wrong_dt(dt, family=False, col=None):
            if family:          # while simulants are being added: stay inside what the model transcribes (F-L)
                opts = [d for d in ("bool", "int", "float", "obj") if d != dt]
                if dt in ("int", "float"):
                    opts += ["str"]                                  # strings do not go into a numeric array
                if dt == "time":
                    opts += ["timens", "timens"]                     # the unit is cast
                if dt == "timens":
                    opts += ["time", "time"]
                if dt == "obj" and col in tcols and all(x[0] in "NBT" for x in tcols[col][1]):
                    opts += ["time", "timens"]                       # refused while a bool is left, cast otherwise
                return rng.choice(opts)
            return rng.choice([d for d in ("bool", "int", "float", "str", "time", "obj", "timens") if d != dt])

        if kind == "lit":
            # hand-written update (corpus): rows = list of labels | "new" | "all"; cols = [[cid, dtype, values | None]]
            rows = act["rows"]
            rows = list(new_labels) if rows == "new" else (list(range(n)) if rows == "all" else list(rows))
            cols, dts, vals = [], {}, {}
            for c, dt, vs in act["cols"]:
                c = cname(c)
                cols.append(c)
                dts[c] = dt
                if vs is not None:
                    vs = [vs[i % len(vs)] for i in range(len(rows))] if vs else []
                    vals[c] = [lit_value(x, dt) for x in vs]
            u, can = frame(rows, cols, dts=dts, vals=vals, shape=act.get("shape"))
            return u, can, "lit"

        # -------- steady-state style kinds (also usable inside initializers) --------
        if kind in ("ok", "untrack"):
            pool = ["tracked"] if kind == "untrack" and "tracked" in vin else vin
            cols = some_cols(pool) or some_cols(vcols) or ["zz"]
            rows = some_rows(range(n))
            vals = {"tracked": [rng.random() < 0.3 for _ in rows]} if kind == "untrack" else None
            shape = None
            if len(cols) == 1 and len(vcols) == 1 and rng.random() < 0.4:
                shape = "unnamed"
            u, can = frame(rows, cols, vals=vals, shape=shape)
            return u, can, kind
        if kind == "extra_col":
            outside = [c for c in tcols if c not in vcols] or ["zz"]
            cols = some_cols(vin)[:2] + [rng.choice(outside + ["zz"])]
            rng.shuffle(cols)
            u, can = frame(some_rows(range(n)), cols)
            return u, can, kind
        if kind == "unknown_row":
            rows = some_rows(range(n), allow_empty=False) + [rng.choice([n, n + 3, -1, n + 1])]
            rng.shuffle(rows)
            u, can = frame(rows, some_cols(vin) or ["zz"])
            return u, can, kind
        if kind == "new_col":
            ghosts = [c for c in vcols if c not in tcols] or ["ghost"]
            cols = some_cols(vin)[:2] + [rng.choice(ghosts)]
            rng.shuffle(cols)
            rows = new_labels if (adding and rng.random() < 0.5) else some_rows(range(n))
            u, can = frame(rows, cols, dts={g: "float" for g in ghosts})
            return u, can, kind
        if kind == "wrong_dtype":
            cols = some_cols(vin) or ["zz"]
            bad = rng.choice(cols)
            fam = adding
            dts = {bad: wrong_dt(cur_dt(bad), fam, bad)}
            if rng.random() < 0.25 and len(cols) > 1:
                other = rng.choice([c for c in cols if c != bad])
                dts[other] = wrong_dt(cur_dt(other), fam, other)
            rows = some_rows(range(n)) if not adding else (new_labels if rng.random() < 0.7 else some_rows(new_labels))
            if adding:
                cols = [c for c in cols if cur_dt(c) in ("bool", "int", "float", "obj", "str", "time", "timens")]
                cols = cols or ["zz"]
                vals = {c: [draw_value(rng, dts.get(c, cur_dt(c)), nulls=False) for _ in rows] for c in cols}
                u, can = frame(rows, cols, dts=dts, vals=vals)
            else:
                u, can = frame(rows, cols, dts=dts)
            return u, can, kind
        if kind == "unnamed_multi":
            c = rng.choice(vin or vcols or ["zz"])
            u, can = frame(some_rows(range(n)), [c], shape="unnamed")
            return u, can, kind
        if kind == "no_cols":
            u, can = frame(some_rows(range(n)), [])
            return u, can, kind
        if kind == "not_pandas":
            rows = some_rows(range(n))
            u = rng.choice([[1, 2], {"c1": [1]}, np.array([1.0, 2.0]), None, 3, "c1", (1, 2)])
            return u, None, kind
        if kind == "dup_cols":
            cols = some_cols(vin) or ["zz"]
            c = cols[0]
            rows = some_rows(range(n), allow_empty=False)
            u, can = frame(rows, cols, shape="frame")
            u = pd.concat([u, u[[c]]], axis=1)
            can = dict(can, cols=can["cols"] + [can["cols"][0]])
            return u, can, kind

        # -------- kinds meant for initializers --------
        if kind == "fill":
            # what a well-behaved initializer does: its own columns, the new simulants, the columns' own dtypes
            cols = [c for c in own if c in vcols] or own or some_cols(vin) or ["zz"]
            if creating:
                rows = list(range(n))
                dts = {c: owndt.get(c, "float") for c in cols}
            else:
                cols = [c for c in cols if c in tcols] or cols
                rows = list(new_labels)
                dts = {c: home_dt(c) for c in cols}
            sub = act.get("part")
            if sub is not None and len(cols) > 1:          # "split": only part of the columns in this update
                cols = cols[: max(1, len(cols) // 2)] if sub == 0 else cols[max(1, len(cols) // 2):]
            if act.get("perm"):
                rows = rows[:]
                rng.shuffle(rows)
            vals = {c: [draw_value(rng, dts[c], nulls=False) for _ in rows] for c in cols}
            u, can = frame(rows, cols, dts=dts, vals=vals, shape=act.get("shape"))
            return u, can, "fill" + ("_perm" if act.get("perm") else "") + ("_split" if sub is not None else "")
        if kind == "partial":           # only some of the new rows (creating: some rows missing)
            cols = [c for c in own if c in vcols] or some_cols(vin) or ["zz"]
            pool = list(range(n)) if creating else list(new_labels)
            rows = some_rows(pool)
            if len(rows) == len(set(pool)) and pool:
                rows = rows[:-1]
            dts = {c: (owndt.get(c, "float") if creating else home_dt(c)) for c in cols}
            vals = {c: [draw_value(rng, dts[c], nulls=False) for _ in rows] for c in cols}
            u, can = frame(rows, cols, dts=dts, vals=vals)
            return u, can, kind
        if kind == "dup_index":
            cols = [c for c in own if c in vcols] or some_cols(vin) or ["zz"]
            pool = list(range(n)) if creating else list(new_labels)
            rows = pool + ([rng.choice(pool)] if pool else [])
            rng.shuffle(rows)
            dts = {c: (owndt.get(c, "float") if creating else home_dt(c)) for c in cols}
            u, can = frame(rows, cols, dts=dts)
            return u, can, kind
        if kind in ("overlap_equal", "overlap_conflict", "no_new"):
            # initial creation: repeat (or contradict) a column somebody else has already created
            existing = [c for c in vin if c in tcols]
            ov = some_cols(existing)[:2]
            mine = [] if kind == "no_new" else ([c for c in own if c in vcols and c not in tcols] or ["ghost"])
            cols = ov + mine
            rows = list(range(n))
            vals, dts = {}, {}
            for c in ov:
                dts[c] = cur_dt(c)
                vals[c] = [value_of_cell(x, dts[c]) for x in tcols[c][1]]
            for c in mine:
                dts[c] = owndt.get(c, "float")
            if kind == "overlap_conflict" and ov:
                c = rng.choice(ov)
                how = rng.choice(["value", "dtype", "order"]) if n > 0 else "dtype"
                if how == "value":
                    i = rng.randrange(n)
                    old = vals[c][i]
                    for _ in range(20):
                        nv = draw_value(rng, dts[c], nulls=False)
                        if canon_cell(nv) != canon_cell(old):
                            vals[c][i] = nv
                            break
                elif how == "dtype":
                    nd = {"int": "float", "float": "int", "bool": "int"}.get(dts[c])
                    if nd and all(x[0] != "N" and (x[0] != "F" or x[1] % 2 == 0) for x in tcols[c][1]):
                        vals[c] = [int(v) if nd == "int" else float(v) for v in vals[c]]
                        dts[c] = nd
                    elif n > 0:
                        vals[c] = [draw_value(rng, dts[c], nulls=False) for _ in rows]
                elif how == "order" and n > 1:
                    rows = rows[1:] + rows[:1]
                    perm = rows
                    vals = {k: [v[l] for l in perm] for k, v in vals.items()}      # same data, aligned, other row order
            for c in mine:
                vals[c] = [draw_value(rng, dts[c], nulls=False) for _ in rows]
            u, can = frame(rows, cols, dts=dts, vals=vals, shape="frame")
            return u, can, kind
        if kind in ("old_rows", "identity_old", "mixed"):
            # births: touch rows of existing simulants
            cols = some_cols(vin) or ["zz"]
            cols = [c for c in cols if c in tcols] or cols
            old = list(range(old_n)) if pop_data is not None else list(range(n))
            rows = some_rows(old, allow_empty=False)
            if kind == "mixed":
                rows = rows + some_rows(new_labels, allow_empty=False)
                rng.shuffle(rows)
            dts = {c: cur_dt(c) for c in cols}
            vals = {}
            for c in cols:
                if c in tcols and kind == "identity_old" and all(0 <= l < n for l in rows):
                    vals[c] = [value_of_cell(tcols[c][1][l], dts[c]) for l in rows]
                    if dts[c] == "obj":
                        vals[c] = [None if (isinstance(v, float) and v != v) else v for v in vals[c]]
                else:
                    vals[c] = [draw_value(rng, dts[c], nulls=False) for _ in rows]
            u, can = frame(rows, cols, dts=dts, vals=vals)
            return u, can, kind
        if kind in ("refill_same", "refill_conflict"):
            cols = [c for c in own if c in vin] or some_cols(vin) or ["zz"]
            rows = list(new_labels) if pop_data is not None else some_rows(range(n))
            dts = {c: cur_dt(c) for c in cols}
            vals = {}
            for c in cols:
                if c in tcols and all(0 <= l < n for l in rows):
                    vals[c] = [value_of_cell(tcols[c][1][l], dts[c]) for l in rows]
                    if dts[c] == "obj":
                        vals[c] = [None if (isinstance(v, float) and v != v) else v for v in vals[c]]
                else:
                    vals[c] = [draw_value(rng, dts[c], nulls=False) for _ in rows]
            if kind == "refill_conflict" and rows and cols:
                c = rng.choice(cols)
                i = rng.randrange(len(rows))
                for _ in range(20):
                    nv = draw_value(rng, dts[c], nulls=False)
                    if canon_cell(nv) != canon_cell(vals[c][i]):
                        vals[c][i] = nv
                        break
            u, can = frame(rows, cols, dts=dts, vals=vals)
            return u, can, kind
        raise ValueError("unknown action kind " + str(kind))

    def coq_upd(self, can):
        if can is None:
            return "UNotPandas"
        idx = czlist(can["idx"])
        if can.get("series"):
            c, dt, cells = can["cols"][0]
            return "(USeries %s %s %s %s)" % (copt(None if c is None else cz(cid_of(c))), DT_COQ[dt], idx,
                                               clist(coq_cell(x) for x in cells))
        return "(UFrame %s %s)" % (idx, clist("mkucol %s %s %s" % (cz(cid_of(c)), DT_COQ[dt], clist(coq_cell(x) for x in cells))
                                                for c, dt, cells in can["cols"]))

    # ---- the direct oracle for one update: the property statement, on the implementation's tables ----
    def oracle_update(self, B, A, code, U, vcols, label):
        creating, adding = self.flags
        if A["labels"] != B["labels"]:
            return self.fail(f"{label}: an update changed the rows: {B['labels']} -> {A['labels']}")
        if code != 0:
            if A != B:
                return self.fail(f"{label}: rejected update (code {code}) changed the table")
            return
        if U is None:
            return self.fail(f"{label}: a non-pandas update was accepted")
        n = len(B["labels"])
        idx = U["idx"]
        ucols = [(vcols[0] if (c is None and len(vcols) == 1) else c, dt, cells) for c, dt, cells in U["cols"]]
        names = [c for c, _, _ in ucols]
        if None in names:
            return self.fail(f"{label}: an unnamed series was accepted by a view with {len(vcols)} columns")
        if len(set(names)) != len(names):
            if A != B:
                return self.fail(f"{label}: an update with a repeated column was accepted and changed the table")
            return
        if not set(names) <= set(vcols):
            return self.fail(f"{label}: accepted update wrote columns {sorted(set(names) - set(vcols))} the view does not have")
        if any(not (0 <= l < n) for l in idx):
            return self.fail(f"{label}: accepted update addresses rows that do not exist")
        supplied = {c: {} for c in names}
        allsup = {c: {} for c in names}
        for c, dt, cells in ucols:
            for l, v in zip(idx, cells):
                supplied[c][l] = v
                allsup[c].setdefault(l, []).append(v)    # a repeated label: the cell must receive ONE of its values
        udt = {c: dt for c, dt, _ in ucols}
        if creating:
            new = [c for c in names if c not in B["cols"]]
            if not new:
                return self.fail(f"{label}: initial-creation update without any new column was accepted")
            if sorted(set(idx)) != list(range(n)) or len(idx) != n:
                return self.fail(f"{label}: initial-creation update not covering exactly the population was accepted")
            if set(A["cols"]) != set(B["cols"]) | set(new):
                return self.fail(f"{label}: column set after the update is {sorted(A['cols'])}")
            for c, (bd, bc) in B["cols"].items():
                if A["cols"][c] != [bd, bc]:
                    return self.fail(f"{label}: existing column {c} changed during the initial creation")
                if c in names and (udt[c] != bd or [supplied[c][l] for l in range(n)] != bc or idx != list(range(n))):
                    return self.fail(f"{label}: conflicting initial values for column {c} were accepted")
            for c in new:
                ad, ac = A["cols"][c]
                if ad != udt[c] or ac != [supplied[c][l] for l in range(n)]:
                    return self.fail(f"{label}: new column {c} does not hold the supplied values/dtype")
            return
        if set(names) - set(B["cols"]):
            return self.fail(f"{label}: new columns {sorted(set(names) - set(B['cols']))} accepted outside the initial creation")
        if set(A["cols"]) != set(B["cols"]):
            return self.fail(f"{label}: the set of columns changed")
        for c, (bd, bc) in B["cols"].items():
            ad, ac = A["cols"][c]
            if c not in names or not idx:
                if [ad, ac] != [bd, bc]:
                    return self.fail(f"{label}: column {c}, not addressed by the update, changed")
                continue
            ud = udt[c]
            if not adding:
                if ud != bd:
                    return self.fail(f"{label}: values of dtype {ud} accepted into column {c} of dtype {bd}")
                if ad != bd:
                    return self.fail(f"{label}: dtype of column {c} changed {bd} -> {ad}")
                for l in range(n):
                    e = supplied[c].get(l, bc[l])
                    if ac[l] != e and ac[l] not in allsup[c].get(l, []):
                        return self.fail(f"{label}: cell [{l},{c}] is {ac[l]}, expected {e} "
                                         f"({'supplied' if l in supplied[c] else 'not addressed'})")
            else:
                cast = ud != bd
                if cast and ud != self.home.get(c, bd):
                    # the F-L class: the whole column was cast to a foreign dtype; the other columns are still checked
                    self.fail(f"{label}: while adding simulants, dtype {ud} accepted into column {c} whose dtype "
                              f"before the creation was {self.home.get(c, bd)} (now {bd})", fl=True)
                    continue
                if ad != ud:
                    if not cast:
                        return self.fail(f"{label}: dtype of column {c} after the update is {ad}, update had {ud}")
                    self.fail(f"{label}: dtype of column {c} after the update is {ad}, update had {ud}", fl=True)
                    continue
                if self.creation is not None and not cast:
                    # C13: values an existing simulant already has must be repeated exactly or the update refused
                    for l in range(min(self.creation["n_before"], n)):
                        if bc[l] != ("N",) and not veq(ac[l], bc[l]) and not (bd == "obj" and pyeq(ac[l], bc[l])):
                            return self.fail(f"{label}: an initializer's update changed existing simulant {l}, column {c}: "
                                             f"{bc[l]} -> {ac[l]} and was not refused")
                noted = False
                for l in range(n):
                    e = supplied[c].get(l, bc[l])
                    if ac[l] == e or ac[l] in allsup[c].get(l, []) or (cast and veq(ac[l], e)):
                        continue
                    m = (f"{label}: cell [{l},{c}] is {ac[l]}, expected {e} "
                         f"({'supplied' if l in supplied[c] else 'not addressed'})")
                    if not cast:
                        return self.fail(m)
                    if ud == self.home.get(c, bd) == "int" and is_fz_change(e, ac[l]):
                        if not noted:
                            self.fail(m, fs=True)            # F-Z: the nearest double came back; keep scanning
                            noted = True
                        continue
                    self.fail(m, fl=True)                    # F-L: the whole-column cast changed a value
                    break

    # ---- creations ----
    def on_init(self, j, pop_data):
        """called by probe component j's initializer"""
        creation = self.creation
        t = self.table()
        labels = [int(x) for x in pop_data.index]
        entry = {"comp": j, "index": labels, "user": self.enc_user(pop_data.user_data),
                 "time": self.enc_time(pop_data.creation_time), "step": self.enc_step(pop_data.creation_window)}
        if creation is None:
            self.fail("an initializer was called outside a creation the harness knows of")
            return
        # where does the manager's own initializer come?  observed: `tracked` of the new rows is filled in
        tracked_done = "tracked" in t["cols"] and (not labels or all(t["cols"]["tracked"][1][l] != ("N",) for l in labels))
        if not creation["mgr_done"] and (tracked_done or not labels):
            creation["scripts"].append(("mgr", [("mgrupd", labels, "TUnobserved")]))
            creation["log"].append(dict(entry, comp="mgr"))
            creation["mgr_done"] = True
        if creation["first_obs"] is None:
            creation["first_obs"] = t
            self.oracle_reindex(creation, t)
        creation["log"].append(entry)
        script = []
        creation["scripts"].append((j, script))
        self.cur_script, self.cur_owner = script, j
        script.append(("read", self.tobs(t)))
        try:
            for act in creation["plan"].get(str(j), []):
                self.do_action(act, pop_data)
        finally:
            self.cur_script, self.cur_owner = None, None

    def oracle_reindex(self, cr, t):
        B0, n0, cnt = cr["before"], cr["n_before"], cr["count"]
        if t["labels"] != list(range(n0 + cnt)):
            return self.fail(f"creation of {cnt}: rows are {t['labels']}, expected 0..{n0 + cnt - 1}")
        for c, (bd, bc) in B0["cols"].items():
            if c not in t["cols"]:
                return self.fail(f"creation: column {c} disappeared")
            ad, ac = t["cols"][c]
            if ad not in (bd, PROMOTE.get(bd, bd)):
                return self.fail(f"creation: dtype of {c} became {ad} (was {bd})")
            noted = False
            for l in range(n0):
                if not veq(ac[l], bc[l]):
                    m = f"creation itself changed existing simulant {l}, column {c}: {bc[l]} -> {ac[l]}"
                    if not is_fz_change(bc[l], ac[l]):
                        return self.fail(m)
                    if not noted:
                        self.fail(m, fs=True)                # F-Z; every other cell is still checked
                        noted = True
            for l in range(n0, n0 + cnt):
                if c != "tracked" and ac[l] != ("N",):
                    return self.fail(f"creation: new simulant {l} starts with a value in column {c}: {ac[l]}")

    def enc_user(self, d):
        if not d:
            return 0
        if d == {"sim_state": "setup"}:
            return 1
        if isinstance(d, dict) and set(d) == {"tag"}:
            return 10 + int(d["tag"])
        return -1

    def enc_time(self, t):
        import pandas as pd
        return int((t - pd.Timestamp(*START)).value // (3600 * 10 ** 9))        # hours since the start

    def enc_step(self, s):
        return int(s.value // (3600 * 10 ** 9))

    def create(self, count, user, plan, initial=False):
        """run one creation through the real creator (or, for the initial one, through the engine)"""
        import pandas as pd
        B0 = self.table()                 # (no population yet: the empty table)
        first = self.first
        outer = self.creation
        cr = {"before": B0, "n_before": len(B0["labels"]), "count": count, "plan": plan, "scripts": [], "log": [],
              "mgr_done": False, "first_obs": None, "flat": False}
        self.creation = cr
        stuck_creating = self.flags[0]
        self.flags = (first or stuck_creating, True)
        self.home = {c: dt for c, (dt, _) in B0["cols"].items()}
        now_t = self.enc_time(self.probe0.clock()) if not initial else None
        now_s = 24 * int(self.case.get("step_days", 1)) if initial else self.enc_step(self.probe0.step_size())
        code, labels, exc = 0, [], None
        try:
            if initial:
                self.sim.initialize_simulants()     # the engine's own call: creator(population_size, {"sim_state": "setup"})
                ret = None
            else:
                arg = None if user is None else ({} if user == 0 else {"tag": user - 10})
                ret = self.probe0.creator(count, arg) if user is not None else self.probe0.creator(count)
        except Exception as e:
            exc, code, ret = e, 3, None
        self.creation = outer
        self.first = False
        A = self.table()
        no_probe_ran = not [e for e in cr["log"] if e["comp"] != "mgr"]
        if not cr["mgr_done"]:
            # never seen done at the entry of a probe: it ran after all probes (or nobody ran after it / it raised)
            new = list(range(cr["n_before"], cr["n_before"] + count))
            rec = ("mgr", [("mgrupd", new, "TUnobserved")])
            if code != 0 and no_probe_ran:
                # the creation was abandoned before any probe was called: the manager's own update raised.  Refused by
                # the life cycle (requested from a post_setup / simulation_end listener or after the end): the model
                # cannot know - recorded as ARefused.  Any other exception: the model must predict the rejection itself.
                from vivarium.framework.lifecycle import LifeCycleError
                if isinstance(exc, LifeCycleError):
                    rec = ("mgr", [("refused", self.tobs(A))])
                    self.tags.add("creation_refused@" + (getattr(self, "cur_event", None) or "outside"))
                else:
                    rec = ("mgr", [("mgrfail", new, self.classify(exc), self.tobs(A))])
                    self.tags.add("creation_mgr_raised")
                if cr["first_obs"] is None:
                    self.oracle_reindex(cr, A)          # the rows are there; no existing simulant may have changed
            ent = {"comp": "mgr", "index": list(range(cr["n_before"], cr["n_before"] + count)),
                   "user": 1 if initial else (0 if not user else user),
                   "time": now_t if now_t is not None else -now_s, "step": now_s}
            if code == 0 and cr["scripts"]:
                cr["scripts"].append(rec)
                cr["log"].append(ent)
            else:
                cr["scripts"].insert(0, rec)
                cr["log"].insert(0, ent)
        if code == 0:
            self.flags = (False, False)
            if initial:
                labels = list(range(cr["n_before"], cr["n_before"] + count))
            else:
                labels = [int(x) for x in ret]
                if not isinstance(ret, pd.Index):
                    self.fail("the creator did not return an Index")
            n0 = cr["n_before"]
            if labels != list(range(n0, n0 + count)):
                self.fail(f"creation of {count} with {n0} simulants present returned labels {labels}")
            if A["labels"] != list(range(n0 + count)):
                self.fail(f"after creating {count} simulants the rows are {A['labels']}")
            called = [e["comp"] for e in cr["log"] if e["comp"] != "mgr"]
            if sorted(called) != list(range(self.case["comps"])):
                self.fail(f"initializers called: {called}; expected each of {self.case['comps']} probes exactly once")
        else:
            self.tags.add("creation_raised")
        exp_user = 1 if initial else (0 if not user else user)
        exp_time = -now_s if initial else now_t
        for e in cr["log"]:
            if e["comp"] == "mgr":
                continue
            n0 = cr["n_before"]
            if e["index"] != list(range(n0, n0 + count)):
                self.fail(f"initializer of probe {e['comp']} got index {e['index']}, new labels are {n0}..{n0 + count - 1}")
            if e["user"] != exp_user:
                self.fail(f"initializer got user data code {e['user']}, creator was given {exp_user}")
            if e["time"] != exp_time or e["step"] != now_s:
                self.fail(f"initializer got creation_time {e['time']}h / window {e['step']}h; clock says {exp_time}h / {now_s}h")
        rf = self.real_flags()
        if rf is not None and rf != self.flags:
            self.fail(f"after the creation the manager flags (creating, adding) are {rf}, expected {self.flags}")
        self.check_held()
        self.tags.add(f"create{min(count, 4)}" + ("_initial" if initial else ""))
        if count == 0 and not initial:
            self.tags.add("zero_birth@" + (getattr(self, "cur_event", None) or "outside"))
        self.trace.append(("create", {"count": count, "user": exp_user, "time": exp_time, "step": now_s,
                                      "scripts": cr["scripts"], "code": code, "labels": labels,
                                      "log": cr["log"], "after": self.tobs(A)}))

    # ---- top-level ops ----
    def run_op(self, op):
        k = op["k"]
        if self.finalized and not (k == "create" or (k == "act" and op.get("a") == "read")):
            return                                   # after simulation_end the life cycle refuses updates and steps
        if k == "step":
            self.stepped = True
        if k == "act":
            self.cur_owner = None
            try:
                self.do_action(op)
            except Exception as e:          # a `prop` action at top level: nothing to propagate to
                pass
        elif k == "create":
            self.create(int(op["count"]), op.get("user"), op.get("scripts", {}))
        elif k == "step":
            self.inside = {ev: list(ops) for ev, ops in op.get("inside", {}).items()}
            self.sim.step()
            self.inside = {}
            self.tags.add("step")
        elif k == "finalize":
            if self.finalized or not self.stepped:
                return                               # simulation_end can only follow a completed step, once
            self.inside = {ev: list(ops) for ev, ops in op.get("inside", {}).items()}
            self.sim.finalize()
            self.inside = {}
            self.finalized = True
            self.tags.add("finalize")

    def on_event(self, ev):
        for op in self.inside.get(ev, []):
            if op["k"] != "step":
                self.tags.add("inside:" + ev)
                self.cur_event = ev
                try:
                    self.run_op(op)
                finally:
                    self.cur_event = None

    # ---- rendering ----
    def coq_act(self, rec):
        if rec[0] == "read":
            return "(ARead, %s)" % rec[1]
        if rec[0] == "refused":
            return "(ARefused, %s)" % rec[1]
        if rec[0] == "mgrfail":
            return "(AUpdate (VBase [0%%Z]) [0%%Z] (tracked_upd %s) true %s, %s)" % (czlist(rec[1]), cz(rec[2]), rec[3])
        if rec[0] == "mgrupd":
            return "(AUnobserved (VBase [0%%Z]) [0%%Z] (tracked_upd %s), %s)" % (czlist(rec[1]), rec[2])
        _, vcoq, ordc, u, prop, code, tobs = rec
        return "(AUpdate %s %s %s %s %s, %s)" % (vcoq, czlist(ordc), u, cbool(prop), cz(code), tobs)

    def coq_sd(self, e):
        return "(mksimdata %s %s %s %s)" % (czlist(e["index"]), cz(e["user"]), cz(e["time"]), cz(e["step"]))

    def coq_case(self):
        out = []
        for kind, x in self.trace:
            if kind == "act":
                out.append("XAct " + self.coq_act(x))
            else:
                scripts = clist(clist(self.coq_act(r) for r in sc) for _, sc in x["scripts"])
                out.append("XCreate %s %s %s %s %s %s %s %s %s" % (
                    cnat(x["count"]), cz(x["user"]), cz(x["time"]), cz(x["step"]), scripts, cz(x["code"]),
                    czlist(x["labels"]), clist(self.coq_sd(e) for e in x["log"]), x["after"]))
        return clist("\n    " + o for o in out)


def make_components(run):
    from vivarium import Component
    case = run.case

    class Probe(Component):
        def __init__(self, j):
            super().__init__()
            self.j = j

        @property
        def columns_created(self):
            return [cname(c) for c, dt, o in case["cols"] if o == self.j]

        @property
        def initialization_requirements(self):
            req = []
            for a, b in case.get("reqs", []):
                if a == self.j:
                    req += [cname(c) for c, dt, o in case["cols"] if o == b]
            return {"requires_columns": req, "requires_values": [], "requires_streams": []}

        def setup(self, builder):
            self.home = builder.population.get_view(self.columns_created + ["tracked"])
            if self.j == 0:
                self.creator = builder.population.get_simulant_creator()
                self.clock = builder.time.clock()
                self.step_size = builder.time.step_size()
                self.extra = [builder.population.get_view([cname(c) for c in cols], QUERIES[q % len(QUERIES)])
                              for cols, q in case["views"]]

        def on_initialize_simulants(self, pop_data):
            run.on_init(self.j, pop_data)

        def on_time_step_prepare(self, event):
            if self.j == 0:
                run.on_event("time_step__prepare")

        def on_time_step(self, event):
            if self.j == 0:
                run.on_event("time_step")

        def on_time_step_cleanup(self, event):
            if self.j == 0:
                run.on_event("time_step__cleanup")

        def on_collect_metrics(self, event):
            if self.j == 0:
                run.on_event("collect_metrics")

        def on_post_setup(self, event):
            if self.j == 0:
                run.on_event("post_setup")

        def on_simulation_end(self, event):
            if self.j == 0:
                run.on_event("simulation_end")

    return [Probe(j) for j in range(case["comps"])]


def execute(case):
    """-> Run (with oracle verdict, trace, tags)"""
    from vivarium.interface.interactive import InteractiveContext
    boot.reset_contexts()
    run = Run(case)
    probes = make_components(run)
    cfg = {"population": {"population_size": int(case["n0"])},
           "time": {"start": {"year": START[0], "month": START[1], "day": START[2]},
                    "end": {"year": START[0] + 1, "month": START[1], "day": START[2]}, "step_size": case.get("step_days", 1)}}
    sim = InteractiveContext(components=probes, configuration=cfg, setup=False, logging_verbosity=0)
    boot.quiet_logging()
    run.sim, run.probe0, run.first, run.cur_owner = sim, probes[0], True, None
    own_cols = lambda j: [c for c, dt, o in case["cols"] if o == j] + [0]
    run.view_cols = [own_cols(j) for j in range(case["comps"])] + [list(cols) for cols, q in case["views"]]
    # views exist only after setup; the initial creation happens inside sim.setup() -> resolve lazily
    class LazyViews:
        def __len__(s):
            return len(run.view_cols)

        def __getitem__(s, k):
            return probes[k].home if k < case["comps"] else probes[0].extra[k - case["comps"]]
    run.views = LazyViews()
    from vivarium.framework.engine import SimulationContext
    run.inside = {"post_setup": list(case.get("post_setup", []))}
    SimulationContext.setup(sim)          # the engine's setup (post_setup listeners run here), without the population
    run.inside = {}
    run.create(int(case["n0"]), None, case.get("init", {}), initial=True)
    if run.trace and run.trace[-1][1].get("code", 0) == 0:
        for op in case["ops"]:
            run.run_op(op)
    else:
        run.tags.add("initial_creation_raised")      # nothing sensible can follow: the engine never finished its setup
    return run


# ----------------------------------------------------------------------------------------------------------------
# generator of programs
# ----------------------------------------------------------------------------------------------------------------
STEADY_FAULTS = ["extra_col", "unknown_row", "new_col", "wrong_dtype", "wrong_dtype", "wrong_dtype", "unnamed_multi",
                 "no_cols", "not_pandas", "dup_cols"]


def gen_program(rng, emphasis):
    """emphasis: "update" (C11: long steady-state histories) | "create" (C13: many creations, from listeners too)"""
    comps = rng.choice([1, 1, 2, 2, 3])
    ncols = rng.randint(1, 6)
    cids = rng.sample(range(1, 9), ncols)
    cols = [[c, rng.choice(["bool", "int", "float", "str", "time"]), rng.randrange(comps)] for c in cids]
    pi = list(range(comps))
    rng.shuffle(pi)
    reqs = [[pi[a], pi[b]] for a in range(comps) for b in range(a) if rng.random() < 0.4]
    views = [[sorted(cids) + [0, 9], 0]]
    for _ in range(rng.randint(1, 4)):
        r = rng.random()
        if r < 0.2:
            v = []
        else:
            v = rng.sample(cids, rng.randint(1, len(cids)))
            if rng.random() < 0.35:
                v.append(0)
            if rng.random() < 0.15:
                v.append(9)
        views.append([v, rng.randrange(len(QUERIES)) if rng.random() < 0.4 else 0])
    nviews = comps + len(views)
    allc = sorted(cids) + [0]

    def pick_view(wide=False):
        if wide:
            return comps            # the first extra view: every column + tracked + ghost
        k = rng.randrange(nviews)
        if rng.random() < 0.2:
            base = (list(views[k - comps][0]) if k >= comps else [c for c, d, o in cols if o == k] + [0]) or allc
            r = rng.random()
            sub = rng.sample(base, rng.randint(1, len(base)))
            if r < 0.12:
                sub = []
            elif r < 0.3:
                sub.append(rng.choice([c for c in allc + [9, 10] if c not in base] or [10]))
            return [k, sub]
        return k

    def action(kind, view=None, **kw):
        a = {"a": kind, "view": pick_view() if view is None else view, "seed": rng.getrandbits(32)}
        a.update(kw)
        return a

    def steady_action():
        r = rng.random()
        if r < 0.45:
            return action("ok", view=pick_view(wide=rng.random() < 0.3))
        if r < 0.53:
            return action("untrack", view=pick_view(wide=rng.random() < 0.6))
        if r < 0.65:
            return action("read", view=rng.randrange(nviews))
        return action(rng.choice(STEADY_FAULTS), view=pick_view(wide=rng.random() < 0.4))

    def init_script(j):
        r = rng.random()
        home = j
        if r < 0.6:
            return [action("fill", view=home, shape=rng.choice([None, None, "frame", "series", "unnamed"]))]
        k = rng.choice(["split", "perm", "partial", "dup", "ov_eq", "ov_conf", "no_new", "fullview", "faults", "none", "twice"])
        if k == "split":
            return [action("fill", view=home, part=0), action("fill", view=home, part=1)]
        if k == "perm":
            return [action("fill", view=home, perm=True)]
        if k == "partial":
            return [action("partial", view=home), action("fill", view=home)]
        if k == "dup":
            return [action("dup_index", view=home), action("fill", view=home)]
        if k == "ov_eq":
            return [action("overlap_equal", view=comps), action("fill", view=home)]
        if k == "ov_conf":
            return [action("overlap_conflict", view=comps), action("fill", view=home)]
        if k == "no_new":
            return [action("fill", view=home), action("no_new", view=comps), action("read", view=home)]
        if k == "fullview":
            return [action("fill", view=pick_view()), action("fill", view=home)]
        if k == "faults":
            return [action(rng.choice(["extra_col", "unknown_row", "unnamed_multi", "not_pandas", "no_cols", "dup_cols"]),
                           view=rng.choice([home, comps])), action("fill", view=home)]
        if k == "twice":
            return [action("fill", view=home), action("fill", view=home)]
        return []

    def birth_script(j):
        r = rng.random()
        home = j
        if r < 0.55:
            return [action("fill", view=home)]
        k = rng.choice(["partial", "same", "conflict", "wrong", "wrong", "old", "ident", "mixed", "newcol", "none", "prop",
                        "read", "split", "generic", "partial_then_fill"])
        if k == "partial":
            return [action("partial", view=home)]
        if k == "partial_then_fill":
            return [action("partial", view=home), action("fill", view=home)]
        if k == "same":
            return [action("fill", view=home), action("refill_same", view=home)]
        if k == "conflict":
            return [action("fill", view=home), action("refill_conflict", view=home)]
        if k == "wrong":
            return [action("wrong_dtype", view=rng.choice([home, comps]))] + ([action("fill", view=home)] if rng.random() < 0.5 else [])
        if k == "old":
            return [action("old_rows", view=rng.choice([home, comps])), action("fill", view=home)]
        if k == "ident":
            return [action("identity_old", view=rng.choice([home, comps])), action("fill", view=home)]
        if k == "mixed":
            return [action("mixed", view=rng.choice([home, comps])), action("fill", view=home)]
        if k == "newcol":
            return [action("new_col", view=comps), action("fill", view=home)]
        if k == "prop":
            return [action(rng.choice(["old_rows", "new_col", "unknown_row", "refill_conflict", "fill"]), view=rng.choice([home, comps]),
                           prop=True), action("fill", view=home)]
        if k == "read":
            return [action("read", view=home), action("fill", view=home), action("read", view=home)]
        if k == "split":
            return [action("fill", view=home, part=0), action("fill", view=home, part=1)]
        if k == "generic":
            return [steady_action(), action("fill", view=home)]
        return []

    def creation(zero=None):
        count = rng.choice([0, 0, 1, 1, 2, 2, 3, 4, 5]) if zero is None else (0 if rng.random() < zero else rng.randint(1, 3))
        user = rng.choice([None, 0, 10, 11, 12, 17])
        return {"k": "create", "count": count, "user": user, "scripts": {str(j): birth_script(j) for j in range(comps)}}

    def top_op(depth=0):
        r = rng.random()
        pc = 0.12 if emphasis == "update" else 0.45
        if r < pc:
            return creation()
        if emphasis == "create" and depth == 0 and r > 0.9:
            # a birth of (mostly) ZERO simulants from every listener of the step
            return {"k": "step", "inside": {ev: [creation(zero=0.7)] for ev in EVENTS}}
        if r < pc + (0.06 if emphasis == "update" else 0.15) and depth == 0:
            inside = {}
            for ev in EVENTS:
                if rng.random() < 0.4:
                    inside[ev] = [top_op(1) for _ in range(rng.randint(1, 2))]
            return {"k": "step", "inside": inside}
        a = steady_action()
        a["k"] = "act"
        return a

    n0 = rng.choice([0, 1, 2, 3, 3, 4, 5, 6, 8, 12])
    nops = rng.randint(1, 15) if emphasis == "update" else rng.randint(1, 9)
    ops = [top_op() for _ in range(nops)]
    post = []
    # creations where the life cycle refuses the manager's own update: from a post_setup listener (before the initial
    # population: the engine's own creation then meets a half-made table), from a simulation_end listener, and from
    # outside once the simulation has ended.  Refused, but NOT inert: rows added, flags left set.
    if rng.random() < (0.10 if emphasis == "create" else 0.03):
        post = [creation(zero=0.5)]
    if rng.random() < (0.20 if emphasis == "create" else 0.06):
        if not any(op["k"] == "step" for op in ops):
            ops.append({"k": "step", "inside": {}})
        ops.append({"k": "finalize", "inside": {"simulation_end": [creation() for _ in range(rng.randint(1, 2))]}})
        ops += [creation() for _ in range(rng.randint(0, 2))]
        if rng.random() < 0.5:
            ops.append(dict(action("read", view=0), k="act"))
    case = {"n0": n0, "comps": comps, "cols": cols, "reqs": reqs, "views": views, "step_days": rng.choice([1, 1, 2, 7]),
            "init": {str(j): init_script(j) for j in range(comps)}, "ops": ops}
    if post:
        case["post_setup"] = post
    return case


def run_program(case):
    """-> Result: direct oracle verdict + Coq literal"""
    run = execute(case)
    nontrivial = run.n_updates > 0 or any(k == "create" for k, _ in run.trace[1:])
    coq = run.coq_case() if run.modellable else None
    msg = "; ".join(run.msgs[:3])
    obs = {"oracle": run.msgs[:5], "ops": len(run.trace), "updates": run.n_updates, "fl_class": bool(run.fl)}
    ok = run.ok and not run.fl and not run.fs
    tags = set(run.tags) | ({"finding:F-L"} if run.fl else set()) | ({"finding:F-Z"} if run.fs else set())
    res = Result(ok=ok, msg=msg, coq=coq, key=_key(case) if nontrivial else None, obs=obs, tags=tuple(sorted(tags)))
    res.fl_only = bool(run.fl) and run.ok and not run.fs     # the only oracle failures are of the F-L class
    res.fs_only = bool(run.fs) and run.ok                    # ... of the big-int class (possibly followed by F-L casts)
    return res


def _key(case):
    import json
    return json.dumps(case, sort_keys=True)


def finding_of(case, res):
    """F-L: the failing operation is an update issued while simulants are being added whose dtype differs from the
    column's dtype at that moment (accepted and cast over the whole column) - nothing else is attributed to it."""
    if getattr(res, "fs_only", False):
        return "F-Z"            # births round int64 values beyond 2^53 (open known finding; same root cause as F-L)
    return "F-L" if getattr(res, "fl_only", False) else None


# ----------------------------------------------------------------------------------------------------------------
# hand-picked programs (always run first)
# ----------------------------------------------------------------------------------------------------------------
def _a(kind, view, **kw):
    return dict({"a": kind, "view": view, "seed": 7}, **kw)


def _top(a):
    return dict(a, k="act")


def _lit(view, rows, cols, **kw):
    return _a("lit", view, rows=rows, cols=cols, **kw)


def _base(ops, n0=3, init=None, cols=None, comps=1, reqs=None, views=None):
    # one probe owning c1 float, c2 int, c3 str, c4 bool.  views: 0 home(1,2,3,4,tracked) 1 wide 2 [1,2] 3 [3] 4 full 5 [1]
    cols = cols or [[1, "float", 0], [2, "int", 0], [3, "str", 0], [4, "bool", 0]]
    views = views or [[[c for c, _, _ in cols] + [0, 9], 0], [[1, 2], 0], [[3], 0], [[], 0], [[1], 0]]
    return {"n0": n0, "comps": comps, "cols": cols, "reqs": reqs or [], "views": views, "step_days": 1,
            "init": init or {str(j): [_a("fill", j)] for j in range(comps)}, "ops": ops}


def corpus_updates():
    c = comps = 1
    v_home, v_wide, v_12, v_3, v_full, v_1 = 0, 1, 2, 3, 4, 5
    out = []
    # was finding F-D: float OK into c1, float into int c2 rejected - in both column orders, nothing may be written
    out.append(_base([_top(_lit(v_12, [1, 2], [[1, "float", [9.5]], [2, "float", [1.5]]])),
                      _top(_lit(v_12, [1, 2], [[2, "float", [1.5]], [1, "float", [9.5]]])),
                      _top(_lit(v_wide, [0, 2], [[4, "bool", [True]], [3, "str", ["s1"]], [2, "bool", [True]], [1, "float", [0.5]]])),
                      _top(_lit(v_12, [1, 2], [[1, "float", [9.5]], [2, "int", [5]]]))]))
    # repeated labels: numpy-backed columns keep the last value, the Arrow-backed str column the first
    out.append(_base([_top(_lit(v_12, [2, 0, 2], [[2, "int", [7, 8, 9]]])), _top(_lit(v_3, [2, 0, 2, 2], [[3, "str", ["s1", "s2", "s3", "s4"]]])),
                      _top(_lit(v_12, [1, 1, 1], [[1, "float", [0.5, None, 2.5]]]))]))
    # unnamed series: one-column view accepts, two-column view and full view refuse; non-pandas; no columns
    out.append(_base([_top(_lit(v_3, [0], [[3, "str", ["s5"]]], shape="unnamed")), _top(_lit(v_12, [0], [[1, "float", [1.5]]], shape="unnamed")),
                      _top(_lit(v_full, [0], [[1, "float", [1.5]]], shape="unnamed")), _top(_a("not_pandas", v_home)),
                      _top(_a("no_cols", v_home)), _top(_lit(v_full, [2, 1], [[1, "float", [4.5]], [0, "bool", [False]]]))]))
    # untrack simulant 1, then write it through a view whose reads filter it out (update ignores the filter)
    out.append(_base([_top(_lit(v_home, [1], [[0, "bool", [False]]])), _top(_lit(v_1, [1, 0], [[1, "float", [6.5, 7.5]]])),
                      _top(_a("read", v_1)), _top(_lit(v_1, [1], [[1, "float", [8.5]]]))]))
    # structural faults one by one: extra column, unknown row, new column, empty update of the wrong dtype (a no-op)
    out.append(_base([_top(_lit(v_1, [0], [[2, "int", [1]]])), _top(_lit(v_12, [0, 3], [[1, "float", [1.5]]])),
                      _top(_lit(v_12, [-1], [[1, "float", [1.5]]])), _top(_lit(v_wide, [0], [[9, "float", [1.5]]])),
                      _top(_lit(v_12, [], [[2, "float", []]])), _top(_lit(v_12, [0], [[1, "timens", [{"t": 3}]]])),
                      _top(_lit(v_wide, [0], [[1, "obj", [True]]]))]))
    # sub-views: legal, of a full view, refused (not a subset / empty)
    out.append(_base([_top(_lit([v_12, [2]], [0], [[2, "int", [4]]])), _top(_lit([v_full, [1, 3]], [0], [[3, "str", ["s2"]]])),
                      _top(_lit([v_12, [3]], [0], [[3, "str", ["s2"]]])), _top(_lit([v_12, []], [0], [[1, "float", [0.5]]])),
                      _top(_lit([v_12, [2]], [0], [[1, "float", [0.5]]]))]))
    return out


def corpus_creations():
    v_home, v_wide, v_12, v_3, v_full, v_1 = 0, 1, 2, 3, 4, 5
    out = []
    # finding F-L (open): bools for the new rows of an int column during a birth; then a well-behaved birth
    out.append(_base([{"k": "create", "count": 2, "user": 10, "scripts": {"0": [_lit(v_home, "new", [[2, "bool", [True, False]]]), _a("fill", 0)]}},
                      {"k": "create", "count": 1, "user": None, "scripts": {"0": [_a("fill", 0)]}}]))
    # births: only part of the new rows (int: refused, NaN cannot become int64; bool: F-L class, NaN becomes True)
    out.append(_base([{"k": "create", "count": 2, "user": 0, "scripts": {"0": [_lit(v_home, [3], [[2, "int", [5]]]), _a("fill", 0)]}},
                      {"k": "create", "count": 2, "user": 0, "scripts": {"0": [_lit(v_home, [5], [[4, "bool", [False]]])]}}]))
    # births: old rows (refused unless identical), identical rewrite, new column, second fill equal / conflicting
    out.append(_base([{"k": "create", "count": 1, "user": 11, "scripts": {"0": [
        _lit(v_home, [0], [[1, "float", [99.5]]]), _a("identity_old", 0), _lit(v_wide, "new", [[9, "float", [1.5]]]),
        _a("fill", 0), _a("refill_same", 0), _a("refill_conflict", 0)]}}]))
    # a failing update that the initializer does not catch: the creation is abandoned, rows stay, flags stay set
    out.append(_base([{"k": "create", "count": 1, "user": 12, "scripts": {"0": [_lit(v_home, [0], [[2, "int", [99]]], prop=True), _a("fill", 0)]}},
                      _top(_lit(v_12, [3], [[2, "int", [5]]])), _top(_lit(v_12, [0], [[2, "int", [6]]])),
                      {"k": "create", "count": 1, "user": None, "scripts": {"0": [_a("fill", 0)]}}]))
    # an abandoned creation leaves the bool column as object; object arrays compare with Python ==, so 1 "repeats" True
    # (minimised from a generated disagreement, seed 3)
    out.append(_base([{"k": "create", "count": 1, "user": 12, "scripts": {"0": [_lit(v_home, [0], [[2, "int", [99]]], prop=True)]}},
                      _top(_lit(v_home, [3], [[4, "obj", [True]]])), _top(_lit(v_home, [3], [[4, "obj", [1]]])),
                      _top(_lit(v_home, [3], [[4, "obj", [0]]])), _top(_lit(v_home, [3, 0], [[4, "obj", [1.0, True]]]))]))
    # empty initial population, births of 0, several creations inside one step from different listeners
    out.append(_base([{"k": "create", "count": 0, "user": None, "scripts": {"0": [_a("fill", 0)]}},
                      {"k": "create", "count": 2, "user": 17, "scripts": {"0": [_a("fill", 0)]}},
                      {"k": "step", "inside": {"time_step__prepare": [{"k": "create", "count": 1, "user": 10, "scripts": {"0": [_a("fill", 0)]}}],
                                               "time_step": [{"k": "create", "count": 0, "user": 0, "scripts": {"0": [_a("fill", 0)]}},
                                                             {"k": "create", "count": 3, "user": 11, "scripts": {"0": [_a("fill", 0)]}}],
                                               "collect_metrics": [_top(_a("untrack", 0)), {"k": "create", "count": 1, "user": 12, "scripts": {"0": [_a("fill", 0)]}}]}},
                      _top(_a("ok", 0))], n0=0))
    # creations the life cycle refuses: from a simulation_end listener and afterwards from outside (rows added, values
    # kept, columns left promoted, flags left set); from a post_setup listener (count 0: harmless; count 2: the engine's
    # own initial creation then fails on the half-made table)
    birth = lambda n, u=None: {"k": "create", "count": n, "user": u, "scripts": {"0": [_a("fill", 0)]}}
    out.append(_base([{"k": "step", "inside": {}}, {"k": "finalize", "inside": {"simulation_end": [birth(2, 10), birth(0)]}}, birth(1, 11),
                      _top(_a("read", 0))]))
    c = _base([birth(1), _top(_a("ok", 0))])
    c["post_setup"] = [birth(0, 10)]
    out.append(c)
    c = _base([birth(1)])
    c["post_setup"] = [birth(2, 12)]
    out.append(c)
    # two components; the second repeats the first's columns (equal: accepted with its own; conflicting: refused)
    cols2 = [[1, "float", 0], [2, "int", 0], [3, "str", 1], [4, "bool", 1]]
    out.append(_base([{"k": "create", "count": 2, "user": 10, "scripts": {"0": [_a("fill", 0)], "1": [_a("fill", 1)]}}], cols=cols2, comps=2,
                     reqs=[[1, 0]], views=[[[1, 2, 3, 4, 0, 9], 0], [[1, 2], 0]],
                     init={"0": [_a("fill", 0)], "1": [_a("overlap_conflict", 2), _a("overlap_equal", 2), _a("no_new", 2), _a("fill", 1)]}))
    return out


def corpus_bigint():
    """finding F-Z (open): an existing int64 beyond 2^53 is rounded by a birth; so is a newborn's supplied value"""
    cols = [[2, "int", 0]]
    return [_base([{"k": "create", "count": 1, "user": None, "scripts": {"0": [_a("fill", 0)]}}], n0=1, cols=cols,
                  views=[[[2, 0], 0]], init={"0": [_lit(0, "all", [[2, "int", [2 ** 53 + 1]]])]})]


def second_hash_seed(run, prop):
    """thorough tier: the quick check once more in a fresh interpreter under another PYTHONHASHSEED (other set
    iteration orders, hence other column orders / loop orders in the implementation)"""
    import os
    import subprocess
    import sys
    import tempfile
    if run.tier != "thorough" or os.environ.get("VERIF_POP_NESTED"):
        return
    from core import VERIF
    with tempfile.TemporaryDirectory(prefix="verif_pop_") as tmp:
        sub = f"{prop}_hs7_{os.getpid()}"            # own directory: concurrent runs must not share generated files
        env = dict(os.environ, VERIF_HASHSEED="7", PYTHONHASHSEED="7", VERIF_POP_NESTED="1", VERIF_EVIDENCE_DIR=tmp,
                   VERIF_GEN_SUBDIR=sub, VERIF_SEED=str(run.seed + 1), VERIF_SKIP_MAKE="1")
        p = subprocess.run([sys.executable, os.path.join(VERIF, "check"), prop, "--tier", "quick"], capture_output=True,
                           text=True, env=env, cwd=VERIF)
        import shutil
        shutil.rmtree(os.path.join(VERIF, "coq", "generated", sub), ignore_errors=True)
    run.obligation(f"{prop} quick check under PYTHONHASHSEED=7 (fresh interpreter) exits 0", p.returncode == 0,
                   (p.stdout + p.stderr)[-1500:])


# ----------------------------------------------------------------------------------------------------------------
# stream `edge` (C13, python oracle only): creations requested where the model has no counterpart - from a
# post_setup / simulation_end listener (the life cycle refuses the manager's own update there: only the outcome CLASS is
# recorded) and from inside an initializer (a nested creation).  Checked: labels handed out are the consecutive fresh
# ones, rows are never lost or relabelled, no cell of an existing simulant changes its value.
# ----------------------------------------------------------------------------------------------------------------
def gen_edge(rng):
    return {"where": rng.choice(["post_setup", "simulation_end", "simulation_end", "nested_birth", "nested_birth", "nested_initial"]),
            "n0": rng.choice([0, 1, 2, 3, 5]), "count": rng.choice([0, 0, 1, 2, 3]), "inner": rng.choice([0, 1, 2]),
            "dtype": rng.choice(["bool", "int", "float", "str", "time"]), "steps": rng.randint(0, 2), "seed": rng.getrandbits(32)}


def run_edge(case):
    import pandas as pd
    from vivarium import Component
    from vivarium.interface.interactive import InteractiveContext
    rng = random.Random(case["seed"])
    where, dt = case["where"], case["dtype"]
    msgs, tags, log = [], set(), []
    state = {"armed": False, "depth": 0}

    class Edge(Component):
        @property
        def columns_created(self):
            return ["c1"]

        def setup(self, builder):
            self.creator = builder.population.get_simulant_creator()

        def attempt(self, tag, count):
            try:
                r = self.creator(count, {"tag": 1})
                log.append((tag, "ok", [int(x) for x in r]))
            except Exception as e:
                from vivarium.framework.lifecycle import LifeCycleError
                log.append((tag, "exc", "LifeCycleError" if isinstance(e, LifeCycleError) else type(e).__name__))

        def on_initialize_simulants(self, pop_data):
            log.append(("init", [int(x) for x in pop_data.index]))
            nest = (where == "nested_initial" and state["depth"] == 0 and not state["armed"]) or \
                   (where == "nested_birth" and state["armed"] and state["depth"] == 0)
            if nest:
                state["depth"] += 1
                self.attempt("inner", case["inner"])
                state["depth"] -= 1
            try:
                self.population_view.update(mk_series([draw_value(rng, dt, nulls=False) for _ in pop_data.index],
                                                      [int(x) for x in pop_data.index], dt, "c1"))
            except Exception:
                pass

        def on_post_setup(self, event):
            if where == "post_setup":
                self.attempt("post_setup", case["count"])

        def on_simulation_end(self, event):
            if where == "simulation_end":
                self.attempt("simulation_end", case["count"])

    boot.reset_contexts()
    probe = Edge()
    sim = InteractiveContext(components=[probe], configuration={"population": {"population_size": int(case["n0"])}},
                             setup=False, logging_verbosity=0)
    boot.quiet_logging()

    def fail(m):
        msgs.append(m)

    def table():
        return snap(sim.get_population(untracked=True))

    def old_rows_kept(B, A, what):
        n = len(B["labels"])
        if A["labels"][:n] != B["labels"] or A["labels"] != list(range(len(A["labels"]))):
            return fail(f"{what}: rows were {B['labels']}, now {A['labels']}")
        for c, (bd, bc) in B["cols"].items():
            if c not in A["cols"]:
                return fail(f"{what}: column {c} disappeared")
            ac = A["cols"][c][1]
            for l in range(n):
                if not veq(ac[l], bc[l]):
                    m = f"{what}: existing simulant {l}, column {c}: {bc[l]} -> {ac[l]}"
                    if is_fz_change(bc[l], ac[l]):
                        fz.append("[big-int class] " + m)                 # finding F-Z; every other cell is still checked
                    else:
                        return fail(m)

    fz = []
    setup_exc = None
    try:
        sim.setup()
    except Exception as e:
        setup_exc = type(e).__name__
    if where == "post_setup":
        ent = [x for x in log if x[0] == "post_setup"]
        if len(ent) != 1:
            fail(f"post_setup listener ran {len(ent)} times")
        elif ent[0][1] == "ok":
            if ent[0][2] != list(range(case["count"])):
                fail(f"creation of {case['count']} in post_setup returned {ent[0][2]}")
            tags.add("edge:post_setup:accepted")
        else:
            tags.add("edge:post_setup:" + ent[0][2])
    elif setup_exc is not None and where != "nested_initial":
        fail(f"setup failed: {setup_exc}")
    if where == "nested_initial":
        A = table() if setup_exc is None else None
        inner = [x for x in log if x[0] == "inner"]
        n0 = case["n0"]
        if inner and inner[0][1] == "ok":
            tags.add("edge:nested_initial:accepted")
            if inner[0][2] != list(range(n0, n0 + case["inner"])):
                fail(f"nested creation of {case['inner']} during the initial creation of {n0} returned {inner[0][2]}")
            if A is not None and A["labels"] != list(range(n0 + case["inner"])):
                fail(f"rows after the nested initial creation: {A['labels']}")
        elif inner:
            tags.add("edge:nested_initial:" + inner[0][2])
        if setup_exc:
            tags.add("edge:nested_initial:setup_" + setup_exc)
    if where in ("simulation_end", "nested_birth") and setup_exc is None:
        try:
            for _ in range(max(case["steps"], 1 if where == "simulation_end" else 0)):
                sim.step()                       # (simulation_end can only follow a completed step)
            B = table()
            n = len(B["labels"])
            if where == "simulation_end":
                sim.finalize()
                A = table()
                ent = [x for x in log if x[0] == "simulation_end"]
                if len(ent) != 1:
                    fail(f"simulation_end listener ran {len(ent)} times")
                elif ent[0][1] == "ok":
                    tags.add("edge:simulation_end:accepted")
                    if ent[0][2] != list(range(n, n + case["count"])) or len(A["labels"]) != n + case["count"]:
                        fail(f"creation of {case['count']} at simulation_end with {n} present returned {ent[0][2]}, rows {A['labels']}")
                else:
                    tags.add("edge:simulation_end:" + ent[0][2])
                old_rows_kept(B, A, "creation requested at simulation_end")
            else:
                state["armed"] = True
                del log[:]
                ret, exc = None, None
                try:
                    ret = [int(x) for x in probe.creator(case["count"], {"tag": 2})]
                except Exception as e:
                    exc = type(e).__name__
                A = table()
                inner = [x for x in log if x[0] == "inner"]
                if exc is not None:
                    tags.add("edge:nested_birth:outer_" + exc)
                else:
                    if ret != list(range(n, n + case["count"])):
                        fail(f"outer creation of {case['count']} with {n} present returned {ret}")
                    k = n + case["count"]
                    if inner and inner[0][1] == "ok":
                        tags.add("edge:nested_birth:accepted")
                        if inner[0][2] != list(range(k, k + case["inner"])):
                            fail(f"nested creation of {case['inner']} with {k} present returned {inner[0][2]}")
                        k += case["inner"]
                    elif inner:
                        tags.add("edge:nested_birth:" + inner[0][2])
                    if A["labels"] != list(range(k)):
                        fail(f"rows after the nested creation: {A['labels']}, expected 0..{k - 1}")
                    inits = [x[1] for x in log if x[0] == "init"]
                    exp = [list(range(n, n + case["count"]))] + ([list(range(n + case["count"], k))] if inner and inner[0][1] == "ok" else [])
                    if inits != exp:
                        fail(f"initializer calls saw {inits}, expected {exp}")
                old_rows_kept(B, A, "nested creation")
        except Exception as e:
            fail(f"harness exception: {type(e).__name__}: {e}")
    tags.add("edge:" + where)
    if fz:
        tags.add("finding:F-Z")
    res = Result(ok=not msgs and not fz, msg="; ".join((msgs + fz)[:3]), coq=None, key=_key(case),
                 obs={"log": log[:12], "oracle": (msgs + fz)[:3]}, tags=tuple(sorted(tags)))
    res.fs_only = bool(fz) and not msgs
    return res


# ----------------------------------------------------------------------------------------------------------------
# shrinking (core._shrink keeps any variant on which the direct oracle still fails)
# ----------------------------------------------------------------------------------------------------------------
def _op_lists(case):
    """every list that holds operations: the top-level history and the lists run by listeners inside a step"""
    yield case["ops"]
    if case.get("post_setup"):
        yield case["post_setup"]
    for op in case["ops"]:
        if op.get("k") in ("step", "finalize"):
            for lst in op.get("inside", {}).values():
                yield lst


def shrink_program(case):
    """smaller variants of a program: drop an operation (top level / inside a step), drop an action of an initializer
    script, lower a count, shrink the initial population, drop a column, a view, a requirement"""
    import copy

    def variant(edit):
        c = copy.deepcopy(case)
        try:
            edit(c)
        except Exception:
            return None
        return c

    out = []
    n_lists = len(list(_op_lists(case)))
    for li in range(n_lists):
        lst = list(_op_lists(case))[li]
        for i in range(len(lst)):
            out.append(variant(lambda c, li=li, i=i: list(_op_lists(c))[li].__delitem__(i)))
    for li in range(n_lists):
        lst = list(_op_lists(case))[li]
        for i, op in enumerate(lst):
            if op.get("k") == "create":
                for j, sc in op.get("scripts", {}).items():
                    for a in range(len(sc)):
                        out.append(variant(lambda c, li=li, i=i, j=j, a=a: list(_op_lists(c))[li][i]["scripts"][j].__delitem__(a)))
                if op.get("count", 0) > 0:
                    for k in sorted({0, op["count"] - 1}):
                        out.append(variant(lambda c, li=li, i=i, k=k: list(_op_lists(c))[li][i].__setitem__("count", k)))
                if op.get("user") is not None:
                    out.append(variant(lambda c, li=li, i=i: list(_op_lists(c))[li][i].__setitem__("user", None)))
    for j, sc in case.get("init", {}).items():
        for a in range(len(sc)):
            out.append(variant(lambda c, j=j, a=a: c["init"][j].__delitem__(a)))
    if case["n0"] > 0:
        for k in sorted({case["n0"] // 2, case["n0"] - 1}):
            out.append(variant(lambda c, k=k: c.__setitem__("n0", k)))
    if len(case["cols"]) > 1:
        for i in range(len(case["cols"])):
            out.append(variant(lambda c, i=i: c["cols"].__delitem__(i)))
    if len(case["views"]) > 1:
        out.append(variant(lambda c: c["views"].pop()))
    if case.get("reqs"):
        out.append(variant(lambda c: c.__setitem__("reqs", [])))
    if case.get("step_days", 1) != 1:
        out.append(variant(lambda c: c.__setitem__("step_days", 1)))
    for c in out:
        if c is not None and c != case:
            yield c


def shrink_edge(case):
    import copy
    for k in ("n0", "count", "inner", "steps"):
        if case.get(k, 0) > 0:
            c = copy.deepcopy(case)
            c[k] = case[k] - 1
            yield c
