"""C12 - A view read returns exactly the requested, filtered rows and columns (DESIGN.md section 5, C12).

Tie to the code (model: coq/theories/PopRead.v, lemmas: PopReadProofs.v, theorems: coq/props/C12.v):
  stream `hist`   real InteractiveContexts built from a generated *program*: two probe components create 1-5 columns of
                  dtypes bool/int64/float64/str (names incl. `tracked_by`, `untracked_n`, `tracked by`, `is tracked`, `my#col`, `a # b`; the second component requires
                  the first one's columns, so that during the initial creation its initializer runs while its own
                  columns do not exist yet); root views are obtained in `setup` through builder.population.get_view
                  (column subsets incl. full views, with / without `tracked`, a column nobody creates, a repeated
                  column; queries from the grammar below, none, or only a comment); then a history of sub-view
                  creations (any depth; invalid requests too), successful and malformed updates (incl. untracking),
                  births, time steps, finalize, report, get_population(untracked) calls and reads.  Reads happen (a) inside the second component's
                  initializer during the initial creation (view columns that do not exist yet), (b) inside it during
                  births (reindexed table: NaN cells, bool -> object, int64 -> float64), (c) from outside in the states
                  population_creation / collect_metrics / simulation_end / report and (d) inside listeners of
                  time_step__prepare, time_step, time_step__cleanup, collect_metrics and simulation_end.  Every read:
                  request = empty / all / subset / permutation / repeated labels / a label that does not exist; extra
                  query or none.
                  Observation: outcome class, returned labels in order, column list (as a set for full views),
                  cells.  The Coq model is given the table as get_population(untracked=True) shows it at the start
                  of a segment (a segment ends at a birth), folds the accepted updates itself and predicts every
                  sub-view outcome and every read.
Query grammar (the model gets the syntax tree, the implementation the text): atom := bare bool column | column OP
constant | column OP column | column in [constants] | term OP term (term := column | constant | term + - * term; exact
fractions); strings are ordered as in Python (ids = rank); expr := atom | expr and expr | expr or expr | not expr.
Rendering varies and/&, or/|, not/~, `not in`, `== [list]`, reversed (`3 < age`) and chained (`1 < age <= 3`)
comparisons, backticked names (always for names with spaces, often for `tracked`, now and then for every name of a
query), redundant parentheses, both quote styles, and trailing `# comments` (incl. comments that contain
`tracked == True`).  Mentions of `tracked` (== True, == False, bare, negated), top-level `or` (F-P, fixed by 394c1d50)
and the word "tracked" in places that are NOT the column - longer column names, string constants, comments (F-W, fixed
by 8679fa8f; backticked names: bc0fe95d, 00163756) - are frequent on purpose; so are `#` characters that do NOT start
a comment (inside string constants and inside backticked names, F-AI fixed by 3277fe40) followed by real comments.
No private attribute, helper or container of /repo/src is read: views come from builder.population.get_view /
PopulationView.subview, tables from InteractiveContext.get_population, the state from builder.lifecycle.current_state.
Direct oracle: a plain-python reference filter over the harness' own copy of the table (snapshot + the updates the
harness issued), with the property's rule for the default `tracked` filter; plus the copy probe (the returned frame is
mutated in place, then the state table is re-read and compared).
"""
import random

import boot
from core import Result, Stream, cbool, clist, cnat, cpair, cz, czlist

PROPERTY = "C12"
RULE = ("hist: generated programs (module doc) on real InteractiveContexts: 0-10 simulants + births, 1-5 columns, 1-4 root "
        "views, 0-20 operations + reads inside initializers and event listeners; distinct = distinct program; "
        "trivial = no read was executed")
ASSUMPTIONS = [
    "pandas' DataFrame.query evaluates the generated query strings as the syntax tree they were rendered from "
    "(comparisons incl. string order, membership, + - * arithmetic and boolean connectives on bool/int64/float64/str "
    "columns; NaN compares false except under != / not in); validated on every explored case, since the model evaluates the tree and the implementation "
    "the text",
    "float cells are multiples of 1/4 (exact in binary64); a float cell F z stands for z/4",
    "the state table shown by get_population(untracked=True) at the start of a segment is the model's input table",
]
TRUSTED = [
    "C12: the table snapshots are read through the public InteractiveContext.get_population(untracked=True); views are "
    "created through builder.population.get_view and PopulationView.subview; no private attribute of the population "
    "manager or of a view is read",
    "C12: copy semantics (mutating the returned frame does not change the state table) is TESTED by the copy probe on "
    "every successful read, not proved (a Gallina value cannot alias)",
    "C12: sysconfig.get_paths is memoised in the harness process (loguru recomputes it for every context; pure function)",
]
LEVEL_NOTE = ("copy semantics of the returned frame is checked by the correspondence driver (mutate, re-read), not proved; "
              "queries are restricted to the grammar of the module doc")
CLAIM = {
    "technique": "Coq proof over an executable model of get/subview/_get_view + vm_compute correspondence on real views",
    "text": "Machine-checked theorems (all tables, views, sub-view chains of any depth, requests, extra queries, write "
            "histories): a read returns exactly the requested labels that satisfy the view's and the extra filter, in "
            "request order with repeats, with exactly the view's columns and the current cells; the default tracked "
            "filter applies exactly when the view has columns, lacks `tracked` and the inherited query does not refer to "
            "the tracked column; missing view columns and unknown labels are errors.  The model is tied to /repo/src by "
            "running real PopulationViews of real contexts (reads in initializers, event listeners and from outside in "
            "six lifecycle states) and the model on the same generated histories (Coq decides agreement).",
    "note": "Copy semantics is tested (mutate the returned frame, re-read the table), not proved. Queries are limited to "
            "a comparison/membership/arithmetic/and/or/not grammar; pandas.query is trusted to parse the rendered text "
            "to the generated tree.",
}

POOL = ["age", "bmi", "sex", "alive", "wt", "kids", "tracked_by", "untracked_n", "tracked by", "is tracked", "my#col", "a # b"]
NAME2ID = {"tracked": 0, "age": 1, "bmi": 2, "sex": 3, "alive": 4, "wt": 5, "kids": 6, "zz": 7, "yy": 8,
           "tracked_by": 9, "untracked_n": 10, "tracked by": 11, "is tracked": 12, "my#col": 13, "a # b": 14}
DTS = ["bool", "int", "float", "str"]
# string ids = rank in Python's string order (the model compares strings by id); "q", "it's", "`tracked`" never occur in a table
STRS = sorted(["x", "y", "z", "w", "q", "tracked", "a#b", "it's", "`tracked`"])
CELL_STRS = ["x", "y", "z", "w", "x", "y", "tracked", "a#b"]
OPS = ["==", "!=", "<", "<=", ">", ">="]
FLIP = {"==": "==", "!=": "!=", "<": ">", "<=": ">=", ">": "<", ">=": "<="}
COQ_OP = {"==": "CEq", "!=": "CNe", "<": "CLt", "<=": "CLe", ">": "CGt", ">=": "CGe"}
COMMENTS = ["x", "tracked == True", "and tracked == False", "it's", "or tracked", "'tracked'", "", "# tracked"]
PHASES = ["time_step__prepare", "time_step", "time_step__cleanup", "collect_metrics"]


# ----------------------------------------------------------------------------------------------------------------
# query syntax trees: generation, rendering, reference evaluation, Coq literal
#   ["col", n] | ["cmp", n, op, const] | ["cmpc", n, op, n2] | ["in", n, [consts]] | ["and", a, b] | ["or", a, b] | ["not", a]
# ----------------------------------------------------------------------------------------------------------------
def gen_const(rng, dt):
    if dt == "bool":
        return ["b", rng.random() < 0.6]
    if dt == "int":
        return ["i", rng.randint(-2, 6)] if rng.random() < 0.8 else ["f", rng.randint(-6, 22)]
    if dt == "float":
        return ["f", rng.randint(-6, 14)] if rng.random() < 0.8 else ["i", rng.randint(-2, 4)]
    return ["s", rng.choice(STRS)]


def gen_term(rng, avail, first, depth):
    """["c", name] | ["k", const] | [op, a, b] with op in + - *; over int/float columns and small constants"""
    nums = [m for m in avail if m != "__bare__" and avail[m] in ("int", "float")]
    r = rng.random()
    if first is not None and depth >= 2:
        a = ["c", first]
        b = gen_term(rng, avail, None, 0)
        return [rng.choice(["+", "-", "*", "+"]), a, b] if rng.random() < 0.5 else [rng.choice(["+", "-", "*"]), b, a]
    if depth <= 0 or r < 0.6:
        if nums and rng.random() < 0.5:
            return ["c", rng.choice(nums)]
        return ["k", ["i", rng.randint(0, 4)] if rng.random() < 0.7 else ["f", rng.randint(1, 10)]]
    return [rng.choice(["+", "-", "*"]), gen_term(rng, avail, None, depth - 1), gen_term(rng, avail, None, depth - 1)]


def gen_atom(rng, avail, p_tracked):
    """avail: {name: dtype} (+ "__bare__": names usable as a bare boolean atom).  Returns a tree."""
    r = rng.random()
    if r < p_tracked:
        k = rng.random()
        if k < 0.4:
            return ["cmp", "tracked", "==", ["b", True]]
        if k < 0.65:
            return ["cmp", "tracked", "==", ["b", False]]
        if k < 0.8:
            return ["col", "tracked"]
        if k < 0.9:
            return ["not", ["col", "tracked"]]
        return ["cmp", "tracked", "!=", ["b", rng.random() < 0.5]]
    if r < p_tracked + 0.012:
        return ["cmp", "zz", ">", ["i", 0]]                    # a name no table has: pandas raises
    names = [n for n in avail if n not in ("tracked", "__bare__")]
    if not names:
        return ["cmp", "tracked", "==", ["b", True]]
    n = rng.choice(names)
    dt = avail[n]
    k = rng.random()
    if dt == "bool":
        if k < 0.3 and n in avail["__bare__"]:
            # (a bool column that is being re-initialised during a birth is an object column with NaN: pandas refuses
            #  it as a bare mask - only columns that are complete whenever a read happens are used bare)
            return ["col", n]
        return ["cmp", n, rng.choice(["==", "!="]), gen_const(rng, dt)]
    if k < 0.14:                                               # membership
        return ["in", n, [gen_const(rng, dt) for _ in range(rng.choice([1, 2, 2, 3]))]]
    if k < 0.26:                                               # column against column of the same kind
        same = [m for m in names if (avail[m] == "str") == (dt == "str") and avail[m] != "bool"]
        m = rng.choice(same)
        return ["cmpc", n, rng.choice((["==", "!="] if dt == "str" else []) + OPS), m]
    if dt == "str":
        return ["cmp", n, rng.choice(["==", "!=", "==", "!="] + OPS), gen_const(rng, dt)]
    if k < 0.42:                                               # arithmetic on int/float columns
        return ["cmpt", gen_term(rng, avail, n, 2), rng.choice(OPS), gen_term(rng, avail, None, 1)]
    return ["cmp", n, rng.choice(OPS), gen_const(rng, dt)]


def gen_tree(rng, avail, p_tracked, depth):
    r = rng.random()
    if depth <= 0 or r < 0.35:
        return gen_atom(rng, avail, p_tracked)
    if r < 0.60:
        a = gen_tree(rng, avail, p_tracked, depth - 1)
        if a[0] == "cmp" and a[2] in ("<", "<=", ">", ">=") and a[3][0] != "b" and rng.random() < 0.3:
            # a range on one column (rendered as a chained comparison now and then)
            return ["and", a, ["cmp", a[1], rng.choice(["<", "<="] if a[2] in (">", ">=") else [">", ">="]),
                               gen_const(rng, avail.get(a[1], "int"))]]
        return ["and", a, gen_tree(rng, avail, p_tracked, depth - 1)]
    if r < 0.88:
        return ["or", gen_tree(rng, avail, p_tracked, depth - 1), gen_tree(rng, avail, p_tracked, depth - 1)]
    return ["not", gen_tree(rng, avail, p_tracked, depth - 1)]


def gen_query(rng, avail):
    """None (no query) or a tree.  About 1/3 mention `tracked`; about 1/4 have a top-level `or`."""
    r = rng.random()
    if r < 0.25:
        return None
    p_tracked = rng.choice([0.0, 0.0, 0.0, 0.25, 0.5])
    if r < 0.40:
        return ["or", gen_tree(rng, avail, p_tracked, 1), gen_tree(rng, avail, p_tracked, 1)]
    return gen_tree(rng, avail, p_tracked, rng.choice([0, 1, 2, 2, 3]))


def render_const(rng, k):
    kind, v = k
    if kind == "b":
        return "True" if v else "False"
    if kind == "i":
        return str(int(v))
    if kind == "f":
        return repr(v / 4.0)
    if "'" in v:
        return '"%s"' % v
    return ("'%s'" if rng.random() < 0.5 else '"%s"') % v


_STYLE = {"backtick_all": False}


def render_name(rng, n):
    if not n.isidentifier() or _STYLE["backtick_all"]:
        return f"`{n}`"
    return f"`{n}`" if rng.random() < (0.3 if n == "tracked" else 0.08) else n


def render_term(rng, t, parent=0):
    """+ - : 1, * : 2, atom 3"""
    if t[0] == "c":
        return render_name(rng, t[1])
    if t[0] == "k":
        return render_const(rng, t[1])
    prec = 2 if t[0] == "*" else 1
    sp = " " if rng.random() < 0.8 else ""
    # left operand at the same precedence needs no parentheses; the right one does (a - (b - c))
    s = render_term(rng, t[1], prec) + sp + t[0] + sp + render_term(rng, t[2], prec + 1)
    return "(" + s + ")" if prec < parent or rng.random() < 0.1 else s


def render(rng, q, parent=0, sym=None):
    """Text whose parse under pandas.query is (up to associativity of and/or) the tree q.
    Precedence: or 1 < and 2 < not 3 < atom 4.  `&`/`|` are rewritten by pandas to and/or (same precedence)."""
    if sym is None:
        sym = rng.random() < 0.25            # use & | ~ in this query
    tag = q[0]
    sp = " " if rng.random() < 0.85 else ""
    if tag == "col":
        s, prec = render_name(rng, q[1]), 4
    elif tag == "cmp":
        if rng.random() < 0.12:
            s = f"{render_const(rng, q[3])}{sp}{FLIP[q[2]]}{sp}{render_name(rng, q[1])}"
        else:
            s = f"{render_name(rng, q[1])}{sp}{q[2]}{sp}{render_const(rng, q[3])}"
        prec = 4
    elif tag == "cmpc":
        s, prec = f"{render_name(rng, q[1])}{sp}{q[2]}{sp}{render_name(rng, q[3])}", 4
    elif tag == "cmpt":
        s, prec = f"{render_term(rng, q[1])} {q[2]} {render_term(rng, q[3])}", 4
    elif tag == "in":
        lst = "[" + ", ".join(render_const(rng, k) for k in q[2]) + "]"
        s, prec = f"{render_name(rng, q[1])} {'==' if rng.random() < 0.2 else 'in'} {lst}", 4
    elif tag == "and":
        a, b = q[1], q[2]
        if (a[0] == "cmp" and b[0] == "cmp" and a[1] == b[1] and a[2] in ("<", "<=", ">", ">=")
                and b[2] in ("<", "<=", ">", ">=") and rng.random() < 0.5):
            s = f"{render_const(rng, a[3])} {FLIP[a[2]]} {render_name(rng, a[1])} {b[2]} {render_const(rng, b[3])}"
            prec = 4 if not sym else 0
        else:
            s, prec = render(rng, a, 2, sym) + (" & " if sym else " and ") + render(rng, b, 2, sym), 2
    elif tag == "or":
        s, prec = render(rng, q[1], 1, sym) + (" | " if sym else " or ") + render(rng, q[2], 1, sym), 1
    else:
        inner = q[1]
        r = rng.random()
        if inner[0] == "in" and r < 0.6:
            lst = "[" + ", ".join(render_const(rng, k) for k in inner[2]) + "]"
            s, prec = f"{render_name(rng, inner[1])} {'!=' if r < 0.12 else 'not in'} {lst}", 4
        elif sym and r < 0.7:
            s = ("~" + render_name(rng, inner[1])) if inner[0] == "col" else ("~(" + render(rng, inner, 0, sym) + ")")
            prec = 4
        else:
            s, prec = "not " + render(rng, inner, 3, sym), 3
    if prec < parent or (parent > 0 and tag in ("cmp", "cmpc", "cmpt", "in", "not") and sym) or rng.random() < 0.12:
        s = "(" + s + ")"
    return s


def render_query(rng, q, comment=True):
    """Query text for the tree q ("" for None), now and then with a trailing comment."""
    _STYLE["backtick_all"] = rng.random() < 0.15          # every name of this query in backticks
    try:
        s = render(rng, q) if q is not None else ""
    finally:
        _STYLE["backtick_all"] = False
    if s and comment and rng.random() < (0.5 if "#col`" in s or "# b`" in s else 0.12):
        s += rng.choice(["  # ", " #", "# "]) + rng.choice(COMMENTS)
    return s


def has_comment(text):
    """a `#` outside string constants and backticked names"""
    import re
    return "#" in re.sub(r"'[^']*'|\"[^\"]*\"|`[^`]*`", "", text)


def tree_cols(q):
    if q is None:
        return []
    if q[0] in ("col", "cmp", "in"):
        return [q[1]]
    if q[0] == "cmpc":
        return [q[1], q[3]]
    if q[0] == "cmpt":
        return term_cols(q[1]) + term_cols(q[3])
    if q[0] == "not":
        return tree_cols(q[1])
    return tree_cols(q[1]) + tree_cols(q[2])


def term_cols(t):
    return [t[1]] if t[0] == "c" else [] if t[0] == "k" else term_cols(t[1]) + term_cols(t[2])


def c_term(t):
    if t[0] == "c":
        return f"(TCol {cz(NAME2ID[t[1]])})"
    if t[0] == "k":
        return f"(TConst {c_cell(t[1])})"
    return f"({ {'+': 'TAdd', '-': 'TSub', '*': 'TMul'}[t[0]] } {c_term(t[1])} {c_term(t[2])})"


def c_cell(c):
    if c is None:
        return "Null"
    k, v = c
    if k == "b":
        return f"(Bv {cbool(v)})"
    if k == "i":
        return f"(Iv {cz(v)})"
    if k == "f":
        return f"(Fv {cz(v)})"
    return f"(Sv {cz(STRS.index(v))})"


def c_tree(q):
    if q is None:
        return "QTrue"
    t = q[0]
    if t == "col":
        return f"(QCol {cz(NAME2ID[q[1]])})"
    if t == "cmp":
        return f"(QCmp {cz(NAME2ID[q[1]])} {COQ_OP[q[2]]} {c_cell(q[3])})"
    if t == "cmpc":
        return f"(QCmpC {cz(NAME2ID[q[1]])} {COQ_OP[q[2]]} {cz(NAME2ID[q[3]])})"
    if t == "in":
        return f"(QIn {cz(NAME2ID[q[1]])} {clist(c_cell(k) for k in q[2])})"
    if t == "cmpt":
        return f"(QCmpT {c_term(q[1])} {COQ_OP[q[2]]} {c_term(q[3])})"
    if t == "not":
        return f"(QNot {c_tree(q[1])})"
    return f"({'QAnd' if t == 'and' else 'QOr'} {c_tree(q[1])} {c_tree(q[2])})"


# reference evaluation (python, independent of pandas and of the Coq model).  Cells: None | (kind, value)
def ref_num(c):
    if c is None:
        return None
    k, v = c
    if k == "i":
        return 4 * v
    if k == "f":
        return v
    if k == "b":
        return 4 if v else 0
    return None


def ref_cmp(op, a, b):
    return {"==": a == b, "!=": a != b, "<": a < b, "<=": a <= b, ">": a > b, ">=": a >= b}[op]


def ref_cells(op, c, k):
    """NaN/None: every comparison false except !=; strings in Python's string order."""
    x, y = ref_num(c), ref_num(k)
    if x is not None and y is not None:
        return ref_cmp(op, x, y)
    if c is not None and k is not None and c[0] == "s" and k[0] == "s":
        return ref_cmp(op, c[1], k[1])
    return op == "!="


def ref_term(t, row):
    """exact value (Fraction) or None for NaN"""
    from fractions import Fraction
    if t[0] in ("c", "k"):
        c = row[t[1]] if t[0] == "c" else tuple(t[1])
        x = ref_num(c)
        return None if x is None else Fraction(x, 4)
    a, b = ref_term(t[1], row), ref_term(t[2], row)
    if a is None or b is None:
        return None
    return a + b if t[0] == "+" else a - b if t[0] == "-" else a * b


def ref_eval(q, row):
    """row: {name: cell}."""
    if q is None:
        return True
    t = q[0]
    if t == "col":
        c = row[q[1]]
        return bool(c is not None and c[0] == "b" and c[1])
    if t == "cmp":
        return ref_cells(q[2], row[q[1]], tuple(q[3]))
    if t == "cmpc":
        return ref_cells(q[2], row[q[1]], row[q[3]])
    if t == "in":
        return any(ref_cells("==", row[q[1]], tuple(k)) for k in q[2])
    if t == "cmpt":
        a, b = ref_term(q[1], row), ref_term(q[3], row)
        return ref_cmp(q[2], a, b) if a is not None and b is not None else q[2] == "!="
    if t == "and":
        return ref_eval(q[1], row) and ref_eval(q[2], row)
    if t == "or":
        return ref_eval(q[1], row) or ref_eval(q[2], row)
    return not ref_eval(q[1], row)


def conj(a, b):
    if a is None:
        return b
    if b is None:
        return a
    return ["and", a, b]


TRACKED_TRUE = ["cmp", "tracked", "==", ["b", True]]


def effective_filter(cols, inherited):
    """The property's rule: a view that has columns but not `tracked` shows tracked simulants only, unless the
    (inherited) query speaks about the `tracked` column itself."""
    if cols and "tracked" not in cols and "tracked" not in tree_cols(inherited):
        return conj(inherited, TRACKED_TRUE)
    return inherited


# ----------------------------------------------------------------------------------------------------------------
# generator
# ----------------------------------------------------------------------------------------------------------------
def gen_value(rng, dt):
    if dt == "bool":
        return rng.random() < 0.5
    if dt == "int":
        return rng.randint(-2, 6)
    if dt == "float":
        return rng.randint(-6, 14)        # quarters
    return rng.choice(CELL_STRS)


def gen_cols(rng, universe, allow_full=True):
    """A column request for a root view: [] = full view."""
    r = rng.random()
    if allow_full and r < 0.18:
        return []
    k = rng.choice([1, 1, 2, 2, 3])
    cols = rng.sample(universe, min(k, len(universe)))
    if rng.random() < 0.05:
        cols.insert(rng.randint(0, len(cols)), "zz")            # a column nobody creates
    if rng.random() < 0.04:
        cols.append(cols[0])                                    # repeated column
    return cols


def gen_index(rng, n):
    """(kind, labels) over the population 0..n-1."""
    r = rng.random()
    if r < 0.07 or n == 0 and r < 0.7:
        return "empty", []
    if r < 0.25:
        return "all", list(range(n))
    if r < 0.42:
        p = list(range(n)); rng.shuffle(p)
        return "perm", p
    if r < 0.75:
        p = rng.sample(range(n), rng.randint(1, n)) if n else []
        return "subset", p
    if r < 0.92:
        p = [rng.randrange(n) for _ in range(rng.randint(2, n + 3))] if n else []
        return "repeat", p
    p = rng.sample(range(n), rng.randint(0, n)) if n else []
    p.insert(rng.randint(0, len(p)), rng.choice([n, n + 2, -1, 1000]))
    return "missing", p


def gen_hist(rng: random.Random):
    k = rng.choice([1, 2, 2, 3, 3, 4, 5])
    names = rng.sample(POOL, k)
    if rng.random() < 0.25 and not any("tracked" in n for n in names):
        names[rng.randrange(k)] = rng.choice(["tracked_by", "untracked_n", "tracked by", "is tracked"])
    if rng.random() < 0.15 and not any("#" in n for n in names):
        names[rng.randrange(k)] = rng.choice(["my#col", "a # b"])
    dts = {n: rng.choice(DTS) for n in names}
    cut = rng.randint(0, k)
    g1, g2 = names[:cut], names[cut:]
    n0 = rng.choice([0, 1, 1, 2, 3, 4, 5, 6, 8, 10])
    avail = dict(dts); avail["tracked"] = "bool"
    avail["__bare__"] = ["tracked"] + [n for n in g1 if dts[n] == "bool"]
    universe = ["tracked"] + names
    # root views
    roots = []
    views = []          # static knowledge: list of column lists ([] = full) or None (expected to be refused)
    for _ in range(rng.randint(1, 4)):
        cols = gen_cols(rng, universe)
        q = gen_query(rng, avail)
        text = render_query(rng, q)
        if q is None and cols and "tracked" not in cols and rng.random() < 0.25:
            text = rng.choice(["# ", "  # ", "#"]) + rng.choice(COMMENTS)      # a query that is only a comment
        as_str = len(cols) == 1 and rng.random() < 0.3
        roots.append({"cols": cols, "as_str": as_str, "q": q, "text": text})
        views.append(cols)

    state = {"n": n0}

    def gen_sub(table_cols):
        alive = [i for i, v in enumerate(views) if v is not None]
        p = rng.choice(alive)
        pc = views[p] if views[p] else list(table_cols)
        r = rng.random()
        pcs = list(dict.fromkeys(pc))
        if r < 0.80:
            cols = rng.sample(pcs, rng.randint(1, min(3, len(pcs))))
            ok = True
        elif r < 0.87:
            cols, ok = [], False
        elif r < 0.95:
            others = [c for c in universe + ["zz"] if c not in pc]
            cols = rng.sample(pcs, rng.randint(0, min(2, len(pcs))))
            if others:
                cols.insert(rng.randint(0, len(cols)), rng.choice(others)); ok = False
            else:
                ok = bool(cols)
        else:
            cols = [pcs[0], pcs[0]]; ok = True                # repeated column
        as_str = len(cols) == 1 and rng.random() < 0.3
        views.append(cols if ok and all(c in table_cols or c == "zz" for c in cols) else None)
        return ["sub", p, cols, as_str]

    def gen_read():
        alive = [i for i, v in enumerate(views) if v is not None]
        kview = rng.choice(alive) if rng.random() < 0.97 else rng.randrange(len(views))
        kind, idx = gen_index(rng, state["n"])
        q = gen_query(rng, avail) if rng.random() < 0.45 else None
        return ["read", kview, idx, q, render_query(rng, q), kind]

    def gen_write():
        n = state["n"]
        cols = rng.sample(universe, rng.randint(1, min(3, len(universe))))
        if rng.random() < 0.35 and "tracked" not in cols:
            cols = ["tracked"]
        labels = rng.sample(range(n), rng.randint(1, n)) if n else []
        vals = [[gen_value(rng, avail[c]) if c != "tracked" else (rng.random() < 0.4) for _ in labels] for c in cols]
        return ["write", cols, labels, vals]

    def gen_bad():
        n = state["n"]
        r = rng.random()
        if r < 0.4:
            return ["bad", "label", rng.choice(universe), n + rng.randint(0, 3)]
        if r < 0.75 and names:
            return ["bad", "dtype", rng.choice(names)]
        return ["bad", "newcol"]

    def gen_inner(table_cols, writes=False):
        """operations run inside an initializer / an event listener"""
        ops = []
        for _ in range(rng.choice([0, 1, 1, 2, 3])):
            r = rng.random()
            if r < 0.06:
                ops.append(["pop", rng.random() < 0.4])
            elif r < 0.25:
                ops.append(gen_sub(table_cols))
            elif r < 0.45 and writes and state["n"]:
                ops.append(gen_write())
            else:
                ops.append(gen_read())
        return ops

    early0 = gen_inner(["tracked"] + g1)
    ops = []
    if n0 and rng.random() < 0.5:       # untracked simulants from the start of the history
        labels = rng.sample(range(n0), rng.randint(1, max(1, n0 // 2)))
        ops.append(["write", ["tracked"], labels, [[False] * len(labels)]])
    steps = 0
    for _ in range(rng.choice([0, 1, 2, 3, 4, 6, 8, 10, 14, 20])):
        r = rng.random()
        if r < 0.13:
            ops.append(gen_sub(universe))
        elif r < 0.32:
            ops.append(gen_write() if state["n"] else gen_read())
        elif r < 0.36:
            ops.append(gen_bad())
        elif r < 0.39:
            ops.append(["pop", rng.random() < 0.4])
        elif r < 0.44:
            g = rng.choice([0, 1, 1, 2, 3])
            state["n"] += g
            ops.append(["grow", g, gen_inner(universe)])
        elif r < 0.52:
            ph = rng.choice(PHASES + [None])
            ops.append(["step", ph, gen_inner(universe, writes=True) if ph else []])
            steps += 1
        else:
            ops.append(gen_read())
    if rng.random() < 0.15:              # the end of the simulation: reads in simulation_end and report
        if not steps:
            ops.append(["step", None, []])
        ops.append(["finalize", gen_inner(universe)])
        for _ in range(rng.randint(0, 3)):
            ops.append(gen_sub(universe) if rng.random() < 0.2 else gen_read())
        if rng.random() < 0.5:
            ops.append(["report"])
            for _ in range(rng.randint(1, 3)):
                ops.append(gen_read())
    nmax = state["n"]
    vals = {n: [gen_value(rng, dts[n]) for _ in range(nmax)] for n in names}
    return {"g1": [[n, dts[n]] for n in g1], "g2": [[n, dts[n]] for n in g2], "n0": n0, "vals": vals, "roots": roots,
            "early0": early0, "ops": ops}


# ----------------------------------------------------------------------------------------------------------------
# implementation driver
# ----------------------------------------------------------------------------------------------------------------
CONFIG = {"time": {"start": {"year": 2005, "month": 7, "day": 1}, "end": {"year": 2005, "month": 8, "day": 1},
                   "step_size": 1}}


def _memoise_sysconfig():
    """loguru's exception formatter calls sysconfig.get_paths() for every sink a context adds (8 ms per context);
    the result is constant in a process."""
    import functools
    import sysconfig
    if not getattr(sysconfig.get_paths, "_c12_cached", False):
        orig = sysconfig.get_paths

        @functools.lru_cache(maxsize=None)
        def cached(scheme=None, vars=None, expand=True):
            return orig() if scheme is None else orig(scheme, vars, expand)

        def get_paths(scheme=None, vars=None, expand=True):
            if vars is not None:
                return orig(scheme, vars, expand) if scheme is not None else orig(vars=vars, expand=expand)
            return dict(cached(scheme, None, expand))

        get_paths._c12_cached = True
        sysconfig.get_paths = get_paths


def canon(v):
    """python / numpy scalar -> None | (kind, value) with floats in quarters."""
    import numpy as np
    import pandas as pd
    if v is None or v is pd.NA:
        return None
    if isinstance(v, (bool, np.bool_)):
        return ("b", bool(v))
    if isinstance(v, (int, np.integer)):
        return ("i", int(v))
    if isinstance(v, (float, np.floating)):
        if v != v:
            return None
        q = float(v) * 4.0
        if q != int(q):
            raise ValueError(f"float cell {v!r} is not a multiple of 1/4")
        return ("f", int(q))
    if isinstance(v, str):
        return ("s", v)
    raise ValueError(f"unexpected cell {v!r} of type {type(v)}")


def dtype_tag(dt):
    s = str(dt)
    return {"bool": 0, "int64": 1, "float64": 2, "str": 3, "string": 3, "object": 4}.get(s, 9)


def canon_frame(df):
    """-> (column names, [(label, [cells])]) read positionally (repeated labels / columns are fine)."""
    cols = [str(c) for c in df.columns]
    if not len(df):
        return cols, []
    if not cols:
        return cols, [(int(l), []) for l in df.index]
    values = df.to_numpy(dtype=object).tolist()
    return cols, [(int(l), [canon(v) for v in row]) for l, row in zip(df.index.tolist(), values)]


def series_for(name, dt, values, index):
    import pandas as pd
    if dt == "bool":
        return pd.Series([bool(v) for v in values], index=index, name=name, dtype="bool")
    if dt == "int":
        return pd.Series([int(v) for v in values], index=index, name=name, dtype="int64")
    if dt == "float":
        return pd.Series([v / 4.0 for v in values], index=index, name=name, dtype="float64")
    return pd.Series([str(v) for v in values], index=index, name=name, dtype="str")


def typed_cell(dt, v):
    return ("b", bool(v)) if dt == "bool" else ("i", int(v)) if dt == "int" else ("f", int(v)) if dt == "float" else ("s", str(v))


def code_of(e):
    from vivarium.framework.population.exceptions import PopulationError
    if e is None:
        return 0
    return 1 if isinstance(e, PopulationError) else 2


class Driver:
    def __init__(self, case):
        self.case = case
        self.dts = {n: d for n, d in case["g1"] + case["g2"]}
        self.dts["tracked"] = "bool"
        self.sim = None
        self.state = lambda: "?"
        self.views = []           # PopulationView or None, same numbering as the model
        self.spec = []            # per view: (columns or [] for full, effective filter tree) for the oracle
        self.segments = []        # [(coq table, [coq ops])]
        self.table = None         # oracle copy: {"cols": [...], "labels": [...], "rows": {label: {col: cell}}}
        self.raw = None           # the frame get_population(True) returned when the oracle copy was last synchronised
        self.fail = []            # oracle failures
        self.tags = []
        self.reads = 0
        self.trace = []
        self.pending = {}         # event name -> operations to run inside its listener
        self.pending_early = []
        self.closed = False       # simulation_end reached: no more updates

    # -- oracle table ----------------------------------------------------------------------------------------
    def snapshot(self):
        df = self.sim.get_population(True)
        self.raw = df
        cols, rows = canon_frame(df)
        return {"cols": cols, "dtypes": [dtype_tag(d) for d in df.dtypes], "labels": [l for l, _ in rows],
                "rows": {l: dict(zip(cols, cells)) for l, cells in rows}}

    def begin_segment(self, why):
        self.table = self.snapshot()
        t = self.table
        if any(c not in NAME2ID for c in t["cols"]) or 9 in t["dtypes"]:
            raise ValueError(f"table outside the model's domain: {t['cols']} {t['dtypes']}")
        coq_t = "(mkT %s %s)" % (
            clist(cpair(cz(NAME2ID[c]), cz(d)) for c, d in zip(t["cols"], t["dtypes"])),
            clist(cpair(cz(l), clist(c_cell(t["rows"][l][c]) for c in t["cols"])) for l in t["labels"]))
        self.segments.append((coq_t, []))
        self.tags.append(f"segment:{why}")
        self.trace.append(["segment", why, len(t["labels"]), t["cols"]])

    def emit(self, s):
        self.segments[-1][1].append(s)

    def table_check(self, where):
        """full comparison of the state table with the oracle copy (snapshot + accepted updates)"""
        now = self.snapshot()
        exp = self.table
        if now["labels"] != exp["labels"] or sorted(now["cols"]) != sorted(exp["cols"]) or \
                any(now["rows"][l] != exp["rows"][l] for l in exp["labels"]):
            self.fail.append(f"{where}: the state table differs from the snapshot + the accepted updates")
            return False
        return True

    def unchanged_check(self, where):
        """cheap: the state table equals the frame seen at the last synchronisation (copy probe)"""
        now = self.sim.get_population(True)
        if not (list(now.columns) == list(self.raw.columns) and now.equals(self.raw)):
            self.fail.append(f"{where}: the state table changed")

    # -- operations -------------------------------------------------------------------------------------------
    def do_sub(self, op):
        _, p, cols, as_str = op
        parent = self.views[p] if p < len(self.views) else None
        if parent is None:
            return
        err, v = None, None
        try:
            v = parent.subview(cols[0] if as_str else list(cols))
        except Exception as e:
            err = e
        code = code_of(err)
        pcols, pfilt = self.spec[p]
        universe = pcols if pcols else self.table["cols"]
        should_fail = (not cols) or any(c not in universe for c in cols)
        if should_fail != (code != 0):
            self.fail.append(f"subview({cols}) of a view with columns {universe}: "
                             f"{'accepted' if code == 0 else 'refused: ' + repr(err)[:120]}")
        ocols = []
        if v is not None:
            ocols = [str(c) for c in v.columns]
            if ocols != list(cols):
                self.fail.append(f"subview({cols}).columns == {ocols}")
        self.views.append(v)
        self.spec.append((list(cols), effective_filter(cols, pfilt)) if v is not None else None)
        self.emit(f"(OSub {cnat(p)} {czlist(NAME2ID[c] for c in cols)} {cz(code)} {czlist(NAME2ID.get(c, 99) for c in ocols)})")
        self.tags.append(f"sub:code{code}")
        self.trace.append(["sub", p, cols, code])

    def do_read(self, op):
        import pandas as pd
        _, k, idx, q, text, kind = op
        view = self.views[k] if k < len(self.views) else None
        if view is None:
            return
        vcols, vfilt = self.spec[k]
        t = self.table
        err, res = None, None
        index = pd.Index([int(i) for i in idx], dtype="int64")
        try:
            res = view.get(index, text) if text or self.reads % 2 else view.get(index)
        except Exception as e:
            err = e
        code = code_of(err)
        self.reads += 1
        # ---- direct oracle: the property statement on the harness' own copy of the table ----
        want_cols = list(vcols) if vcols else list(t["cols"])
        missing_label = any(i not in t["rows"] for i in idx)
        unknown_name = any(c not in t["cols"] for c in tree_cols(vfilt) + tree_cols(q))
        missing_col = any(c not in t["cols"] for c in want_cols)
        where = f"read #{self.reads} view{k}(cols={vcols or 'ALL'}, filter={vfilt}) idx={idx} extra={text!r}"
        obs_cols, obs_rows = [], []
        if res is not None:
            try:
                obs_cols, obs_rows = canon_frame(res)
            except Exception as e:
                self.fail.append(f"{where}: unreadable frame: {e}")
        if missing_label or missing_col:
            if code == 0:
                self.fail.append(f"{where}: {'a requested label is not in the table' if missing_label else 'a view column does not exist'} "
                                 f"but a frame with columns {obs_cols} and labels {[l for l, _ in obs_rows]} was returned")
        elif unknown_name:
            if code == 0 and idx:
                self.fail.append(f"{where}: a query names a column that does not exist but a frame was returned")
        else:
            exp_labels = [i for i in idx if ref_eval(vfilt, t["rows"][i]) and ref_eval(q, t["rows"][i])]
            if code != 0:
                self.fail.append(f"{where}: raised {err!r:.200}; expected labels {exp_labels}")
            else:
                got_labels = [l for l, _ in obs_rows]
                if got_labels != exp_labels:
                    self.fail.append(f"{where}: returned labels {got_labels}, expected {exp_labels}")
                if (sorted(obs_cols) != sorted(want_cols)) if not vcols else (obs_cols != want_cols):
                    self.fail.append(f"{where}: returned columns {obs_cols}, expected {want_cols}")
                else:
                    for l, cells in obs_rows:
                        if l in t["rows"] and cells != [t["rows"][l][c] for c in obs_cols]:
                            self.fail.append(f"{where}: row {l} = {cells}, table has {[t['rows'][l][c] for c in obs_cols]}")
                            break
        # ---- copy probe: mutate the returned frame in place, the state table must not change ----
        if res is not None:
            self.mutate(res)
            self.unchanged_check(f"{where}: after mutating the returned frame")
        frame = "(mk_frame %s %s)" % (czlist(NAME2ID[c] for c in obs_cols),
                                      clist(cpair(cz(l), clist(c_cell(c) for c in cells)) for l, cells in obs_rows))
        self.emit(f"(ORead {cnat(k)} {czlist(idx)} {c_tree(q)} {cz(code)} {frame})")
        if code == 0 and idx:
            self.tags.append(f"nonempty_request_returned:{'none' if not obs_rows else 'all' if len(obs_rows) == len(idx) else 'some'}")
            if any(t["rows"][l]["tracked"] != ("b", True) for l, _ in obs_rows if l in t["rows"]):
                self.tags.append("read:returned_untracked")
            if any(t["rows"][l]["tracked"] != ("b", True) for l in idx if l in t["rows"]) and vcols and "tracked" not in vcols:
                self.tags.append("read:plain_view_asked_for_untracked")
        self.tags += [f"read:code{code}", f"idx:{kind}", f"read@{self.state()}",
                      f"view:{'full' if not vcols else 'has_tracked' if 'tracked' in vcols else 'plain'}"]
        if q is not None:
            self.tags.append("read:extra_query")
        if has_comment(text):
            self.tags.append("read:extra_query_with_comment")
        self.trace.append(["read", k, idx, text, code, obs_cols, [[l, cells] for l, cells in obs_rows][:12]])

    def do_pop(self, op):
        """manager.get_population(untracked) through the public InteractiveContext.get_population"""
        untracked = bool(op[1])
        t = self.table
        df = self.sim.get_population(untracked)
        cols, rows = canon_frame(df)
        exp = [l for l in t["labels"] if untracked or t["rows"][l]["tracked"] == ("b", True)]
        where = f"get_population(untracked={untracked})"
        if [l for l, _ in rows] != exp:
            self.fail.append(f"{where}: labels {[l for l, _ in rows]}, expected {exp}")
        elif sorted(cols) != sorted(t["cols"]):
            self.fail.append(f"{where}: columns {cols}, expected {t['cols']}")
        else:
            for l, cells in rows:
                if cells != [t["rows"][l][c] for c in cols]:
                    self.fail.append(f"{where}: row {l} = {cells}, table has {[t['rows'][l][c] for c in cols]}")
                    break
        self.mutate(df)
        self.unchanged_check(f"{where}: after mutating the returned frame")
        self.emit("(OPop %s (mk_frame %s %s))" % (cbool(untracked), czlist(NAME2ID[c] for c in cols),
                                                  clist(cpair(cz(l), clist(c_cell(c) for c in cells)) for l, cells in rows)))
        self.tags.append(f"pop:untracked={untracked}")
        self.trace.append(["pop", untracked, [l for l, _ in rows]])

    def mutate(self, res):
        try:
            for j in range(res.shape[1]):
                if len(res):
                    first = res.iat[0, j]
                    new = (not first) if str(res.dtypes.iloc[j]) == "bool" else "mut" if isinstance(first, str) else 777
                    try:
                        res.iat[0, j] = new
                    except Exception:
                        pass
                    try:
                        res.iloc[:, j] = [new] * len(res)
                    except Exception:
                        pass
            try:
                res.drop(index=res.index[:1], inplace=True)
            except Exception:
                pass
            try:
                res["mut_col"] = 1
            except Exception:
                pass
        except Exception:
            pass

    def do_write(self, op):
        import pandas as pd
        _, cols, labels, vals = op
        if self.closed:
            return
        t = self.table
        index = pd.Index([int(l) for l in labels], dtype="int64")
        data = {c: series_for(c, self.dts[c], vs, index) for c, vs in zip(cols, vals)}
        upd = pd.DataFrame(data, index=index) if len(cols) > 1 or self.reads % 2 else data[cols[0]]
        try:
            self.writer.update(upd)
        except Exception as e:
            self.fail.append(f"well-formed update of {cols} at {labels} was refused: {e!r:.200}")
            return
        for c, vs in zip(cols, vals):
            for l, v in zip(labels, vs):
                t["rows"][l][c] = typed_cell(self.dts[c], v)
            self.emit("(OWrite (mk_wr %s %s))" % (cz(NAME2ID[c]), clist(
                cpair(cz(l), c_cell(typed_cell(self.dts[c], v))) for l, v in zip(labels, vs))))
        self.raw = self.sim.get_population(True)
        self.tags.append("write:untrack" if "tracked" in cols else "write")
        self.trace.append(["write", cols, labels, vals])

    def do_bad(self, op):
        import pandas as pd
        kind = op[1]
        if self.closed:
            return
        n = len(self.table["labels"])
        try:
            if kind == "label":
                c, l = op[2], op[3]
                v = False if self.dts[c] == "bool" else 1 if self.dts[c] == "int" else 4 if self.dts[c] == "float" else "x"
                self.writer.update(series_for(c, self.dts[c], [v], pd.Index([int(l)], dtype="int64")))
            elif kind == "dtype":
                c = op[2]
                if n == 0:
                    return
                wrong = {"bool": "str", "int": "str", "float": "str", "str": "int"}[self.dts[c]]
                v = "x" if wrong == "str" else 1
                self.writer.update(series_for(c, wrong, [v], pd.Index([0], dtype="int64")))
            else:
                if n == 0:
                    return
                self.writer.update(pd.Series([1], index=pd.Index([0], dtype="int64"), name="yy", dtype="int64"))
            self.tags.append(f"bad:{kind}:accepted")
        except Exception:
            self.tags.append(f"bad:{kind}:refused")
        self.trace.append(["bad", kind])
        # the table must be what it was (history part of the property: only accepted updates count)
        self.table_check(f"after a malformed update ({kind})")

    def run_ops(self, ops, inner=False, writes=True):
        for op in ops:
            kind = op[0]
            if kind == "sub":
                self.do_sub(op)
            elif kind == "read":
                self.do_read(op)
            elif kind == "pop":
                self.do_pop(op)
            elif kind == "write":
                if writes:
                    self.do_write(op)
            elif kind == "bad":
                if writes:
                    self.do_bad(op)
            elif inner:
                continue
            elif kind == "grow":
                if self.closed:
                    continue
                self.table_check("before a birth")
                self.pending_early = op[2]
                self.creator(int(op[1]), {})
                self.begin_segment("after_birth")
            elif kind == "step":
                if self.closed:
                    continue
                if op[1]:
                    self.pending[op[1]] = op[2]
                self.sim.step()
                self.tags.append(f"step:{op[1] or 'plain'}")
                self.table_check("after a time step")
            elif kind == "finalize":
                if self.closed:
                    continue
                self.pending["simulation_end"] = op[1]
                self.sim.finalize()
                self.closed = True
                self.tags.append("finalize")
                self.table_check("after finalize")
            elif kind == "report":
                if not self.closed:
                    continue
                self.sim.report(print_results=False)
                self.tags.append("report")
                self.table_check("after report")

    def on_event(self, name):
        ops = self.pending.pop(name, None)
        if ops:
            self.run_ops(ops, inner=True, writes=(name != "simulation_end"))


def run_hist(case):
    import pandas as pd
    from vivarium import Component
    from vivarium.interface.interactive import InteractiveContext

    _memoise_sysconfig()
    boot.reset_contexts()
    d = Driver(case)
    g1, g2 = [n for n, _ in case["g1"]], [n for n, _ in case["g2"]]
    vals = case["vals"]

    def frame_for(names, index):
        return pd.DataFrame({n: series_for(n, d.dts[n], [vals[n][int(i)] for i in index], index) for n in names},
                            index=index)

    class C12First(Component):
        def setup(self, builder):
            d.creator = builder.population.get_simulant_creator()
            d.writer = builder.population.get_view([])
            d.state = builder.lifecycle.current_state()
            if g1:
                self.v = builder.population.get_view(list(g1))
                builder.population.initializes_simulants(self.on_init, creates_columns=list(g1))

        def on_init(self, pop_data):
            self.v.update(frame_for(g1, pop_data.index))

    class C12Second(Component):
        def setup(self, builder):
            for r in case["roots"]:
                cols = r["cols"][0] if r["as_str"] else list(r["cols"])
                v = builder.population.get_view(cols, r["text"]) if r["text"] or len(d.views) % 2 else \
                    builder.population.get_view(cols)
                d.views.append(v)
                d.spec.append((list(r["cols"]), effective_filter(r["cols"], r["q"])))
            if g2:
                self.v = builder.population.get_view(list(g2))
            builder.population.initializes_simulants(self.on_init, creates_columns=list(g2), requires_columns=list(g1))
            for ev in PHASES + ["simulation_end"]:
                builder.event.register_listener(ev, self._listener(ev))
            self.first = True

        def _listener(self, ev):
            def listen(event):
                d.on_event(ev)
            listen.__name__ = f"c12_{ev}"
            return listen

        def on_init(self, pop_data):
            ops = case["early0"] if self.first else d.pending_early
            if ops:
                d.begin_segment("in_initializer_initial" if self.first else "in_initializer_birth")
                d.run_ops(ops, inner=True, writes=False)
            self.first = False
            if g2:
                self.v.update(frame_for(g2, pop_data.index))

    cfg = dict(CONFIG); cfg["population"] = {"population_size": int(case["n0"])}
    sim = InteractiveContext(components=[C12First(), C12Second()], configuration=cfg, setup=False, logging_verbosity=0)
    d.sim = sim
    boot.quiet_logging()
    sim.setup()
    d.begin_segment("main")
    d.run_ops(case["ops"])
    d.table_check("at the end of the history")

    roots = clist(cpair(czlist(NAME2ID[c] for c in r["cols"]), c_tree(r["q"])) for r in case["roots"])
    segs = clist("\n    (mk_seg %s\n      %s)" % (t, clist("\n      " + o for o in ops)) for t, ops in d.segments)
    coq = f"(mk_case {roots} {segs})"
    for r in case["roots"]:
        d.tags.append("root:" + ("full" if not r["cols"] else "has_tracked" if "tracked" in r["cols"] else "plain") +
                      ("+q_tracked" if "tracked" in tree_cols(r["q"]) else "+q" if r["q"] is not None else ""))
        if r["q"] is not None and r["q"][0] == "or":
            d.tags.append("root:top_level_or")
        # the word "tracked" in the text although the query does not refer to the column (class F-W)
        if "tracked" in r["text"] and "tracked" not in tree_cols(r["q"]):
            d.tags.append("root:word_tracked_not_the_column" + ("" if r["cols"] and "tracked" not in r["cols"] else "(no default due)"))
        if has_comment(r["text"]):
            d.tags.append("root:comment_only" if r["q"] is None else "root:trailing_comment")
        if any("#" in c for c in tree_cols(r["q"])):
            d.tags.append("root:hash_in_backticked_name" + ("+comment" if has_comment(r["text"]) else ""))
    ok = not d.fail
    return Result(ok=ok, msg="; ".join(d.fail[:3]), coq=coq, key=case if d.reads else None,
                  obs={"trace": d.trace[:40], "failures": d.fail[:5]}, tags=tuple(d.tags))


# ----------------------------------------------------------------------------------------------------------------
# corpus: hand-picked histories (the F-P and F-W witnesses, the interpretive corner cases)
# ----------------------------------------------------------------------------------------------------------------
def corpus():
    NT = ["cmp", "tracked", "==", ["b", False]]
    a_gt = ["cmp", "age", ">", ["i", 1]]
    a_lt = ["cmp", "age", "<", ["i", 0]]
    base = {"g1": [["age", "int"]], "g2": [["sex", "str"], ["alive", "bool"]], "n0": 5,
            "vals": {"age": [2, -1, 0, 5, 1, 3, 3], "sex": ["x", "y", "x", "z", "y", "x", "w"],
                     "alive": [True, False, True, True, False, True, False]}}
    untrack = ["write", ["tracked"], [0, 3], [[False, False]]]
    allidx = [0, 1, 2, 3, 4]
    cases = []
    # F-P (fixed by 394c1d50): top-level `or` in the user's query must not let untracked simulants through
    c = dict(base)
    c["roots"] = [{"cols": ["age"], "as_str": False, "q": ["or", a_gt, a_lt], "text": "age > 1 or age < 0"},
                  {"cols": ["age"], "as_str": True, "q": ["or", a_gt, a_lt], "text": "age > 1 | age < 0"},
                  {"cols": ["age", "tracked"], "as_str": False, "q": ["or", a_gt, a_lt], "text": "age > 1 or age < 0"},
                  {"cols": [], "as_str": False, "q": None, "text": ""}]
    c["early0"] = [["read", 0, [0, 1], None, "", "subset"], ["read", 3, allidx, None, "", "all"]]
    c["ops"] = [untrack] + [["read", k, allidx, None, "", "all"] for k in range(4)] + \
               [["sub", 2, ["age"], False], ["sub", 3, ["sex"], True], ["sub", 4, ["age"], False],
                ["read", 4, [4, 3, 3, 0, 1], None, "", "repeat"], ["read", 5, allidx, ["cmp", "sex", "!=", ["s", "x"]], "sex != 'x'", "all"],
                ["read", 6, allidx, None, "", "all"], ["grow", 2, [["read", 5, [5, 6, 0], None, "", "subset"], ["read", 3, [6, 5], None, "", "perm"]]],
                ["read", 3, [6, 5, 0], None, "", "subset"], ["step", "time_step", [["read", 0, [0, 1, 2, 3, 4, 5, 6], None, "", "all"],
                                                                                 ["write", ["tracked"], [1], [[False]]],
                                                                                 ["read", 0, [0, 1, 2, 3, 4, 5, 6], None, "", "all"]]],
                ["read", 0, [0, 1, 2, 3, 4, 5, 6], None, "", "all"],
                ["finalize", [["read", 4, [6, 5, 4], None, "", "subset"]]], ["read", 5, [6, 5, 4, 1], None, "", "subset"],
                ["report"], ["read", 3, [1, 0], None, "", "subset"]]
    cases.append(c)
    # a query that speaks about tracked replaces the default; `tracked == False` selects the untracked
    c = dict(base)
    c["roots"] = [{"cols": ["sex"], "as_str": False, "q": NT, "text": "tracked == False"},
                  {"cols": ["sex"], "as_str": False, "q": ["or", NT, a_gt], "text": "tracked == False or age > 1"},
                  {"cols": ["sex", "zz"], "as_str": False, "q": None, "text": ""},
                  {"cols": ["alive"], "as_str": False, "q": ["not", ["col", "alive"]], "text": "~alive"}]
    c["early0"] = [["read", 0, [1], None, "", "subset"], ["read", 3, [], None, "", "empty"]]
    c["ops"] = [untrack, ["read", 0, allidx, None, "", "all"], ["read", 1, [4, 3, 2, 1, 0], None, "", "perm"],
                ["read", 2, allidx, None, "", "all"], ["read", 2, [], None, "", "empty"], ["read", 0, [1, 9], None, "", "missing"],
                ["read", 3, allidx, ["cmp", "zz", ">", ["i", 0]], "zz > 0", "all"], ["read", 3, allidx, None, "", "all"],
                ["sub", 0, [], False], ["sub", 0, ["age"], False], ["sub", 2, ["zz"], True], ["read", 6, [0], None, "", "subset"],
                ["bad", "label", "age", 7], ["bad", "dtype", "age"], ["bad", "newcol"],
                ["write", ["age", "alive"], [4, 1], [[6, 6], [True, True]]], ["read", 3, allidx, None, "", "all"],
                ["read", 1, allidx, a_gt, "age>1", "all"]]
    cases.append(c)
    # empty population, one simulant, births into an empty table
    c = {"g1": [], "g2": [["bmi", "float"]], "n0": 0, "vals": {"bmi": [5, -2, 8]},
         "roots": [{"cols": ["bmi"], "as_str": False, "q": ["cmp", "bmi", ">=", ["f", 5]], "text": "bmi >= 1.25"},
                   {"cols": [], "as_str": False, "q": ["cmp", "bmi", "<", ["i", 2]], "text": "(bmi < 2)"}],
         "early0": [["read", 0, [], None, "", "empty"], ["read", 1, [], None, "", "empty"]],
         "ops": [["read", 0, [], None, "", "empty"], ["read", 0, [0], None, "", "missing"],
                 ["grow", 3, [["read", 0, [0, 1, 2], None, "", "all"], ["read", 1, [2, 1, 0], None, "", "perm"]]],
                 ["read", 0, [0, 1, 2], None, "", "all"], ["read", 1, [0, 1, 2], None, "", "all"],
                 ["write", ["tracked"], [0], [[False]]], ["read", 0, [0, 1, 2, 0], None, "", "repeat"],
                 ["sub", 1, ["bmi"], False], ["read", 2, [0, 1, 2], None, "", "all"]]}
    cases.append(c)
    # F-W (fixed by 8679fa8f): the word "tracked" somewhere in the query text is not a reference to the tracked column:
    # longer column names, string constants, comments; a trailing comment must not swallow the default filter
    tb = ["cmp", "tracked_by", ">=", ["i", 0]]
    c = {"g1": [["age", "int"], ["tracked_by", "int"]], "g2": [["sex", "str"], ["untracked_n", "float"]], "n0": 4,
         "vals": {"age": [1, 2, 3, 4, 5], "tracked_by": [0, 1, 2, 3, 4], "sex": ["tracked", "x", "a#b", "tracked", "y"],
                  "untracked_n": [4, 8, 0, -4, 4]}}
    texts = [(tb, "tracked_by >= 0"),
             (["cmp", "sex", "!=", ["s", "tracked"]], "sex != 'tracked'"),
             (["cmp", "age", ">=", ["i", 0]], "age >= 0 # x"),
             (["cmp", "age", ">=", ["i", 0]], "age >= 0  # and tracked == True"),
             (None, "# only a comment"),
             (None, "  # tracked == True"),
             (["or", ["cmp", "sex", "==", ["s", "tracked"]], ["cmp", "untracked_n", ">", ["i", 1]]], 'sex == "tracked" | untracked_n > 1 # it\'s'),
             (["and", ["cmp", "sex", "!=", ["s", "a#b"]], ["in", "sex", [["s", "tracked"], ["s", "x"], ["s", "it's"]]]],
              "sex != 'a#b' and sex in ['tracked', \"x\", \"it's\"]"),
             (["cmpc", "tracked_by", "<", "age"], "`tracked_by` < age"),
             (["and", tb, ["col", "tracked"]], "tracked_by >= 0 and tracked # the column itself: no default")]
    c["roots"] = [{"cols": ["age"], "as_str": False, "q": q, "text": t} for q, t in texts] + \
                 [{"cols": ["age", "tracked"], "as_str": False, "q": texts[2][0], "text": texts[2][1]},
                  {"cols": [], "as_str": False, "q": texts[6][0], "text": texts[6][1]}]
    c["early0"] = [["read", 0, [0, 1, 2, 3], None, "", "all"]]
    c["ops"] = [["write", ["tracked"], [1, 3], [[False, False]]]] + \
               [["read", k, [3, 2, 1, 0], None, "", "perm"] for k in range(12)] + \
               [["sub", 10, ["age"], False], ["sub", 11, ["untracked_n"], True], ["read", 12, [0, 1, 2, 3], None, "", "all"],
                ["read", 13, [0, 1, 2, 3], ["cmp", "sex", "==", ["s", "tracked"]], "sex == 'tracked'  # tracked == False", "all"],
                ["grow", 1, [["read", 0, [4, 3], None, "", "subset"], ["read", 1, [4, 0], None, "", "subset"]]],
                ["read", 13, [4, 3, 2, 1, 0], None, "", "perm"]]
    cases.append(c)
    # F-AI (fixed by 3277fe40): a `#` inside a backticked column name does not start a comment; a real comment after it does
    mc = ["cmp", "my#col", ">", ["i", 0]]
    ab = ["cmp", "a # b", ">=", ["f", 2]]
    c = {"g1": [["age", "int"], ["my#col", "int"]], "g2": [["a # b", "float"], ["sex", "str"]], "n0": 4,
         "vals": {"age": [1, 2, 3, 4, 5], "my#col": [0, 1, 2, 3, 1], "a # b": [2, 0, 8, 4, 2], "sex": ["x", "a#b", "y", "a#b", "x"]}}
    texts = [(mc, "`my#col` > 0"),
             (mc, "`my#col` > 0 # c"),
             (ab, "`a # b` >= 0.5  # tracked == True"),
             (["or", mc, ["cmp", "a # b", "<", ["i", 1]]], "`my#col` > 0 or `a # b` < 1 # `x"),
             (["and", ["cmp", "sex", "!=", ["s", "a#b"]], ["cmp", "my#col", ">=", ["i", 0]]], "sex != 'a#b' and `my#col` >= 0 # it's"),
             (["cmpt", ["*", ["c", "my#col"], ["k", ["i", 2]]], ">", ["c", "age"]], "`my#col` * 2 > age#`tracked`"),
             (["and", ["not", ["in", "my#col", [["i", 1], ["i", 2]]]], ["col", "tracked"]], "~(`my#col` in [1, 2]) & `tracked` # the column itself"),
             (["cmpc", "a # b", "<", "my#col"], "`a # b` < `my#col`")]
    c["roots"] = [{"cols": ["age"], "as_str": False, "q": q, "text": t} for q, t in texts] + \
                 [{"cols": ["my#col", "a # b"], "as_str": False, "q": None, "text": "# `my#col` only a comment"},
                  {"cols": ["a # b", "tracked"], "as_str": False, "q": texts[2][0], "text": texts[2][1]},
                  {"cols": [], "as_str": False, "q": texts[3][0], "text": texts[3][1]}]
    c["early0"] = [["read", 0, [0, 1, 2, 3], None, "", "all"], ["read", 2, [3, 2], None, "", "subset"]]
    c["ops"] = [["write", ["tracked"], [1, 2], [[False, False]]]] + \
               [["read", k, [3, 2, 1, 0], None, "", "perm"] for k in range(11)] + \
               [["sub", 9, ["a # b"], True], ["sub", 10, ["my#col", "age"], False],
                ["read", 11, [0, 1, 2, 3], mc, "`my#col`>0 # `a # b`", "all"], ["read", 12, [0, 1, 2, 3], None, "", "all"],
                ["grow", 1, [["read", 1, [4, 3], None, "", "subset"], ["read", 12, [4, 0], None, "", "subset"]]],
                ["read", 8, [4, 3, 2, 1, 0], ab, "`a # b` >= 0.5", "perm"]]
    cases.append(c)
    return cases


# ----------------------------------------------------------------------------------------------------------------
# shrinking: smaller variants of a failing history (views are numbered roots first, then sub-views in execution order)
# ----------------------------------------------------------------------------------------------------------------
def _walk(case):
    """every operation list of the case in execution order: (list, position of its owner in the parent or None)"""
    yield case["early0"]
    yield case["ops"]
    for op in case["ops"]:
        if op[0] in ("grow", "step"):
            yield op[2]
        elif op[0] == "finalize":
            yield op[1]


def _exec_order(case):
    """[(list, index)] of all operations in the order in which they run"""
    out = [(case["early0"], i) for i in range(len(case["early0"]))]
    for i, op in enumerate(case["ops"]):
        inner = op[2] if op[0] in ("grow", "step") else op[1] if op[0] == "finalize" else None
        if op[0] == "grow" and inner is not None:      # the initializer runs before the birth completes
            out += [(inner, j) for j in range(len(inner))]
            out.append((case["ops"], i))
        else:
            out.append((case["ops"], i))
            if inner is not None:
                out += [(inner, j) for j in range(len(inner))]
    return out


def _drop_view(case, v):
    """remove view number v (a root or the sub-view created by some `sub`) and everything that refers to it"""
    import copy
    c = copy.deepcopy(case)
    nroots = len(c["roots"])
    dead = {v}
    number = nroots
    marks = []                      # operations to delete (by identity)
    for lst, i in _exec_order(c):
        op = lst[i]
        if op[0] == "sub":
            me = number
            number += 1
            if me in dead or op[1] in dead:
                dead.add(me); marks.append(id(op))
        elif op[0] == "read" and op[1] in dead:
            marks.append(id(op))

    def new_index(k):
        return k - sum(1 for x in dead if x < k)
    for lst in list(_walk(c)):
        lst[:] = [op for op in lst if id(op) not in marks]
        for op in lst:
            if op[0] in ("sub", "read"):
                op[1] = new_index(op[1])
    c["roots"] = [r for k, r in enumerate(c["roots"]) if k not in dead]
    return c if c["roots"] else None


def shrink_hist(case):
    import copy
    nroots = len(case["roots"])
    # big steps first: no reads inside the first initializer, the history cut in half (from the end, then from the
    # front - operations that create views or simulants stay, later operations may refer to them)
    if case["early0"]:
        c = copy.deepcopy(case); c["early0"] = []; yield c
    n = len(case["ops"])
    if n > 1:
        c = copy.deepcopy(case); c["ops"] = c["ops"][: n // 2]; yield c
        c = copy.deepcopy(case)
        c["ops"] = [op for op in c["ops"][: n // 2] if op[0] in ("sub", "grow", "write")] + c["ops"][n // 2:]
        if len(c["ops"]) < n:
            yield c
        c = copy.deepcopy(case)
        c["ops"] = [op for i, op in enumerate(c["ops"]) if op[0] in ("sub", "grow") or i == n - 1 or op[0] == "write"]
        if len(c["ops"]) < n:
            yield c
    # drop a root view / a sub-view with its dependants
    number = nroots
    subs = []
    for lst, i in _exec_order(case):
        if lst[i][0] == "sub":
            subs.append(number); number += 1
    for v in list(range(nroots)) + subs:
        c = _drop_view(case, v)
        if c is not None:
            yield c
    # drop one operation that creates no view
    lists = list(_walk(case))
    for li, lst in enumerate(lists):
        for i, op in enumerate(lst):
            if op[0] in ("sub", "grow"):
                continue
            c = copy.deepcopy(case)
            del list(_walk(c))[li][i]
            yield c
    # a birth without operations inside / a birth dropped when nothing later refers to its simulants is too intricate:
    # only empty its inner list
    for i, op in enumerate(case["ops"]):
        if op[0] in ("grow", "step") and op[2]:
            c = copy.deepcopy(case); c["ops"][i][2] = []; yield c
    # smaller requests, no extra query, simpler queries
    det = random.Random(0)
    for li, lst in enumerate(lists):
        for i, op in enumerate(lst):
            if op[0] != "read":
                continue
            for j in range(len(op[2])):
                c = copy.deepcopy(case); del list(_walk(c))[li][i][2][j]; yield c
            if op[3] is not None:
                c = copy.deepcopy(case); o = list(_walk(c))[li][i]; o[3], o[4] = None, ""; yield c
                for sub in (op[3][1:3] if op[3][0] in ("and", "or") else [op[3][1]] if op[3][0] == "not" else []):
                    c = copy.deepcopy(case); o = list(_walk(c))[li][i]; o[3], o[4] = sub, render(det, sub); yield c
    for k, r in enumerate(case["roots"]):
        if r["q"] is not None:
            for sub in (r["q"][1:3] if r["q"][0] in ("and", "or") else [r["q"][1]] if r["q"][0] == "not" else []):
                c = copy.deepcopy(case); c["roots"][k]["q"], c["roots"][k]["text"] = sub, render(det, sub); yield c
            if has_comment(r["text"]):
                c = copy.deepcopy(case); c["roots"][k]["text"] = render(det, r["q"]); yield c
        if len(r["cols"]) > 1:
            for j in range(len(r["cols"])):
                c = copy.deepcopy(case); del c["roots"][k]["cols"][j]; c["roots"][k]["as_str"] = False; yield c
    # fewer columns in a multi-column update
    for li, lst in enumerate(lists):
        for i, op in enumerate(lst):
            if op[0] == "write" and len(op[1]) > 1:
                for j in range(len(op[1])):
                    c = copy.deepcopy(case); o = list(_walk(c))[li][i]; del o[1][j]; del o[3][j]; yield c
            if op[0] == "write" and len(op[2]) > 1:
                for j in range(len(op[2])):
                    c = copy.deepcopy(case); o = list(_walk(c))[li][i]; del o[2][j]
                    for vs in o[3]:
                        del vs[j]
                    yield c


def streams(tier):
    return [
        Stream(name="hist", imports="From Viv Require Import Common PopRead.", check="check_hist", gen=gen_hist,
               run=run_hist, n_quick=300, n_thorough=3000, corpus=corpus, shrink=shrink_hist,
               doc="histories of view creations, updates, births, steps and reads on real PopulationViews"),
    ]
