"""C05 - Decisions are monotone functions of the common draw (DESIGN.md section 5, C05).

Tie to the code (model: coq/theories/Decide.v, theorems: coq/props/C05.v):
  stream `filter`    : RandomnessStream.filter_for_probability on populations given as Index / Series / DataFrame
                       (sorted, shuffled, non-contiguous, repeated labels, empty) with probabilities given as python /
                       numpy scalars, 0-d arrays, lists, tuples, arrays and identically labelled Series.
  stream `rate`      : filter_for_rate; exp(-rate) is an oracle table filled per case from numpy.exp, the model does the
                       clipping at 250, the 1 - exp, the shapes and the comparison.
  stream `choice`    : RandomnessStream.choice with choices as list/tuple/array/Series and weights None / 1-d / per-row
                       matrices (list, tuple, array, Series, DataFrame), RESIDUAL_CHOICE in any column, zero weights.
  stream `rawchoice` : the module-level helper `_choice` (private; read defensively, skipped when absent) with draws
                       chosen by the harness, including exactly 0.0 (finding F-G) and (2^53-1)/2^53.
Streams come from a running SimulationContext (builder.randomness.get_stream, CRN off and on, several clock times) and
from hand-made RandomnessStream objects.  In every case the simulants' draws are READ FIRST with get_draw at the same
clock time and additional key (the property's observation point); the inputs are then built from them, so that a
probability exactly equal to a simulant's draw, a cumulative weight bound exactly equal to the draw and their
neighbours one ulp away are ordinary cases.  All numbers reach Coq as integer numerators over a common denominator
computed with `fractions.Fraction` (exact).  Cases on which binary64 arithmetic of the implementation rounds are compared
only when the draw is farther than 2**-40 from every exact decision boundary (count reported as skipped).
Direct oracle: `draw < p` / cumulative-interval membership re-evaluated in exact rational arithmetic on the
implementation's outputs, container type and row content, monotonicity / rescaling / residual / locality re-calls.
`choices` is passed in every container the API accepts - list, tuple, ndarray, 1-d object ndarray (mixed types, tuples,
None), pd.Series with default / permuted integer / string labels, pd.Index, range - and the returned OPTION itself must
be choices[k] positionally (missing values one value, numbers numerically).
Non-finite corner (model layer filter_px / filter_rate_x / choice_x in Decide.v): nan / +inf / -inf / negative
probabilities, rates and weights occur per row in every stream; expected = what the current code does (nan or -inf never
selects, +inf always, +inf rate = the 250 cap, rate <= 0 never selects, a weight row with nan -> option 0, an infinite
weight is refused, negative weights -> count of normalised cumulative bounds below the draw).  Determinism: EVERY call is
repeated after heap churn (arrays of the sizes about to be allocated, filled with -1e300 before the first and +1e300
before the second call, then freed) and the two outcomes must be identical - an uninitialised result slot
(np.empty, ufunc `where=` without `out=`) shows up as two different answers.
"""
import json
import math
import random
from fractions import Fraction

import boot
from core import Result, Stream, clist, cnat, cpair, cz

PROPERTY = "C05"
RULE = ("filter / rate: generated (world, clock, additional key) x request index (0-10 labels: contiguous, shuffled, "
        "non-contiguous, repeated, empty) x container (Index/Series/DataFrame) x argument shape (scalars, 0-d array, "
        "list, tuple, array, Series; wrong lengths and differently ordered Series as the malformed part) x values "
        "(own draw -1/0/+1 ulp, 0, 1, <0, >1, dyadic, arbitrary doubles; rates incl. 0, >250, 1e9 and rates whose "
        "probability hits the draw exactly). choice / rawchoice: 1-6 options x weights None / 1-d / per-row built from "
        "cut points (own draw -1/0/+1 ulp, repeated cuts = zero weights, dyadic), power-of-two rescalings, integer and "
        "arbitrary double weights, RESIDUAL_CHOICE in any column; malformed: two placeholders, placeholder in some rows "
        "only, residual < 0, all-zero row, wrong number of rows. Non-finite corner in every stream (about 7-12% of the "
        "values): nan, +inf, -inf, negative probabilities / rates (down to -700) / weights. Every call is made twice with "
        "heap churn in between. distinct = distinct case JSON; trivial = empty index")
ASSUMPTIONS = [
    "floats are the rationals they denote; the model is exact integer arithmetic over common denominators, so rounding "
    "of p/p.sum, cumsum and 1-exp(-r) is outside the theorems: compared cases are float-exact by construction (weights "
    "multiples of 2**-53 of a power-of-two total) or stay 2**-40 away from every decision boundary",
    "exp is external: theorems assume only that r -> exp(-r) is antitone with exp(-0) = 1; per case the values come "
    "from numpy.exp",
    "draws lie in [0,1) and are multiples of 2**-53 (numpy's contract; validated on every draw seen)",
    "the property's own theorems assume non-negative finite weights that are not all zero (all-zero rows are refused by "
    "the implementation: 0/0 under numpy.seterr(all='raise') set by vivarium/__init__.py); nan / inf / negative inputs "
    "are garbage-in, for which the model states and the check enforces only what the current code deterministically "
    "does (C05_nonfinite_*, C05_nan_never_selects, C05_choice_nan_row, C05_choice_inf_refused, "
    "C05_choice_negative_total); finite rates below about -709 (exp overflows, FloatingPointError) are not generated",
]
TRUSTED = [
    "harness/props/c05.py: conversion of doubles to exact fractions and common denominators, recipes that build "
    "inputs from the draws read first, mapping of returned option values back to option numbers",
    "the private helper vivarium.framework.randomness.stream._choice is called directly by stream `rawchoice` only "
    "(looked up with getattr; the stream is skipped, not failed, when the helper is renamed)",
]
LEVEL_NOTE = ("full over exact arithmetic: filter spec/order/monotone/zero/one, rate monotone (exp abstract), choice "
              "interval/local/range/scale/residual/non-zero proved for all inputs; float rounding outside; finding F-G "
              "(draw exactly 0.0 and first weight 0) excluded by the exact guard 0 < draw \\/ 0 < w0 and listed")
CLAIM = {
    "technique": "Coq proof of an exact-arithmetic model + vm_compute correspondence on boundary-built inputs",
    "text": "For all populations, probability/rate arguments and weight matrices the Gallina model of "
            "filter_for_probability, filter_for_rate and choice keeps exactly the rows whose draw is below their "
            "probability (order and content kept, monotone, 0 selects nobody, >=1 everybody) and picks the option whose "
            "cumulative-weight interval contains the row's own draw (local, scale-free, residual = explicit, never a "
            "zero-weight option unless draw = 0.0 and w0 = 0, finding F-G). Every check run re-ties the model to "
            "/repo/src on ~1000 generated calls whose inputs are built from the draws read first, including "
            "probability == draw and cumulative bound == draw exactly, and on nan/inf/negative inputs; every call is "
            "repeated after heap churn and must give the same result (no dependence on uninitialised memory).",
    "note": "trusted: Coq kernel + vm_compute, the hand transcription of stream.py/utilities.py (sampled tie), the "
            "python harness (exact Fraction conversion), numpy.exp as an oracle table; float rounding of "
            "normalisation/cumsum/1-exp is outside the theorems (near-boundary cases of inexact inputs are skipped "
            "and counted); mismatched weight widths are outside the domain; for nan/inf/negative inputs only the current "
            "deterministic behaviour is pinned down, not a property-level meaning",
}

TWO53 = 2 ** 53
P_CTX = 20
CTX_STREAMS = ["c05_s0", "c05_s1", "c05_s2"]
KINDS = {"index": 0, "series": 1, "frame": 2}


def zb(n) -> str:
    """Z literal; hexadecimal for large values (Coq reads them ~1.5x faster than decimal)."""
    n = int(n)
    if -4096 < n < 4096:
        return cz(n)
    return f"0x{n:x}%Z" if n >= 0 else f"(-0x{-n:x})%Z"


def zblist(ns) -> str:
    return clist(zb(n) for n in ns)


def lcm_den(fracs):
    d = 1
    for f in fracs:
        d = d * f.denominator // math.gcd(d, f.denominator)
    return d


def xfr(v):
    """Exact value of a python/numpy number: a Fraction, or one of the markers "nan", "inf", "-inf"."""
    v = float(v) if not isinstance(v, int) else v
    if isinstance(v, float):
        if v != v:
            return "nan"
        if v in (float("inf"), float("-inf")):
            return "inf" if v > 0 else "-inf"
    return Fraction(v)


def finite(frs):
    return [f for f in frs if isinstance(f, Fraction)]


def cx(f, D) -> str:
    """Gallina xnum literal of an exact value over the denominator D."""
    if isinstance(f, Fraction):
        return f"(Fin {zb(f * D)})"
    return {"nan": "XNaN", "inf": "XPInf", "-inf": "XNInf"}[f]


def churn(seed: int, n: int, fill: float):
    """Heap churn between two calls: allocate and free arrays of the sizes the implementation is about to allocate,
    filled with `fill`, so that any uninitialised result slot (np.empty / ufunc `where=` without `out=`) shows a value we
    chose - and a different one before the repeated call.  Uses no global random state."""
    import numpy as np
    rs = random.Random(seed)
    junk = []
    for size in [1, 1, max(n, 1), max(n, 1), max(n, 1), n + 1, 2 * max(n, 1)] + [rs.randint(1, 12) for _ in range(6)]:
        for _ in range(3):
            a = np.empty(size, dtype=float)
            a.fill(fill)
            junk.append(a)
    del junk


def same_outcome(a, b):
    """(raised?, rows) pairs of two calls must coincide."""
    return a == b


def is_pow2(fr: Fraction) -> bool:
    if fr <= 0:
        return False
    n, d = fr.numerator, fr.denominator
    return (n == 1 and d & (d - 1) == 0) or (d == 1 and n & (n - 1) == 0)


# ----------------------------------------------------------------------------------------------------------------
# worlds: where the streams come from
# ----------------------------------------------------------------------------------------------------------------
def addl_of(spec):
    if spec is None:
        return None
    k, v = spec
    if k == "int":
        return int(v)
    if k == "str":
        return str(v)
    if k == "tuple":
        return tuple(v)
    raise ValueError(spec)


def gen_addl(rng):
    r = rng.random()
    if r < 0.45:
        return None
    if r < 0.65:
        return ["int", rng.choice([0, 1, 7, -3])]
    if r < 0.9:
        return ["str", rng.choice(["x", "death", "a_b", "incidence"])]
    return ["tuple", [rng.choice(["x", "y"]), rng.randint(0, 3)]]


_WORLDS = {}


def ctx_world(crn: bool, steps: int):
    """A real SimulationContext with a probe component holding three streams, advanced `steps` steps (cached: stream
    calls do not change any state - that is C02's history theorem, and get_draw is re-read in every case anyway)."""
    key = (bool(crn), int(steps))
    if key in _WORLDS:
        return _WORLDS[key]
    import pandas as pd
    from vivarium import Component
    from vivarium.framework.engine import SimulationContext

    key_cols = ["entrance_time", "age"] if crn else []

    class DecideProbe(Component):
        def __init__(self):
            super().__init__()
            self.streams = {}

        @property
        def columns_created(self):
            return ["entrance_time", "age"]

        def setup(self, builder):
            for name in CTX_STREAMS:
                self.streams[name] = builder.randomness.get_stream(name)
            self.register = builder.randomness.register_simulants

        def on_initialize_simulants(self, pop_data):
            labels = [int(i) for i in pop_data.index]
            df = pd.DataFrame({"entrance_time": [pop_data.creation_time] * len(labels),
                               "age": [((l * 37) % 101) + ((l * 6180339) % 10 ** 7) / 10 ** 7 for l in labels]},
                              index=pop_data.index)
            if key_cols:
                self.register(df[key_cols])
            self.population_view.update(df)

    boot.reset_contexts()
    comp = DecideProbe()
    cfg = {"population": {"population_size": P_CTX},
           "randomness": {"key_columns": key_cols, "random_seed": 5, "map_size": 400},
           "time": {"start": {"year": 2005, "month": 7, "day": 1}, "end": {"year": 2006, "month": 7, "day": 1},
                    "step_size": 1}}
    sim = SimulationContext(components=[comp], configuration=cfg, logging_verbosity=0)
    sim.setup()
    sim.initialize_simulants()
    for _ in range(steps):
        sim.step()
    boot.quiet_logging()
    _WORLDS[key] = (sim, comp)
    return _WORLDS[key]


def stream_for(w):
    import pandas as pd
    if w["kind"] == "direct":
        from vivarium.framework.randomness.index_map import IndexMap
        from vivarium.framework.randomness.stream import RandomnessStream
        c = w["clock"]
        clock = pd.Timestamp(c[1]) if c[0] == "ts" else int(c[1])
        return RandomnessStream(w["key"], lambda: clock, str(w["seed"]), IndexMap(size=w["size"]))
    sim, comp = ctx_world(w["kind"] == "ctx_crn", w["steps"])
    return comp.streams[w["key"]]


def gen_world(rng):
    r = rng.random()
    if r < 0.6:
        return {"kind": "direct", "key": rng.choice(["mortality", "a_b", "x", "incidence.tb"]),
                "seed": rng.choice([0, 1, 12, 98765]), "size": rng.choice([16, 64, 300, 2000]),
                "clock": rng.choice([["ts", "2021-03-04"], ["ts", "1999-12-31 12:00:00"], ["int", 0], ["int", 17]])}
    return {"kind": "ctx" if r < 0.8 else "ctx_crn", "key": rng.choice(CTX_STREAMS), "steps": rng.randint(0, 2)}


def universe(w):
    return w["size"] if w["kind"] == "direct" else P_CTX


def gen_labels(rng, w, maxn=10, allow_empty=True):
    u = universe(w)
    mode = rng.choice(["contig", "shuffled", "shuffled", "noncontig", "repeat", "single", "empty"])
    if mode == "empty" and not allow_empty:
        mode = "single"
    if mode == "empty":
        return []
    if mode == "contig":
        return list(range(rng.randint(1, min(maxn, u))))
    if mode == "single":
        return [rng.randrange(u)]
    n = rng.randint(2, min(maxn, u))
    if mode == "shuffled":
        return rng.sample(range(u), n)
    if mode == "noncontig":
        return sorted(rng.sample(range(u), n), reverse=rng.random() < 0.25)
    base = rng.sample(range(u), max(1, n // 2))
    return [rng.choice(base) for _ in range(n)]


def read_draws(stream, labels, addl):
    """The observation point: the simulants' common draws, as exact fractions.  Returns (floats, fractions, problem)."""
    import pandas as pd
    index = pd.Index(labels, dtype="int64")
    d = stream.get_draw(index, addl)
    fl = [float(x) for x in d.tolist()]
    fr = [Fraction(x) for x in fl]
    bad = None
    for x, f in zip(fl, fr):
        if not (0.0 <= x < 1.0) or (f * TWO53).denominator != 1:
            bad = f"draw {x!r} outside [0,1) or not a multiple of 2**-53"
    if list(d.index) != list(labels):
        bad = f"get_draw returned index {list(d.index)} for request {labels}"
    return index, fl, fr, bad


# ----------------------------------------------------------------------------------------------------------------
# value recipes (JSON-able; resolved after the draws are known)
# ----------------------------------------------------------------------------------------------------------------
def resolve_val(rec, i, dfr):
    """-> python number (int or float).  ["dy", num, k] = num/2**k; ["int", n]; ["f", hex]; ["draw", j, delta] = draw of
    row j (None: own row i) + delta * 2**-53."""
    k = rec[0]
    if k in ("nan", "inf", "-inf"):
        return float(k)
    if k == "int":
        return int(rec[1])
    if k == "dy":
        v = Fraction(int(rec[1]), 2 ** int(rec[2]))
        x = float(v)
        assert Fraction(x) == v
        return x
    if k == "f":
        return float.fromhex(rec[1])
    if k == "draw":
        j = i if rec[1] is None else rec[1]
        if not dfr:
            return 0.5
        v = dfr[j % len(dfr)] + Fraction(int(rec[2]), TWO53)
        x = float(v)
        assert Fraction(x) == v
        return x
    raise ValueError(rec)


def gen_pval(rng, own=None):
    r = rng.random()
    if rng.random() < 0.07:
        return rng.choice([["nan"], ["nan"], ["inf"], ["-inf"]])      # the non-finite corner
    if r < 0.32:
        return ["draw", own, rng.choice([0, 0, 0, 1, -1])]
    if r < 0.42:
        return rng.choice([["int", 0], ["int", 1], ["dy", 0, 0], ["dy", 1, 0]])
    if r < 0.50:
        return rng.choice([["dy", 3, 1], ["int", 2], ["dy", -1, 2], ["int", -1], ["dy", 9, 3]])
    if r < 0.75:
        k = rng.choice([1, 2, 3, 4, 8])
        return ["dy", rng.randint(0, 2 ** k), k]
    return ["f", (rng.random() if rng.random() < 0.8 else rng.uniform(-0.2, 1.3)).hex()]


def build_arg(kind, vals, labels, mal, salt):
    """The probability / rate argument object and its Coq pspec constructor arguments (kind, labels used)."""
    import numpy as np
    import pandas as pd
    if kind in ("float", "int", "np", "arr0"):
        v = vals[0]
        if kind == "np":
            v = np.float64(v)
        elif kind == "arr0":
            v = np.array(v)
        return v, None
    if kind == "list":
        return list(vals), None
    if kind == "tuple":
        return tuple(vals), None
    if kind == "array":
        return np.array(vals), None
    if kind == "series":
        labs = list(labels)
        if mal == "perm":
            rr = random.Random(salt)
            for _ in range(20):
                rr.shuffle(labs)
                if labs != list(labels):
                    break
        return pd.Series(vals, index=pd.Index(labs, dtype="int64")), labs
    raise ValueError(kind)


def gen_argspec(rng, labels, gen_one, scalar_kinds):
    """Shape + value recipes of a per-simulant argument for n = len(labels) rows."""
    n = len(labels)
    r = rng.random()
    if r < 0.25 or n == 0 and r < 0.5:
        kind = rng.choice(scalar_kinds)
        j = rng.randrange(n) if n else 0
        v = gen_one(rng, j)
        if kind == "int":
            v = ["int", rng.choice([0, 1, 1, 2, -1])]
        return {"kind": kind, "vals": [v], "mal": None}
    kind = rng.choice(["list", "list", "tuple", "array", "array", "series", "series"])
    vals = [gen_one(rng, None) for _ in range(n)]
    mal = None
    m = rng.random()
    if m < 0.10 and n >= 1:
        mal = rng.choice(["short", "long", "one"] if n >= 2 else ["long"])
        if mal == "short":
            vals = vals[:-1]
        elif mal == "long":
            vals = vals + [gen_one(rng, 0)]
        else:
            vals = vals[:1]
        if kind == "series" or (kind == "tuple" and len(vals) == 1):
            kind = "list"           # pandas 3 compares a Series with a 1-tuple as with a scalar: not a malformed call
    elif m < 0.30 and kind == "series" and n >= 2 and len(set(labels)) == n:
        mal = "perm"
    return {"kind": kind, "vals": vals, "mal": mal}


def make_population(container, index, payload):
    import pandas as pd
    if container == "index":
        return index
    if container == "series":
        return pd.Series(payload, index=index, name="x")
    return pd.DataFrame({"a": payload, "b": ["r%d" % p for p in payload]}, index=index)


def observe_population(container, out):
    """-> (kind code, rows [(label, content)], problem)."""
    import pandas as pd
    if isinstance(out, pd.DataFrame):
        if list(out.columns) != ["a", "b"]:
            return 2, [], f"columns changed to {list(out.columns)}"
        rows = [(int(l), int(a)) for l, a in zip(out.index, out["a"])]
        if any(b != "r%d" % a for (_, a), b in zip(rows, out["b"])):
            return 2, rows, "a DataFrame row was torn apart (columns a and b no longer belong together)"
        return 2, rows, None
    if isinstance(out, pd.Series):
        return 1, [(int(l), int(v)) for l, v in zip(out.index, out.tolist())], None
    if isinstance(out, pd.Index):
        return 0, [(int(l), 0) for l in out], None
    return 9, [], f"result is a {type(out).__name__}"


def is_sublist(a, b):
    it = iter(b)
    return all(any(x == y for y in it) for x in a)


def crows(rows):
    return clist(cpair(cz(l), cz(c)) for l, c in rows)


def cpspec(kind, xs, labs, D):
    """xs: exact values (Fractions or non-finite markers) over the denominator D."""
    if kind in ("float", "int", "np", "arr0"):
        return f"(XScalar {cx(xs[0], D)})"
    if kind == "series":
        return f"(XSeries {clist(cz(l) for l in labs)} {clist(cx(x, D) for x in xs)})"
    return f"(XArray {clist(cx(x, D) for x in xs)})"


def raised_max(p, q):
    """max for the 'raising never removes' re-call; a non-finite side leaves the value as it is."""
    if p != p or q != q:
        return p
    return max(p, q)


# ----------------------------------------------------------------------------------------------------------------
# stream `filter`
# ----------------------------------------------------------------------------------------------------------------
def gen_filter(rng: random.Random):
    w = gen_world(rng)
    labels = gen_labels(rng, w)
    spec = gen_argspec(rng, labels, lambda r, own: gen_pval(r, own), ["float", "float", "np", "arr0", "int"])
    return {"world": w, "addl": gen_addl(rng), "labels": labels,
            "container": rng.choice(["index", "index", "series", "frame"]), "p": spec,
            "bump": [gen_pval(rng, None) for _ in labels], "salt": rng.getrandbits(30)}


def expected_rows(rows, dfl, pvals):
    return [r for r, d, p in zip(rows, dfl, pvals) if d < p]


def run_filter(case):
    stream = stream_for(case["world"])
    addl = addl_of(case["addl"])
    labels = case["labels"]
    n = len(labels)
    index, dfl, dfr, bad = read_draws(stream, labels, addl)
    payload = [1000 + 7 * j for j in range(n)]
    container = case["container"]
    rows = [(l, (payload[j] if container != "index" else 0)) for j, l in enumerate(labels)]
    pop = make_population(container, index, payload)
    spec = case["p"]
    vals = [resolve_val(rec, j, dfr) for j, rec in enumerate(spec["vals"])]
    pobj, labs = build_arg(spec["kind"], vals, labels, spec["mal"], case["salt"])
    ok, msg = (bad is None), (bad or "")

    def fail(m):
        nonlocal ok, msg
        if ok:
            ok, msg = False, m

    def attempt():
        try:
            o = stream.filter_for_probability(pop, pobj, addl)
            return o, 0, None
        except Exception as e:
            return None, 1, e

    churn(case["salt"], n, -1e300)
    out, code, err = attempt()
    kout, got, prob = (9, [], None) if code else observe_population(container, out)
    if prob:
        fail(prob)
    # the result is a function of (draws, inputs): the same call after heap churn gives the same answer
    churn(case["salt"] + 1, n, 1e300)
    out_b, code_b, _ = attempt()
    got_b = [] if code_b else observe_population(container, out_b)[1]
    if (code, got) != (code_b, got_b):
        fail(f"the same call gave two different results: kept {got} (raised={bool(code)}) and then {got_b} "
             f"(raised={bool(code_b)}) - the result depends on something other than draws and inputs "
             f"(probabilities {vals})")
    scalar = spec["kind"] in ("float", "int", "np", "arr0")
    per_row = [vals[0]] * n if scalar else vals
    hits = 0
    # ---- direct oracle: the property statement on the implementation's output ----
    if n == 0:
        if code or got or kout != KINDS[container]:
            fail(f"empty population was not returned as it is (raised={bool(code)}, kind {kout})")
    elif spec["mal"] is None:
        want = expected_rows(rows, dfl, per_row)
        hits = sum(1 for d, p in zip(dfl, per_row) if d == p)
        if code:
            fail(f"valid call raised {type(err).__name__}: {err}")
        else:
            if kout != KINDS[container]:
                fail(f"result container kind {kout} differs from the input's ({container})")
            if got != want:
                fail(f"kept rows {got} but exactly the rows with draw < probability are {want} "
                     f"(draws {dfl}, probabilities {per_row})")
            # raising probabilities never removes a simulant
            bump = [raised_max(p, resolve_val(rec, j, dfr)) for j, (p, rec) in enumerate(zip(per_row, case["bump"]))]
            try:
                _, got2, _ = observe_population(container, stream.filter_for_probability(pop, list(bump), addl))
            except Exception as e:
                got2 = got
                fail(f"valid call with probabilities {bump} raised {type(e).__name__}: {e}")
            if not is_sublist(got, got2):
                fail(f"raising probabilities {per_row} -> {bump} removed a simulant: {got} vs {got2}")
    elif spec["mal"] == "perm":
        tbl = dict(zip(labs, vals))
        want = expected_rows(rows, dfl, [tbl[l] for l in labels])
        if code == 0 and got != want:
            fail(f"a differently ordered Series of probabilities was applied positionally: kept {got}, by label {want}")
    else:
        if code == 0:
            fail(f"{len(vals)} probabilities for {n} simulants were accepted: kept {got}")
    # ---- Coq case ----
    pfr = [xfr(v) for v in vals]
    D = lcm_den(dfr + finite(pfr) + [Fraction(1, TWO53)])
    coq = cpair(zb(D), cpair(cz(KINDS[container]), cz(kout if code == 0 else KINDS[container])), crows(rows),
                zblist(f * D for f in dfr), cpspec(spec["kind"], pfr, labs, D),
                cpair(cz(code), crows(got)))
    coq = f"({coq} : filter_case)"                  # the cast fixes the type of every [] inside
    tags = (f"pop_{container}", f"p_{spec['kind']}", f"mal_{spec['mal']}", f"world_{case['world']['kind']}",
            "n0" if n == 0 else "n1" if n == 1 else "n2+", "hit_draw_eq_p" if hits else "no_exact_hit",
            "repeated_labels" if len(set(labels)) < n else "distinct_labels",
            "nonfinite_p" if len(finite(pfr)) < len(pfr) else "finite_p")
    return Result(ok=ok, msg=msg, coq=coq, key=json.dumps(case, sort_keys=True) if n else None,
                  obs={"draws": dfl, "p": [repr(v) for v in vals], "raised": bool(code), "kept": got}, tags=tags)


# ----------------------------------------------------------------------------------------------------------------
# stream `rate`
# ----------------------------------------------------------------------------------------------------------------
def gen_rval(rng, own=None):
    r = rng.random()
    if rng.random() < 0.12:         # the non-finite / negative corner (finite rates stay above -700: exp overflows below)
        return rng.choice([["nan"], ["nan"], ["inf"], ["-inf"], ["dy", -1, 1], ["int", -1], ["dy", -5, 0],
                           ["dy", -1, 53], ["int", -700], ["f", (-0.0).hex()]])
    if r < 0.25:
        return ["hit", own, rng.choice([0, 0, 1, -1])]
    if r < 0.35:
        return rng.choice([["int", 0], ["dy", 0, 0], ["int", 1], ["int", 250], ["int", 251], ["dy", 501, 1]])
    if r < 0.50:
        return rng.choice([["int", 300], ["dy", 1000, 0], ["f", (1e9).hex()], ["f", (745.2).hex()], ["int", 10 ** 6]])
    if r < 0.75:
        k = rng.choice([1, 2, 3, 4])
        return ["dy", rng.randint(0, 3 * 2 ** k), k]
    return ["f", rng.choice([rng.random(), rng.uniform(0, 5), rng.expovariate(1.0)]).hex()]


def rate_hitting(t: float) -> float:
    """A rate whose probability 1 - exp(-rate) is exactly t if one is found nearby (possible for 0 < t < 0.5)."""
    import numpy as np
    if not (0.0 < t < 1.0):
        return 0.0
    r = np.float64(-math.log1p(-t))
    cands = [r]
    lo = hi = r
    for _ in range(12):
        lo, hi = np.nextafter(lo, -np.inf), np.nextafter(hi, np.inf)
        cands += [lo, hi]
    for c in cands:
        if float(1 - np.exp(-np.array([c]))[0]) == t:
            return float(c)
    return float(r)


def resolve_rate(rec, i, dfr):
    if rec[0] == "hit":
        j = i if rec[1] is None else rec[1]
        if not dfr:
            return 0.5
        return rate_hitting(float(dfr[j % len(dfr)] + Fraction(int(rec[2]), TWO53)))
    return resolve_val(rec, i, dfr)


def gen_rate(rng: random.Random):
    w = gen_world(rng)
    labels = gen_labels(rng, w)
    spec = gen_argspec(rng, labels, lambda r, own: gen_rval(r, own), ["float", "float", "np", "int"])
    if spec["mal"] == "perm":
        spec["mal"] = None      # np.array(rate) drops a Series' labels; only identically labelled Series are in the domain
    if spec["kind"] == "int":
        spec["vals"] = [["int", rng.choice([0, 1, 2, 300])]]
    return {"world": w, "addl": gen_addl(rng), "labels": labels,
            "container": rng.choice(["index", "index", "series", "frame"]), "r": spec,
            "bump": [gen_rval(rng, None) for _ in labels], "salt": rng.getrandbits(30)}


def run_rate(case):
    import numpy as np
    stream = stream_for(case["world"])
    addl = addl_of(case["addl"])
    labels = case["labels"]
    n = len(labels)
    index, dfl, dfr, bad = read_draws(stream, labels, addl)
    payload = [1000 + 7 * j for j in range(n)]
    container = case["container"]
    rows = [(l, (payload[j] if container != "index" else 0)) for j, l in enumerate(labels)]
    pop = make_population(container, index, payload)
    spec = case["r"]
    vals = [resolve_rate(rec, j, dfr) for j, rec in enumerate(spec["vals"])]
    robj, labs = build_arg(spec["kind"], vals, labels, spec["mal"], case["salt"])
    ok, msg = (bad is None), (bad or "")

    def fail(m):
        nonlocal ok, msg
        if ok:
            ok, msg = False, m

    def attempt():
        try:
            o = stream.filter_for_rate(pop, robj, addl)
            return o, 0, None
        except Exception as e:
            return None, 1, e

    churn(case["salt"], n, -1e300)
    out, code, err = attempt()
    kout, got, prob = (9, [], None) if code else observe_population(container, out)
    if prob:
        fail(prob)
    # the result is a function of (draws, inputs): the same call after heap churn gives the same answer
    churn(case["salt"] + 1, n, 1e300)
    out_b, code_b, _ = attempt()
    got_b = [] if code_b else observe_population(container, out_b)[1]
    if (code, got) != (code_b, got_b):
        fail(f"the same call gave two different results: kept {got} (raised={bool(code)}) and then {got_b} "
             f"(raised={bool(code_b)}) - the result depends on something other than draws and rates (rates {vals})")
    # the oracle table: exp(-min(rate, 250)) from numpy for the FINITE rates (and for the cap, which +inf is clipped
    # to), evaluated as an array like the implementation does; nan stays nan, -inf gives 1 - exp(inf) = -inf
    rx = [xfr(v) for v in vals]
    fin_idx = [j for j, x in enumerate(rx) if isinstance(x, Fraction) or x == "inf"]
    clipped = [250.0 if rx[j] == "inf" else min(float(vals[j]), 250.0) for j in fin_idx]
    with np.errstate(all="ignore"):
        ev = [float(x) for x in np.exp(-np.array(clipped, dtype=float))] if clipped else []
    evals = {j: e for j, e in zip(fin_idx, ev)}
    pfloat = [(1.0 - evals[j]) if j in evals else (float("nan") if rx[j] == "nan" else float("-inf"))
              for j in range(len(vals))]
    scalar = spec["kind"] in ("float", "int", "np", "arr0")
    per_row = [pfloat[0]] * n if scalar else pfloat
    hits = 0
    if n == 0:
        if code or got or kout != KINDS[container]:
            fail(f"empty population was not returned as it is (raised={bool(code)}, kind {kout})")
    elif spec["mal"] is None:
        want = expected_rows(rows, dfl, per_row)
        hits = sum(1 for d, p in zip(dfl, per_row) if d == p)
        if code:
            fail(f"valid call with rates {vals} raised {type(err).__name__}: {err}")
        else:
            if kout != KINDS[container]:
                fail(f"result container kind {kout} differs from the input's ({container})")
            if got != want:
                fail(f"kept rows {got} but the rows with draw < 1 - exp(-min(rate, 250)) are {want} "
                     f"(draws {dfl}, rates {vals}, probabilities {per_row})")
            vrow = [vals[0]] * n if scalar else vals
            bump = [raised_max(float(v), float(resolve_rate(rec, j, dfr))) for j, (v, rec) in enumerate(zip(vrow, case["bump"]))]
            try:
                _, got2, _ = observe_population(container, stream.filter_for_rate(pop, list(bump), addl))
            except Exception as e:
                got2 = got
                fail(f"valid call with rates {bump} raised {type(e).__name__}: {e}")
            if not is_sublist(got, got2):
                fail(f"raising rates {vrow} -> {bump} removed a simulant: {got} vs {got2}")
    else:
        if code == 0:
            fail(f"{len(vals)} rates for {n} simulants were accepted: kept {got}")
    # ---- Coq case: exact 1 - E; skipped when the float subtraction rounds AND a draw is within 2**-50 of the bound ----
    efr = {j: Fraction(e) for j, e in evals.items()}
    near = False
    if n and spec["mal"] is None:
        for i, d in enumerate(dfr):
            j = 0 if scalar else i
            if j in efr and Fraction(per_row[i]) != 1 - efr[j] and abs(d - (1 - efr[j])) <= Fraction(1, 2 ** 50):
                near = True
    Dr = lcm_den(finite(rx))
    D = lcm_den(dfr + list(efr.values()) + [Fraction(1, TWO53)])
    tbl = {}
    for j, e in efr.items():
        key = 250 * Dr if rx[j] == "inf" else int(min(rx[j] * Dr, 250 * Dr))
        tbl[key] = int(e * D)
    coq = None
    if not near:
        coq = cpair(zb(D), zb(Dr), clist(cpair(zb(a), zb(b)) for a, b in sorted(tbl.items())),
                    cpair(cz(KINDS[container]), cz(kout if code == 0 else KINDS[container])), crows(rows),
                    zblist(f * D for f in dfr), cpspec(spec["kind"], rx, labs, Dr),
                    cpair(cz(code), crows(got)))
        coq = f"({coq} : rate_case)"
    tags = (f"pop_{container}", f"r_{spec['kind']}", f"mal_{spec['mal']}", f"world_{case['world']['kind']}",
            "n0" if n == 0 else "n1" if n == 1 else "n2+", "hit_draw_eq_p" if hits else "no_exact_hit",
            "rate_gt_250" if any(float(v) > 250 for v in vals) else "rate_le_250",
            "nonfinite_rate" if len(finite(rx)) < len(rx) else "finite_rate",
            "negative_rate" if any(isinstance(x, Fraction) and x < 0 for x in rx) else "no_negative_rate") \
        + (("near_skipped",) if near else ())
    return Result(ok=ok, msg=msg, coq=coq, key=json.dumps(case, sort_keys=True) if n else None,
                  obs={"draws": dfl, "rates": [repr(v) for v in vals], "raised": bool(code), "kept": got}, tags=tags)


# ----------------------------------------------------------------------------------------------------------------
# streams `choice` and `rawchoice`
# ----------------------------------------------------------------------------------------------------------------
def gen_cut(rng, own):
    r = rng.random()
    if r < 0.5:
        return ["draw", own, rng.choice([0, 0, 0, 1, -1])]
    k = rng.choice([1, 2, 3, 4])
    return ["dy", rng.randint(0, 2 ** k), k]


def gen_odd_row(rng, k, allow_res):
    """A weight row from the non-finite / negative corner: nan, one sign of infinity, negative dyadic weights."""
    flavour = rng.choice(["nan", "nan", "inf", "neg", "neg", "neg", "nan_inf"])
    w = [["dy", rng.randint(0, 8), 2] for _ in range(k)]
    j = rng.randrange(k)
    if flavour in ("nan", "nan_inf"):
        w[j] = ["nan"]
    if flavour in ("inf", "nan_inf"):
        w[(j + 1) % k if flavour == "nan_inf" and k > 1 else j] = [rng.choice(["inf", "-inf"])]
        if flavour == "nan_inf" and k == 1:
            w[j] = ["nan"]
    if flavour == "neg":
        w[j] = ["dy", -rng.randint(1, 8), 2]
        if rng.random() < 0.4:
            w[rng.randrange(k)] = ["dy", -rng.randint(1, 12), 2]
    row = {"kind": "vals", "w": w, "res": []}
    if allow_res and k >= 2 and rng.random() < 0.2:
        c = rng.randrange(k)
        if w[c][0] == "dy":
            row["res"] = [c]
    return row


def gen_row(rng, k, own, allow_res=True):
    """One weight row for k options."""
    r = rng.random()
    if rng.random() < 0.09:
        return gen_odd_row(rng, k, allow_res)
    if r < 0.55:
        cuts = [gen_cut(rng, own) for _ in range(k - 1)]
        if k >= 3 and rng.random() < 0.4:
            cuts[rng.randrange(k - 1)] = list(cuts[rng.randrange(k - 1)])         # repeated cut: a zero weight
        row = {"kind": "cuts", "cuts": cuts, "s": rng.choice([0, 0, 0, 1, 2, -1, -3]), "res": []}
    elif r < 0.75:
        w = [rng.choice([0, 0, 1, 1, 2, 3, 5]) for _ in range(k)]
        if not any(w):
            w[rng.randrange(k)] = 1
        row = {"kind": "vals", "w": [["int", x] for x in w], "res": []}
    elif r < 0.87:
        kk = rng.choice([2, 3, 4])
        w = [rng.randint(0, 2 ** kk // max(1, k - 1)) for _ in range(k)]
        if not any(w):
            w[0] = 1
        row = {"kind": "vals", "w": [["dy", x, kk] for x in w], "res": []}
    else:
        row = {"kind": "vals", "w": [["f", (rng.random() * rng.choice([1, 1, 3, 0.1])).hex()] for _ in range(k)], "res": []}
        if rng.random() < 0.3:
            row["w"][rng.randrange(k)] = ["int", 0]
    if allow_res and rng.random() < 0.35:
        if row["kind"] == "cuts":
            row["s"] = 0
            row["res"] = [rng.randrange(k)]
        elif row["w"][0][0] == "dy":
            row["res"] = [rng.randrange(k)]          # others sum <= about 1 by construction, sometimes above (malformed)
        elif row["w"][0][0] == "f":
            row["w"] = [["f", (rng.random() * 0.9 / k).hex()] for _ in range(k)]
            row["res"] = [rng.randrange(k)]
    return row


def gen_weights(rng, n, k):
    """-> p spec or None."""
    r = rng.random()
    if r < 0.12:
        return None
    shape = "1d" if r < 0.5 or n == 0 else "2d"
    if shape == "1d":
        own = rng.randrange(n) if n else 0
        rows = [gen_row(rng, k, own)]
        cont = rng.choice(["list", "list", "tuple", "array", "series"])
    else:
        with_res = rng.random() < 0.4
        rows = []
        for i in range(n):
            row = gen_row(rng, k, i, allow_res=False)
            if with_res:
                if row["kind"] == "cuts":
                    row["s"] = 0
                    row["res"] = [rng.randrange(k)]
                else:
                    row = {"kind": "cuts", "cuts": [gen_cut(rng, i) for _ in range(k - 1)], "s": 0, "res": [rng.randrange(k)]}
            rows.append(row)
        cont = rng.choice(["list2d", "list2d", "array2d", "frame"])
    mal = None
    m = rng.random()
    if shape == "2d" and n >= 2 and rng.random() < 0.2:
        # ONE weight row given as a 2-d matrix: numpy broadcasts it to every simulant (model: [broadcast])
        return {"shape": "2d", "container": cont, "rows": [gen_row(rng, k, rng.randrange(n))], "mal": None, "onerow": True}
    if m < 0.04:
        mal = "two_res"
        tgt = rng.choice(rows)
        if k >= 2:
            tgt["res"] = rng.sample(range(k), 2)
            if tgt["kind"] == "cuts":
                tgt["s"] = 0
        else:
            mal = None
    elif m < 0.08 and shape == "2d" and n >= 2:
        mal = "mixed_res"
        for i, row in enumerate(rows):
            row["res"] = [rng.randrange(k)] if i == 0 else []
            if row["kind"] == "cuts":
                row["s"] = 0
    elif m < 0.12:
        mal = "over_unit"
        tgt = rng.choice(rows)
        tgt.clear()
        tgt.update({"kind": "vals", "w": [["dy", rng.choice([5, 6, 9]), 3] for _ in range(k)], "res": [rng.randrange(k)]})
        if k == 1:
            mal = None          # a lone placeholder is simply weight 1
        if shape == "2d":
            for row in rows:
                if not row["res"]:
                    if row["kind"] == "cuts":
                        row["s"] = 0
                    row["res"] = [0]
    elif m < 0.15:
        mal = "zero_row"
        tgt = rng.choice(rows)
        tgt.clear()
        tgt.update({"kind": "vals", "w": [["int", 0] for _ in range(k)], "res": []})
        if shape == "2d" and any(row["res"] for row in rows):
            mal = "mixed_res"
    elif m < 0.18 and shape == "2d" and n >= 2:
        mal = "rows"
        if rng.random() < 0.5 and n >= 3:
            rows = rows[:-1]
        else:
            rows = rows + [gen_row(rng, k, 0, allow_res=False)]
        for row in rows:
            row["res"] = []
    return {"shape": shape, "container": cont, "rows": rows, "mal": mal}


def resolve_row(row, i, dfr):
    """-> (python values with None at placeholder columns, exact fractions likewise)."""
    if row["kind"] == "cuts":
        cuts = []
        for rec in row["cuts"]:
            if rec[0] == "draw":
                j = i if rec[1] is None else rec[1]
                v = (dfr[j % len(dfr)] if dfr else Fraction(1, 2)) + Fraction(int(rec[2]), TWO53)
            else:
                v = Fraction(int(rec[1]), 2 ** int(rec[2]))
            cuts.append(min(max(v, Fraction(0)), Fraction(1)))
        cuts = [Fraction(0)] + sorted(cuts) + [Fraction(1)]
        fr = [(b - a) * Fraction(2) ** int(row["s"]) for a, b in zip(cuts, cuts[1:])]
        vals = [float(f) for f in fr]
        assert all(Fraction(v) == f for v, f in zip(vals, fr))
    else:
        vals = [resolve_val(rec, i, dfr) for rec in row["w"]]
        fr = [xfr(v) for v in vals]
    for c in row["res"]:
        vals[c] = None
        fr[c] = None
    return vals, fr


def build_weights(p, rows_vals):
    import numpy as np
    import pandas as pd
    from vivarium.framework.randomness.stream import RESIDUAL_CHOICE
    conv = [[RESIDUAL_CHOICE if v is None else v for v in row] for row in rows_vals]
    c = p["container"]
    if p["shape"] == "1d":
        row = conv[0]
        if c == "tuple":
            return tuple(row)
        if c == "array":
            return np.array(row)
        if c == "series":
            return pd.Series(row)
        return list(row)
    if c == "array2d":
        return np.array(conv)
    if c == "frame":
        return pd.DataFrame(conv)
    return [list(r) for r in conv]


def exact_resolution(fr):
    """Exact resolved weights of one row (placeholder -> 1 - sum(others)); None if the row is malformed."""
    res = [j for j, f in enumerate(fr) if f is None]
    if len(res) > 1:
        return None
    if res:
        rest = Fraction(1) - sum((f for f in fr if f is not None), Fraction(0))
        if rest < 0:
            return None
        return [rest if f is None else f for f in fr]
    return list(fr)


def float_exact(ws):
    """Rule R: total is a power of two and every normalised weight is a multiple of 2**-53 => p/sum and cumsum are exact."""
    W = sum(ws, Fraction(0))
    return W > 0 and is_pow2(W) and all(((w / W) * TWO53).denominator == 1 for w in ws)


def choose_exact(d, ws):
    W = sum(ws)
    acc = Fraction(0)
    for k, w in enumerate(ws):
        acc += w
        if d * W <= acc:
            return k
    return len(ws)


def margin(d, ws):
    W = sum(ws)
    acc, m = Fraction(0), Fraction(10)
    for w in ws:
        acc += w
        if acc != 0:                  # leading zero weights: the bound 0/W = 0 is exact in binary64 as well
            m = min(m, abs(d - acc / W))
    return m


def is_odd_row(fr):
    return any(isinstance(f, str) or (isinstance(f, Fraction) and f < 0) for f in fr)


def float_exact_signed(ws):
    """Rows with negative weights: exact in binary64 if the total is +-2**e and all w/W are coarse dyadics."""
    W = sum(ws, Fraction(0))
    return W != 0 and is_pow2(abs(W)) and all(((w / W) * 2 ** 40).denominator == 1 and abs(w / W) <= 1024 for w in ws)


def choose_signed(d, ws):
    """(draw > cumsum(w / W)).sum() in exact arithmetic, any sign of the total."""
    W = sum(ws, Fraction(0))
    acc, cnt = Fraction(0), 0
    for w in ws:
        acc += w
        if acc / W < d:
            cnt += 1
    return cnt


def margin_signed(d, ws):
    W = sum(ws, Fraction(0))
    acc, m = Fraction(0), Fraction(10)
    seen_nonzero = False
    for w in ws:
        acc += w
        # a cumulative bound that is exactly 0 in rationals is exact in binary64 only while nothing non-zero has been
        # added yet; after cancellation (e.g. -0.9 + 0.7 + 0.2) the float bound is a tiny non-zero number, so a draw of
        # exactly 0.0 sits ON that boundary (thorough seed 41 found this false alarm)
        if acc != 0 or seen_nonzero:
            m = min(m, abs(d - acc / W))
        if w != 0:
            seen_nonzero = True
    return m


def model_choice(n, k, p, rows_fr, dfr):
    """What the Gallina model [choice_x] says for a weight matrix from the non-finite / negative corner:
    ("raise", None) or ("ok", [option per simulant]) plus the per-simulant exact rows (None for nan rows)."""
    if n == 0:
        return "ok", [], []
    rows0 = [rows_fr[0]] * n if p["shape"] == "1d" else rows_fr
    any_res = any(f is None for fr in rows0 for f in fr)
    any_nonfin = any(isinstance(f, str) for fr in rows0 for f in fr)
    if any_res and any_nonfin:
        return "raise", None, None
    if any(("nan" not in fr) and any(f in ("inf", "-inf") for f in fr) for fr in rows0):
        return "raise", None, None
    resolved = []
    if any_res:
        if not all(sum(1 for f in fr if f is None) == 1 for fr in rows0):
            return "raise", None, None
        for fr in rows0:
            r = exact_resolution(fr)
            if r is None:
                return "raise", None, None
            resolved.append(r)
    else:
        resolved = [None if "nan" in fr else list(fr) for fr in rows0]
    if any(r is not None and sum(r, Fraction(0)) == 0 for r in resolved):
        return "raise", None, None
    if len(resolved) == 1 and n > 1:
        resolved = resolved * n                 # a single 2-d row is broadcast
    if len(resolved) != n:
        return "raise", None, None
    ks = [0 if r is None else choose_signed(d, r) for d, r in zip(dfr, resolved)]
    if any(kk >= k for kk in ks):
        return "raise", None, None
    return "ok", ks, resolved


def cwspec(p, rows_fr, U):
    def cw(f):
        if f is None:
            return "Residual"
        if f == "nan":
            return "WNaN"
        if f in ("inf", "-inf"):
            return "WInf"
        return f"(Wt {zb(f * U)})"

    def crow(fr):
        return clist(cw(f) for f in fr)
    if p is None:
        return "WNone"
    if p["shape"] == "1d":
        return f"(W1 {crow(rows_fr[0])})"
    return f"(W2 {clist(crow(fr) for fr in rows_fr)})"


OBJ_POOL = [1, "a", 2.5, (1, 2), None, "b", (3,), 7]          # heterogeneous options (object containers only)


def option_values(spec):
    n, t = spec["n"], spec["type"]
    if spec["kind"] == "range":
        return list(range(n))
    if t == "str":
        return ["opt%d" % j for j in range(n)]
    if t == "int":
        return [10 * (j + 1) for j in range(n)]
    if t == "num":                                   # ints and floats: numpy promotes to float, values stay equal
        return [(j + 1) if j % 2 == 0 else j + 0.5 for j in range(n)]
    if t == "str_none":
        return ["opt%d" % j if j != n // 2 else None for j in range(n)]
    if t == "tuples":
        return [(j, j + 1) for j in range(n)]
    return OBJ_POOL[:n]                              # "mixed"


def make_choices(spec):
    """The options and the `choices` argument in one of the containers the API accepts.  Heterogeneous options and
    tuples are only passed in object containers (1-d object ndarray, object Series): numpy coerces a plain mixed list to
    strings and turns a list of equal-length tuples into a 2-d array (reported, kept out of the generator)."""
    import numpy as np
    import pandas as pd
    vals = option_values(spec)
    k = spec["kind"]
    n = len(vals)
    if k == "list":
        obj = list(vals)
    elif k == "tuple":
        obj = tuple(vals)
    elif k == "array":
        obj = np.array(vals)
    elif k == "objarray":
        obj = np.empty(n, dtype=object)
        for j, v in enumerate(vals):
            obj[j] = v
    elif k == "series":
        obj = pd.Series(vals, dtype=object) if spec["type"] in ("mixed", "tuples") else pd.Series(vals)
    elif k in ("series_perm", "series_str"):
        order = list(range(n))
        random.Random(spec.get("perm", 0)).shuffle(order)
        labels = order if k == "series_perm" else ["lab%d" % j for j in order]
        obj = pd.Series(vals, index=labels, dtype=object) if spec["type"] in ("mixed", "tuples") else pd.Series(vals, index=labels)
    elif k == "index":
        obj = pd.Index(vals)
    elif k == "range":
        obj = range(n)
    else:
        raise ValueError(k)
    return vals, obj


def same_option(got, want):
    """Is the returned value the option `want`?  Missing values (None / nan) are one value; numbers compare numerically
    (numpy may promote int to float), everything else by type and value."""
    def missing(x):
        return x is None or (isinstance(x, float) and x != x)
    if missing(got) or missing(want):
        return missing(got) and missing(want)
    if isinstance(want, bool) or isinstance(want, str) or isinstance(want, tuple):
        return type(got) is type(want) and got == want
    try:
        return not isinstance(got, (str, tuple)) and float(got) == float(want)
    except Exception:
        return False


def same_lists(a, b):
    return len(a) == len(b) and all(same_option(x, y) for x, y in zip(a, b))


def decide_case(case, labels, dfl, dfr, call, recall):
    """Shared by `choice` and `rawchoice`.  call(choices, weights) -> Series; recall(positions, choices, weights) the
    same decision point restricted to some row positions (for the locality re-call)."""
    n = len(labels)
    cvals, cobj = make_choices(case["choices"])
    k = len(cvals)
    p = case["p"]
    ok, msg, cls = True, "", None

    def fail(m, c=None):
        nonlocal ok, msg, cls
        if ok:
            ok, msg, cls = False, m, c

    rows_vals, rows_fr = [], []
    if p is not None:
        for i, row in enumerate(p["rows"]):
            own = i if p["shape"] == "2d" else (row.get("own", 0))
            v, f = resolve_row(row, own, dfr)
            rows_vals.append(v)
            rows_fr.append(f)
        wobj = build_weights(p, rows_vals)
    else:
        wobj = None
    def attempt():
        try:
            return call(cobj, wobj), 0, None
        except Exception as e:
            return None, 1, e

    churn(case.get("meta_i", 0), n * max(k, 1), -1e300)
    out, code, err = attempt()
    got = []
    if code == 0:
        if list(out.index) != list(labels):
            fail(f"choice returned index {list(out.index)} for request {labels}")
        for v in out.tolist():
            hit = [j for j, o in enumerate(cvals) if same_option(v, o)]     # the OPTION itself, positionally in `choices`
            if not hit:
                fail(f"choice returned {v!r}, which is not one of the options {cvals} (choices given as "
                     f"{case['choices']['kind']})")
                got.append(-1)
            else:
                got.append(hit[0])
    # the result is a function of (draws, inputs): the same call after heap churn gives the same answer
    churn(case.get("meta_i", 0) + 1, n * max(k, 1), 1e300)
    out_b, code_b, _ = attempt()
    if code != code_b or (code == 0 and not same_lists(out.tolist(), out_b.tolist())):
        fail(f"the same call gave two different results: {None if code else out.tolist()} and then "
             f"{None if code_b else out_b.tolist()} - the result depends on something other than draws and weights")
    if p is not None and any(is_odd_row(fr) for fr in rows_fr):
        return decide_odd(case, labels, dfl, dfr, k, p, rows_fr, code, got, err, ok, msg)
    # per-simulant exact weights
    if p is None:
        per = [[Fraction(1)] * k for _ in range(n)]
        all_rows = per[:1]
    else:
        all_rows = [exact_resolution(f) for f in rows_fr]
        per = [all_rows[0]] * n if (p["shape"] == "1d" or len(all_rows) == 1) else (all_rows if len(all_rows) == n else None)
    any_res = p is not None and any(f is None for fr in rows_fr for f in fr)
    every_res = p is not None and all(any(f is None for f in fr) for fr in rows_fr)
    malformed = (p is not None and n > 0 and
                 (per is None or any(r is None for r in all_rows) or (any_res and not every_res)
                  or any(r is not None and sum(r) == 0 for r in all_rows)))
    exact = n == 0 or (not malformed and all(float_exact(r) for r in per))
    # float rounding is outside the theorems: a row whose normalisation / cumsum rounds in binary64 is compared only if
    # its draw is farther than 2**-40 from every exact cumulative bound (known corner: cumsum(...)[-1] slightly below 1
    # and a draw above it -> IndexError, DESIGN.md section 7 F-G second sentence)
    near = bool(n) and not malformed and any(
        not float_exact(ws) and margin(d, ws) <= Fraction(1, 2 ** 40) for d, ws in zip(dfr, per))
    hits = 0
    zero_w = 0
    if n == 0:
        if code or got:
            fail(f"choice on an empty index raised or returned {got}")
    elif malformed:
        if code == 0:
            fail(f"malformed weights ({p['mal']}) were accepted: chose {got}")
    else:
        if code:
            if not near:
                fail(f"valid call raised {type(err).__name__}: {err}")
        else:
            for i, (d, ws, kk) in enumerate(zip(dfr, per, got)):
                W = sum(ws)
                cum = [sum(ws[:j + 1]) / W for j in range(k)]
                hits += sum(1 for b in cum if b == d)
                zero_w += sum(1 for w in ws if w == 0)
                if not (0 <= kk < k):
                    continue
                lo_ok = kk == 0 or cum[kk - 1] < d
                hi_ok = d <= cum[kk]
                is_near = not float_exact(ws) and margin(d, ws) <= Fraction(1, 2 ** 40)
                if not (lo_ok and hi_ok) and not is_near:
                    fail(f"simulant {labels[i]} (draw {dfl[i]!r}) got option {kk}, but its draw lies in the cumulative "
                         f"interval of option {choose_exact(d, ws)} (weights {[str(w) for w in ws]})")
                elif ws[kk] == 0 and not is_near:
                    fg = (d == 0 and kk == 0)
                    fail(f"simulant {labels[i]} (draw {dfl[i]!r}) got option {kk} whose weight is 0 "
                         f"(weights {[str(w) for w in ws]})", "F-G" if fg else None)
            # re-calls: locality, rescaling, residual spelled out (on the real implementation)
            if ok or cls == "F-G":
                i = case.get("meta_i", 0) % n
                try:
                    if p is None:
                        one = recall([i], cobj, None)
                    else:
                        vi = rows_vals[0] if (p["shape"] == "1d" or len(rows_vals) == 1) else rows_vals[i]
                        one = recall([i], cobj, build_weights({"shape": "1d", "container": "list"}, [vi]))
                    if not (len(one) == 1 and same_option(one.tolist()[0], cvals[got[i]])):
                        fail(f"simulant {labels[i]} alone with its own weight row gets {one.tolist()}, inside the request "
                             f"{cvals[got[i]]!r}: the decision depends on other rows")
                except Exception as e:
                    fail(f"single-simulant re-call raised {type(e).__name__}: {e}")
                if p is not None and exact and not any_res:
                    sc = build_weights({"shape": p["shape"], "container": "list" if p["shape"] == "1d" else "list2d"},
                                       [[v * 4 for v in r] for r in rows_vals])
                    if not same_lists(recall(list(range(n)), cobj, sc).tolist(), out.tolist()):
                        fail("multiplying all weights by 4 changed the choices")
                if p is not None and exact and every_res:
                    ex = build_weights({"shape": p["shape"], "container": "list" if p["shape"] == "1d" else "list2d"},
                                       [[float(w) for w in r] for r in all_rows])
                    if not same_lists(recall(list(range(n)), cobj, ex).tolist(), out.tolist()):
                        fail("spelling the residual weight out changed the choices")
    # ---- Coq case ----
    coq = None
    if not near:
        wfr = [f for fr in rows_fr for f in fr if f is not None]
        U = lcm_den(wfr) if wfr else 1
        D = lcm_den(dfr + [Fraction(1, TWO53)])
        coq = cpair(zb(D), zb(U), zblist(f * D for f in dfr), cnat(k), cwspec(p, rows_fr, U),
                    cpair(cz(code), clist(cz(g) for g in got) if code == 0 else "[]"))
        coq = f"({coq} : choice_case)"
    tags = (f"choices_{case['choices']['kind']}_{case['choices']['type']}", f"k{k}",
            "p_none" if p is None else f"p_{p['shape']}_{p['container']}", f"mal_{p['mal'] if p else None}",
            "one_row_2d" if (p and p.get("onerow")) else "rows_as_given",
            "n0" if n == 0 else "n1" if n == 1 else "n2+", "hit_bound_eq_draw" if hits else "no_exact_hit",
            "residual" if any_res else "no_residual", "zero_weight" if zero_w else "no_zero_weight",
            "float_exact" if exact else "float_inexact") + (("near_skipped",) if near else ())
    res = Result(ok=ok, msg=msg, coq=coq, key=json.dumps(case, sort_keys=True) if n else None,
                 obs={"draws": dfl, "raised": bool(code), "chosen": got, "class": cls,
                      "weights": [[None if f is None else str(f) for f in fr] for fr in rows_fr][:6]}, tags=tags)
    return res


def decide_odd(case, labels, dfl, dfr, k, p, rows_fr, code, got, err, ok, msg):
    """Weight matrices containing nan / inf / negative weights: outside the property's domain, but the result must
    still be what the current code deterministically does (model [choice_x]): a row with nan -> option 0, an infinite
    weight -> refused, negative weights -> the count of normalised cumulative bounds below the draw."""
    n = len(labels)
    verdict, ks, resolved = model_choice(n, k, p, rows_fr, dfr)
    def fx(r):
        return float_exact(r) if all(w >= 0 for w in r) else float_exact_signed(r)

    near = verdict == "ok" and any(r is not None and not fx(r) and margin_signed(d, r) <= Fraction(1, 2 ** 40)
                                   for d, r in zip(dfr, resolved))
    if ok and not near:
        if verdict == "raise" and code == 0:
            ok, msg = False, f"weights {rows_fr} (nan/inf/negative corner) were accepted: chose {got}; the current code refuses them"
        elif verdict == "ok" and code:
            ok, msg = False, f"weights {rows_fr} (nan/inf/negative corner) raised {type(err).__name__}: {err}"
        elif verdict == "ok" and got != ks:
            ok, msg = False, (f"weights {[[str(f) for f in fr] for fr in rows_fr]} (nan/inf/negative corner), draws {dfl}: "
                              f"chose {got}, the current semantics gives {ks}")
    coq = None
    if not near:
        wfr = [f for fr in rows_fr for f in fr if isinstance(f, Fraction)]
        U = lcm_den(wfr) if wfr else 1
        D = lcm_den(dfr + [Fraction(1, TWO53)])
        coq = cpair(zb(D), zb(U), zblist(f * D for f in dfr), cnat(k), cwspec(p, rows_fr, U),
                    cpair(cz(code), clist(cz(g) for g in got) if code == 0 else "[]"))
        coq = f"({coq} : choice_case)"
    flat = [f for fr in rows_fr for f in fr]
    tags = (f"choices_{case['choices']['kind']}_{case['choices']['type']}", f"k{k}", f"p_{p['shape']}_{p['container']}",
            "n0" if n == 0 else "n1" if n == 1 else "n2+", "odd_weights",
            "w_nan" if "nan" in flat else "w_no_nan", "w_inf" if ("inf" in flat or "-inf" in flat) else "w_no_inf",
            "w_negative" if any(isinstance(f, Fraction) and f < 0 for f in flat) else "w_no_negative",
            "odd_refused" if verdict == "raise" else "odd_decided") + (("near_skipped",) if near else ())
    return Result(ok=ok, msg=msg, coq=coq, key=json.dumps(case, sort_keys=True) if n else None,
                  obs={"draws": dfl, "raised": bool(code), "chosen": got, "class": None,
                       "weights": [[None if f is None else str(f) for f in fr] for fr in rows_fr][:6]}, tags=tags)


def gen_choices(rng):
    kind = rng.choice(["list", "list", "tuple", "array", "objarray", "series", "series_perm", "series_perm", "series_str",
                       "index", "range"])
    if kind in ("objarray", "series", "series_perm", "series_str"):
        typ = rng.choice(["str", "int", "num", "str_none", "mixed", "tuples"])
    elif kind == "index":
        typ = rng.choice(["str", "int", "num"])
    else:
        typ = rng.choice(["str", "str", "int", "num", "str_none"])
    return {"n": rng.choice([1, 2, 2, 3, 3, 4, 5, 6]), "kind": kind, "type": typ, "perm": rng.getrandbits(16)}


def gen_choice(rng: random.Random):
    w = gen_world(rng)
    labels = gen_labels(rng, w, maxn=6)
    ch = gen_choices(rng)
    p = gen_weights(rng, len(labels), ch["n"])
    if p is not None and p["shape"] == "1d":
        p["rows"][0]["own"] = rng.randrange(len(labels)) if labels else 0
    return {"world": w, "addl": gen_addl(rng), "labels": labels, "choices": ch, "p": p, "meta_i": rng.getrandbits(16)}


def run_choice(case):
    import pandas as pd
    stream = stream_for(case["world"])
    addl = addl_of(case["addl"])
    labels = case["labels"]
    index, dfl, dfr, bad = read_draws(stream, labels, addl)
    res = decide_case(case, labels, dfl, dfr,
                      lambda ch, w: stream.choice(index, ch, w, addl),
                      lambda pos, ch, w: stream.choice(pd.Index([labels[j] for j in pos], dtype="int64"), ch, w, addl))
    if bad:
        res.ok, res.msg = False, bad
    res.tags = res.tags + (f"world_{case['world']['kind']}",)
    return res


def gen_rawdraw(rng):
    r = rng.random()
    if r < 0.12:
        return ["dy", 0, 0]
    if r < 0.2:
        return ["dy", TWO53 - 1, 53]
    if r < 0.55:
        k = rng.choice([1, 2, 3, 4])
        return ["dy", rng.randrange(0, 2 ** k), k]
    return ["dy", rng.getrandbits(53), 53]


def gen_rawchoice(rng: random.Random):
    n = rng.choice([0, 1, 1, 2, 3, 4, 5])
    labels = rng.sample(range(1000), n)
    ch = gen_choices(rng)
    p = gen_weights(rng, n, ch["n"])
    if p is not None and p["shape"] == "1d":
        p["rows"][0]["own"] = rng.randrange(n) if n else 0
    return {"labels": labels, "draws": [gen_rawdraw(rng) for _ in range(n)], "choices": ch, "p": p,
            "meta_i": rng.getrandbits(16)}


RAW_CORPUS = [
    # finding F-G, the witness of DESIGN.md section 7: _choice(draws=[0.0], choices=[a, b], p=[0, 1]) returns a
    {"labels": [7], "draws": [["dy", 0, 0]], "choices": {"n": 2, "kind": "list", "type": "str"},
     "p": {"shape": "1d", "container": "list", "mal": None,
           "rows": [{"kind": "vals", "w": [["int", 0], ["int", 1]], "res": [], "own": 0}]}, "meta_i": 0},
    # the same draw with a positive first weight, and a positive draw with a zero first weight: both fine
    {"labels": [7, 8], "draws": [["dy", 0, 0], ["dy", 1, 53]], "choices": {"n": 2, "kind": "list", "type": "str"},
     "p": {"shape": "2d", "container": "list2d", "mal": None,
           "rows": [{"kind": "vals", "w": [["int", 1], ["int", 1]], "res": []},
                    {"kind": "vals", "w": [["int", 0], ["int", 1]], "res": []}]}, "meta_i": 1},
    # bounds exactly at the draws 1/4, 1/2, 3/4 (closed on the right)
    {"labels": [1, 2, 3, 4], "draws": [["dy", 1, 2], ["dy", 2, 2], ["dy", 3, 2], ["dy", 2 ** 52 + 1, 53]],
     "choices": {"n": 3, "kind": "tuple", "type": "int"},
     "p": {"shape": "1d", "container": "array", "mal": None,
           "rows": [{"kind": "vals", "w": [["dy", 1, 2], ["dy", 1, 2], ["dy", 2, 2]], "res": [], "own": 0}]}, "meta_i": 2},
]


def run_rawchoice(case):
    import pandas as pd
    from vivarium.framework.randomness import stream as stream_module
    helper = getattr(stream_module, "_choice", None)
    if helper is None:
        return Result(ok=True, msg="private helper _choice not found: stream skipped", coq=None, key=None,
                      tags=("private_helper_missing",))
    labels = case["labels"]
    dfl = [resolve_val(rec, 0, []) for rec in case["draws"]]
    dfl = [float(x) for x in dfl]
    dfr = [Fraction(x) for x in dfl]

    def series(pos):
        return pd.Series([dfl[j] for j in pos], index=pd.Index([labels[j] for j in pos], dtype="int64"), dtype=float)

    res = decide_case(case, labels, dfl, dfr,
                      lambda ch, w: helper(series(range(len(labels))), ch, w),
                      lambda pos, ch, w: helper(series(pos), ch, w))
    res.tags = res.tags + (("draw_zero",) if any(d == 0 for d in dfr) else ())
    return res


def shrink_rows(case):
    """Smaller variants of a C05 case: drop one simulant (with its per-row probability / rate / weight row / draw), then
    simplify the container and the additional key."""
    import copy
    n = len(case.get("labels", []))
    for j in range(n):
        c = copy.deepcopy(case)
        del c["labels"][j]
        if "draws" in c:
            del c["draws"][j]
        if "bump" in c:
            del c["bump"][j]
        for key in ("p", "r"):
            spec = c.get(key)
            if isinstance(spec, dict) and "vals" in spec and spec["kind"] in ("list", "tuple", "array", "series") \
                    and len(spec["vals"]) == n:
                del spec["vals"][j]
            if isinstance(spec, dict) and spec.get("shape") == "2d" and len(spec["rows"]) == n:
                del spec["rows"][j]
        yield c
    if case.get("addl") is not None:
        c = copy.deepcopy(case)
        c["addl"] = None
        yield c
    if case.get("container") in ("series", "frame"):
        c = copy.deepcopy(case)
        c["container"] = "index"
        yield c
    if isinstance(case.get("world"), dict) and case["world"].get("kind") != "direct":
        c = copy.deepcopy(case)
        c["world"] = {"kind": "direct", "key": "x", "seed": 0, "size": 2000 if max(case["labels"] + [0]) >= 300 else 300,
                      "clock": ["int", 0]}
        yield c


def finding_choice(case, res):
    """F-G: draw exactly 0.0 and weight of option 0 equal to 0 -> option 0 is returned (the class is set by the oracle
    only when exactly that happened)."""
    if isinstance(res.obs, dict) and res.obs.get("class") == "F-G":
        return "F-G"
    return None


def streams(tier):
    imp = "From Viv Require Import Common Decide."
    return [
        Stream(name="filter", imports=imp, check="check_filter", gen=gen_filter, run=run_filter,
               n_quick=320, n_thorough=6000, shrink=shrink_rows,
               doc="filter_for_probability: containers x argument shapes x boundary values"),
        Stream(name="rate", imports=imp, check="check_rate", gen=gen_rate, run=run_rate,
               n_quick=160, n_thorough=3000, shrink=shrink_rows,
               doc="filter_for_rate: clipping, 1 - exp (numpy.exp as oracle table), shapes"),
        Stream(name="choice", imports=imp, check="check_choice", gen=gen_choice, run=run_choice,
               n_quick=320, n_thorough=6000, finding_of=finding_choice, shrink=shrink_rows,
               doc="choice on real streams: weights built from the draws read first"),
        Stream(name="rawchoice", imports=imp, check="check_choice", gen=gen_rawchoice, run=run_rawchoice,
               n_quick=200, n_thorough=4000, corpus=lambda: list(RAW_CORPUS), finding_of=finding_choice, shrink=shrink_rows,
               doc="_choice with harness-chosen draws incl. 0.0 (finding F-G) and 1 - 2**-53"),
    ]
