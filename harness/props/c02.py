"""C02 - A simulant's draw depends only on identity, time and decision point (DESIGN.md section 5, C02).

Tie to the code (model: coq/theories/Stream.v, theorems: coq/props/C02.v):
  stream `req`   : one real randomness world (a SimulationContext with a probe component, or a bare RandomnessManager
                   wired by hand) and a history of 0-25 calls on its streams: get_draw (observed) interleaved with
                   filter_for_probability / filter_for_rate / choice / sample_from_distribution on the same and on
                   other streams, clock steps, and registrations of new simulants.  The block of raw draws is read
                   off a REAL stream without CRN carrying the same key/clock/additional key/seed by single-element
                   requests (the real stream is its own oracle for block); the Coq model must then predict every
                   observed request (subsets, permutations, repeated labels, empty, unknown labels, CRN map empty,
                   positional crn-initialising streams), bit for bit (draws are compared as integers d * 2**53).
  stream `unrel` : two requests for the same 48 simulants whose (decision point, clock, additional key, seed) are
                   equal (-> identical draws, fresh objects) or differ in exactly one component (-> at most 2 of 48
                   positions coincide: 53-bit draws, false-alarm probability < 1e-40); the seed string the
                   implementation built is compared with the model's join.  Open finding F-O (seed built as
                   str(random_seed)+str(additional_seed) without separator; str(additional_key) aliases 1 and '1') is
                   modelled as the code is (kind 2: equal strings, equal draws); its two witnesses are always run,
                   fail the direct oracle and are reported as KNOWN-FINDING.
  stream `mgr`   : a stand-alone RandomnessManager, set up through its public setup(builder) with a minimal stand-in
                   builder, driven as a registry state machine (Stream.v mstep / check_mgr): get_randomness_stream for
                   new and for already registered decision points (both kinds of stream), register_simulants, clock
                   steps, draws on the registered streams, get_seed.  Oracle: duplicates raise RandomnessError and
                   only duplicates; every stream carries the decision point as key, the manager's seed string, the
                   SAME index map object and clock as its siblings; the same streams created in the reverse order
                   (plus one more) in a second manager give bit-identical draws.
In every world with key columns the registered positions are read through the public index_map[Index([label])] after
every registration: each must lie in [0, len(index_map)) and no two simulants may share a block element (Coq: map_wf on
every map, theorem C02_checked_maps_distinct); about 45% of the stand-alone worlds with key columns use a small map
(population 30-80% of a prime map size not dividing 111111), so colliding keys are the rule; draws of distinct
registered simulants must differ pairwise in every observed request.
A quarter of the observed requests go through sample_from_distribution with the identity quantile function (as ppf= and
as scipy's uniform(0,1)): they must return the very same draws (Stream.v sample_from, C02_sample_from_distribution).  In
`ctx` worlds of `unrel` builder.randomness.get_seed is compared too (equal for equal decision point/clock/seed, different
after changing one of them, a valid numpy seed) - python oracle only.
Direct oracle: get_draw(idx)[i] == get_draw([i])[0] == block element at the simulant's mapped position, range
check, repeat/history stability, cross-parameter (in)equality.
"""
import glob
import json
import os
import random

import boot
from core import Result, Stream, VERIF, cbool, clist, copt, cpair, cz, czlist

PROPERTY = "C02"
RULE = ("req: generated worlds (SimulationContext or hand-wired RandomnessManager; CRN off or 1-3 key columns; map sizes "
        "40..1e6; 1-12 initial simulants, births) x histories of 0-25 calls (observed get_draw requests: subset / "
        "permutation / repeated / non-contiguous / full / empty / unknown labels; noise calls filter/rate/choice/sample on "
        "same and other streams; clock steps; registrations) x additional keys None/int/str/tuple. unrel: pairs of "
        "48-simulant requests with equal seed keys or differing in exactly one component (plus the two alias classes "
        "of finding F-O). mgr: stand-alone managers x histories of 4-18 requests (get_randomness_stream incl. duplicates and "
        "positional streams, register_simulants, clock steps, draws, get_seed). distinct = distinct case JSON; trivial = no observed request with >= 2 labels")
ASSUMPTIONS = [
    "block: SHA-1 + numpy RandomState.random_sample give, for equal seed strings, equal blocks with entries k/2**53 in "
    "[0,1) whose first p elements do not depend on the sample size (validated on every draw seen: integrality and range)",
    "IndexMap.update never moves a registered simulant (C03_stable; validated on every registration of every case by "
    "extends_b inside check_req)",
    "'unrelated' is statistical (SHA-1 / MT19937 are not modelled): at most 2 of 48 coincidences of 53-bit draws, "
    "false-alarm probability < 1e-40",
]
TRUSTED = [
    "harness/props/c02.py uses public interfaces only: builder.randomness.get_stream / get_seed / register_simulants in a "
    "SimulationContext, RandomnessManager.setup(builder) with a minimal stand-in builder for the stand-alone manager "
    "worlds, stream.get_draw / sample_from_distribution / key / seed / clock / index_map, len(index_map) and "
    "index_map[Index]. The registered positions are found by type (the pandas Series keyed by the simulant index among "
    "the map object's attributes) with the public lookup as fall-back; the seed string is compared through "
    "RandomnessStream._key only if that helper exists (getattr).",
]
LEVEL_NOTE = ("PARTIAL - pointwise/subset/permutation/repeat/history invariance, [0,1), distinct positions and the seed-string "
              "theorems are proved for all inputs and histories; 'unrelated draws after changing one component' is checked "
              "statistically on real streams only. Known finding F-O (seed concatenation alias) is listed.")

CLAIM = {
    "technique": "Coq proof of a stateless stream model + vm_compute correspondence with the real stream as its own oracle",
    "text": "For every index map, seed key and request the Gallina get_draw returns, for each simulant, the block element "
            "at the simulant's own mapped position: hence the same draw in any subset, order, repetition and after any "
            "history of calls and (position-preserving) registrations; draws lie in [0,1); distinct simulants use "
            "distinct positions; changing exactly one of decision point/clock/additional key/seed changes the string "
            "fed to SHA-1. The manager layer is a registry state machine: over all request histories each decision point "
            "has at most one stream, duplicates are refused without effect, all streams share the seed string and the "
            "index map, and a stream's draws depend neither on which other streams exist nor on creation order nor on "
            "later history. Each run re-ties the model to /repo/src on ~180 generated worlds x call histories (block read "
            "off a CRN-free real stream by single-element requests, bit-for-bit comparison), ~120 manager request histories "
            "and ~100 request pairs; only public interfaces of /repo/src are used.",
    "note": "PARTIAL - 'unrelated draws after a change' is statistical (SHA-1/MT19937 not modelled; <=2 of 48 "
            "coincidences checked on real streams). Trusted: Coq kernel + vm_compute, hand transcription of "
            "stream.py/index_map.__getitem__/manager seed (sampled tie), python harness, numpy/hashlib. Open finding "
            "F-O (seed concatenation without separator; str() of additional keys) is modelled as-is, guarded in "
            "C02_manager_seed_injective_guarded and reported as KNOWN-FINDING.",
}

TWO53 = 2 ** 53
N_UNREL = 48
CORPUS_DIR = os.path.join(VERIF, "corpus", "C02")
KEY_SCHEMAS = [[], [], ["age"], ["uid"], ["entrance_time", "age"], ["uid", "sexi"], ["entrance_time", "age", "sexi"]]
STREAM_NAMES = ["a", "b", "mortality", "age_smoothing", "x_y_z", "incidence.tb"]


def cstr(s):
    return czlist(ord(ch) for ch in str(s))


def zb(n) -> str:
    """Z literal; hexadecimal for large values (coqc reads them ~1.5x faster than decimal)."""
    n = int(n)
    if -4096 < n < 4096:
        return cz(n)
    return f"0x{n:x}%Z" if n >= 0 else f"(-0x{-n:x})%Z"


def zblist(ns) -> str:
    return clist(zb(n) for n in ns)


# ----------------------------------------------------------------------------------------------------------------
# additional keys (JSON-able spec -> python value)
# ----------------------------------------------------------------------------------------------------------------
def addl_of(spec):
    if spec is None:
        return None
    k, v = spec
    if k == "int":
        return int(v)
    if k == "str":
        return str(v)
    if k == "tuple":
        return tuple(addl_of(x) if isinstance(x, list) else x for x in v)
    if k == "float":
        return float(v)
    raise ValueError(spec)


def gen_addl(rng):
    r = rng.random()
    if r < 0.4:
        return None
    if r < 0.6:
        return ["int", rng.choice([0, 1, 2, 7, -3, 10 ** 6])]
    if r < 0.8:
        return ["str", rng.choice(["x", "prob", "a_b", "", "1", "None", "age smoothing"])]
    if r < 0.95:
        return ["tuple", [rng.choice(["x", "y"]), rng.randint(0, 3)]]
    return ["float", rng.choice([0.5, 2.0])]


# ----------------------------------------------------------------------------------------------------------------
# worlds
# ----------------------------------------------------------------------------------------------------------------
def key_frame(labels, key_cols, entrance):
    """Key attributes of simulants: unique per label (age, uid); entrance: label -> timestamp."""
    import pandas as pd
    df = pd.DataFrame({
        "entrance_time": [entrance(l) for l in labels],
        "age": [((l * 37) % 101) + ((l * 6180339) % 10 ** 7) / 10 ** 7 for l in labels],
        "uid": [3 * l + 1 for l in labels],
        "sexi": [l % 2 for l in labels],
    }, index=pd.Index(list(labels), dtype="int64"))
    return df


def make_component(streams, key_cols, births):
    import pandas as pd
    from vivarium import Component

    class StreamProbe(Component):
        def __init__(self):
            super().__init__()
            self.streams = {}

        @property
        def columns_created(self):
            return ["entrance_time", "age", "uid", "sexi"]

        def setup(self, builder):
            for name, crn in streams:
                self.streams[name] = builder.randomness.get_stream(name, initializes_crn_attributes=crn)
            self.register = builder.randomness.register_simulants
            self.get_seed = builder.randomness.get_seed
            self.creator = builder.population.get_simulant_creator()

        def on_initialize_simulants(self, pop_data):
            labels = [int(i) for i in pop_data.index]
            df = key_frame(labels, key_cols, lambda l: pop_data.creation_time)
            df.index = pop_data.index
            if key_cols:
                self.register(df[key_cols])
            self.population_view.update(df)

        def on_time_step(self, event):
            if births:
                self.creator(births)

    return StreamProbe()


def fake_builder(spec, clock_fn):
    """What RandomnessManager.setup(builder) asks of a builder (its PUBLIC entry point), and nothing else: the
    configuration, the clock, and no-op resource / constraint registration."""
    from types import SimpleNamespace as NS
    s0, s1 = spec["seed"]
    conf = NS(randomness=NS(random_seed=s0, additional_seed=s1, key_columns=list(spec["key_cols"]),
                            map_size=spec["map_size"]),
              population=NS(population_size=0))

    def accept(*a, **k):
        return None
    return NS(configuration=conf, time=NS(clock=lambda: clock_fn), resources=NS(add_resources=accept),
              lifecycle=NS(add_constraint=accept), randomness=None)


def read_map(im, labels):
    """The registered (label, position) pairs of an IndexMap, or None if nothing is registered.
    1. by type: whatever attribute of the map object is a pandas Series indexed (at some level) by the simulant index -
       no private NAME is used; 2. otherwise through the public lookup map[Index([label])], one registered label at a
       time (the harness knows which labels it registered)."""
    import pandas as pd
    from vivarium.framework.randomness.exceptions import RandomnessError
    level = getattr(im, "SIM_INDEX_COLUMN", "simulant_index")
    for v in list(vars(im).values()):
        if isinstance(v, pd.Series) and level in (v.index.names or []):
            labs = [int(x) for x in v.index.get_level_values(level)]
            return labs, [int(x) for x in v.to_numpy()]
    labs, poss = [], []
    for l in labels:
        try:
            q = im[pd.Index([l], dtype="int64")]
        except RandomnessError:
            return None                     # "IndexMap is empty"
        except KeyError:
            continue
        labs.append(int(l))
        poss.append(int(q[0]))
    return (labs, poss) if labs else None


class World:
    """Uniform handle on a real randomness set-up, through public interfaces only: builder.randomness.get_stream in a
    SimulationContext, or RandomnessManager.setup(builder) / get_randomness_stream / register_simulants / get_seed on a
    stand-alone manager; stream.get_draw / index_map / clock / seed / key; len(index_map); the registered positions are
    read by type or through the public lookup (read_map)."""

    def __init__(self, spec):
        import pandas as pd
        self.spec = spec
        self.key_cols = list(spec["key_cols"])
        self.births = spec.get("births", 0)
        if spec["world"] == "ctx":
            from vivarium.framework.engine import SimulationContext
            boot.reset_contexts()
            cfg = {"population": {"population_size": spec["pop"]},
                   "randomness": {"key_columns": self.key_cols, "random_seed": spec["seed"][0],
                                  "additional_seed": spec["seed"][1], "map_size": spec["map_size"]},
                   "time": {"start": {"year": 2005, "month": 7, "day": 1}, "end": {"year": 2006, "month": 7, "day": 1},
                            "step_size": spec.get("step_days", 1)}}
            self.comp = make_component(spec["streams"], self.key_cols, self.births)
            self.sim = SimulationContext(components=[self.comp], configuration=cfg, logging_verbosity=0)
            self.sim.setup()
            self.sim.initialize_simulants()
            boot.quiet_logging()
            self.streams = self.comp.streams
            self.n = spec["pop"]
        else:
            from vivarium.framework.randomness.index_map import IndexMap
            from vivarium.framework.randomness.manager import RandomnessManager
            c0 = spec["clock0"]
            self.now = [pd.Timestamp(c0[1]) if c0[0] == "ts" else int(c0[1])]
            self.mgr = RandomnessManager()
            self.mgr.setup(fake_builder(spec, lambda: self.now[0]))
            self.streams = {name: self.mgr.get_randomness_stream(name, crn) for name, crn in spec["streams"]}
            self.n = 0
            if spec["pop"] and not spec.get("late_registration"):
                self.register(spec["pop"])
            self.pending = spec["pop"] if spec.get("late_registration") else 0

    @property
    def imap(self):
        return next(iter(self.streams.values())).index_map

    def clock(self):
        return next(iter(self.streams.values())).clock()

    def register(self, k):
        import pandas as pd
        labels = list(range(self.n, self.n + k))
        df = key_frame(labels, self.key_cols, lambda l: pd.Timestamp("2000-01-01") + pd.Timedelta(days=l))
        import signal

        def hung(sig, frame):
            raise TimeoutError("register_simulants did not return within 30 s (collision resolution does not terminate)")
        old = signal.signal(signal.SIGALRM, hung)
        signal.alarm(30)
        try:
            self.mgr.register_simulants(df)
        finally:
            signal.alarm(0)
            signal.signal(signal.SIGALRM, old)
        self.n += k

    def step(self):
        import pandas as pd
        if self.spec["world"] == "ctx":
            self.sim.step()
            self.n += self.births               # the probe component creates `births` simulants on every time step
        else:
            c = self.now[0]
            self.now[0] = c + pd.Timedelta(days=1) if isinstance(c, pd.Timestamp) else c + 1

    def labels(self):
        return list(range(self.n))

    def map_assoc(self):
        """The registered (label, position) pairs as a Coq association list, or None (CRN off / nothing registered)."""
        if not self.key_cols:
            return None
        pairs = read_map(self.imap, self.labels())
        if pairs is None:
            return None
        labs, poss = pairs
        return assoc_literal(labs, poss), dict(zip(labs, poss))

    def map_literal(self):
        """(coq literal, dict label->pos or None, size)"""
        im = self.imap
        size = len(im)
        if not self.key_cols:
            return f"(NoCRN {cz(size)})", None, size
        a = self.map_assoc()
        if a is None:
            return f"(CRN {cz(size)} None)", {}, size
        return f"(CRN {cz(size)} (Some {a[0]}))", a[1], size

    def twin(self, stream):
        """A real CRN-free stream with the same key, clock and seed: position p of the block = its draw for label p."""
        from vivarium.framework.randomness.index_map import IndexMap
        from vivarium.framework.randomness.stream import RandomnessStream
        return RandomnessStream(stream.key, stream.clock, stream.seed, IndexMap(size=len(self.imap)))


def next_prime(n):
    """Next prime >= n that does not divide 111111 = 3*7*11*13*37: IndexMap spreads an integer salt by *111111, so in a map
    whose size divides 111111 re-salting moves nothing and the real collision loop never ends (liveness, DESIGN.md F-J)."""
    n = max(int(n), 5)
    while any(n % q == 0 for q in range(2, int(n ** 0.5) + 1)) or 111111 % n == 0:
        n += 1
    return n


def dense_map_size(rng, total):
    """A map in which `total` simulants fill 30-80% of the positions.  Prime, so that the salt walk of the collision
    resolution (step = number of key columns) reaches every position and the real loop terminates (DESIGN.md F-J)."""
    return next_prime(total / rng.uniform(0.3, 0.8) + 1)


def position_problems(im, labels, size):
    """Through the PUBLIC lookup index_map[Index([label])]: every registered simulant's position must be a valid index of
    the block, 0 <= p < len(index_map), and no two simulants may share a block element."""
    import pandas as pd
    seen = {}
    for l in labels:
        try:
            q = int(im[pd.Index([l], dtype="int64")][0])
        except Exception:
            continue
        if not (0 <= q < size):
            return f"registered simulant {l} has position {q} outside [0, {size})"
        eff = q % size
        if eff in seen:
            return f"simulants {seen[eff]} and {l} share block element {eff}: they get identical draws at every time and key"
        seen[eff] = l
    return None


def assoc_literal(labs, poss):
    return clist(cpair(cz(a), cz(b)) for a, b in zip(labs, poss))


def np_wrap(size, p):
    if 0 <= p < size:
        return p
    if -size <= p < 0:
        return p + size
    return None


def resolve_idx(recipe, labels, size):
    """Deterministic request index from a recipe and the labels that exist now."""
    mode, r = recipe
    rng = random.Random(r)
    L = list(labels)
    if mode == "empty" or (not L and mode != "bad"):
        return []
    if mode == "full":
        return L
    if mode == "perm":
        rng.shuffle(L)
        return L
    if mode == "subset":
        k = rng.randint(1, len(L))
        return sorted(rng.sample(L, k))
    if mode == "subperm":
        k = rng.randint(1, len(L))
        return rng.sample(L, k)
    if mode == "noncontig":
        step = rng.randint(2, 4)
        start = rng.randrange(len(L))
        out = L[start::step]
        return out[::-1] if rng.random() < 0.3 else out
    if mode == "repeat":
        k = rng.randint(2, max(2, min(2 * len(L), 14)))
        return [rng.choice(L) for _ in range(k)]
    if mode == "single":
        return [rng.choice(L)]
    if mode == "bad":
        bad = rng.choice([len(L), len(L) + 3, size, size + 5, -1, -size, -size - 1, -2])
        out = (rng.sample(L, min(len(L), 2)) if L else []) + [bad]
        rng.shuffle(out)
        return out
    raise ValueError(mode)


IDX_MODES = ["full", "perm", "perm", "subset", "subset", "subperm", "subperm", "noncontig", "repeat", "repeat", "single",
             "empty", "bad"]


def gen_req(rng: random.Random):
    world = rng.choice(["ctx", "ctx", "mgr", "mgr", "mgr"])
    key_cols = rng.choice(KEY_SCHEMAS)
    names = rng.sample(STREAM_NAMES, rng.randint(2, 4))
    streams = [[n, (rng.random() < 0.2)] for n in names]
    if all(c for _, c in streams):
        streams[0][1] = False
    pop = rng.choice([1, 2, 3, 5, 8, 12, 20])
    spec = {"world": world, "key_cols": key_cols, "streams": streams, "pop": pop,
            "map_size": rng.choice([40, 64, 150, 150, 1000, 1000, 5000, 20000] if rng.random() < 0.95 else [1_000_000]),
            "seed": [rng.choice([0, 1, 12, 123, 98765]), rng.choice([None, None, 3, 23, 0])],
            "births": rng.choice([0, 0, 1, 2, 3])}
    dense = world == "mgr" and key_cols and rng.random() < 0.45
    if world == "mgr":
        spec["clock0"] = rng.choice([["ts", "2021-03-04"], ["ts", "1999-12-31 12:00:00"], ["int", 0], ["int", 17]])
        spec["late_registration"] = rng.random() < 0.25
    else:
        spec["step_days"] = rng.choice([1, 1, 3, 0.5])
    ops = []
    n_ops = rng.choice([1, 2, 3, 5, 8, 12, 18, 25])
    nreg = 0
    for _ in range(n_ops):
        r = rng.random()
        s = rng.randrange(len(streams))
        if r < 0.55:
            ops.append({"op": "draw", "stream": s, "idx": [rng.choice(IDX_MODES), rng.getrandbits(30)], "addl": gen_addl(rng),
                        "via": rng.choice(["get_draw", "get_draw", "get_draw", "sample_ppf", "sample_dist"])})
        elif r < 0.80:
            ops.append({"op": rng.choice(["filter", "rate", "choice", "sample", "draw_noise"]), "stream": s,
                        "idx": [rng.choice(IDX_MODES[:-1]), rng.getrandbits(30)], "addl": gen_addl(rng)})
        elif r < 0.90:
            ops.append({"op": "step"})
        elif world == "mgr" and nreg < 4:
            ops.append({"op": "register", "k": rng.randint(1, 4)})
            nreg += 1
        else:
            ops.append({"op": "repeat_last"})
    # make sure something is observed, and that a request is repeated after the whole history
    ops.append({"op": "draw", "stream": 0 if not streams[0][1] else 1 % len(streams),
                "idx": [rng.choice(["perm", "subperm", "repeat", "full"]), rng.getrandbits(30)], "addl": gen_addl(rng)})
    ops.append({"op": "repeat_last"})
    spec["ops"] = ops
    if dense:
        # population 30-80% of the map (all registrations of the history included): colliding keys are the rule
        total = pop + sum(o.get("k", 0) for o in ops if o["op"] == "register")
        spec["map_size"] = dense_map_size(rng, total)
        spec["dense"] = True
    return spec


def to_int(d):
    x = float(d) * TWO53
    return int(x), (x == int(x))


def run_req(case):
    return _run_req(case)


def _run_req(case):
    import numpy as np
    import pandas as pd
    from scipy import stats
    from vivarium.framework.randomness.exceptions import RandomnessError

    w = World(case)
    names = [n for n, _ in case["streams"]]
    crn_flag = {n: bool(c) for n, c in case["streams"]}
    lit0, mp, size = w.map_literal()
    ok, msg = True, ""

    def fail(m):
        nonlocal ok, msg
        if ok:
            ok, msg = False, m

    sk_ids = {}
    table = {}           # sk id -> {pos: int draw}
    cops = []
    trace = []
    tags = {f"world_{case['world']}", f"keycols{len(case['key_cols'])}"}
    last = None          # (stream name, idx, addl spec, clock, result ints or None)
    nontrivial = False
    if case.get("late_registration") and w.pending:
        pending_at = max(1, len(case["ops"]) // 3)
    else:
        pending_at = None

    def block_at(stream, addl, positions):
        """Fill the table from the CRN-free twin, single-element requests only."""
        key = (stream.key, str(w.clock()), str(addl))
        sid = sk_ids.setdefault(key, len(sk_ids))
        t = table.setdefault(sid, {})
        tw = None
        for p in positions:
            if p in t:
                continue
            tw = tw or w.twin(stream)
            d = tw.get_draw(pd.Index([p], dtype="int64"), addl)
            di, integral = to_int(d.iloc[0])
            if not integral or not (0 <= di < TWO53):
                fail(f"block element {p} = {d.iloc[0]!r} is not k/2**53 in [0,1)")
            t[p] = di
        return sid, t

    def check_positions():
        if case["key_cols"]:
            prob = position_problems(w.imap, w.labels(), len(w.imap))
            if prob:
                fail(prob)

    check_positions()

    def observe(sname, idx, addl_spec, via="get_draw"):
        nonlocal mp, size, nontrivial
        stream = w.streams[sname]
        addl = addl_of(addl_spec)
        index = pd.Index(idx, dtype="int64")
        _, mp, size = w.map_literal()
        try:
            # sample_from_distribution = ppf(get_draw(index, additional_key)): with the identity quantile function
            # (given as ppf or as scipy's uniform(0, 1)) it must return the very same draws (Stream.v [sample_from])
            if via == "sample_ppf":
                res = stream.sample_from_distribution(index, ppf=lambda q, **kw: q, additional_key=addl)
            elif via == "sample_dist":
                res = stream.sample_from_distribution(index, distribution=stats.uniform, additional_key=addl)
            else:
                res = stream.get_draw(index, addl)
            tags.add(f"via_{via}")
            code = 0
        except RandomnessError:
            res, code = None, 1
        except Exception:
            res, code = None, 2
        ints = []
        if code == 0:
            if list(res.index) != list(idx) or str(res.dtype) != "float64":
                fail(f"get_draw returned index {list(res.index)} / dtype {res.dtype} for request {idx}")
            for d in res.tolist():
                di, integral = to_int(d)
                if not integral or not (0.0 <= d < 1.0):
                    fail(f"draw {d!r} outside [0,1) or not a multiple of 2**-53")
                ints.append(di)
        # positions the model will look at
        if crn_flag[sname]:
            positions = list(range(min(len(idx), size)))
        else:
            positions = []
            for l in idx:
                p = l if mp is None else mp.get(l)
                p = None if p is None else np_wrap(size, p)
                if p is not None:
                    positions.append(p)
        sid, t = block_at(stream, addl, positions) if idx else (sk_ids.setdefault((stream.key, str(w.clock()), str(addl)), len(sk_ids)), {})
        # ---- direct oracle ----
        if code == 0 and idx:
            if crn_flag[sname]:
                if ints != [t[p] for p in range(len(idx))]:
                    fail(f"crn-initialising stream {sname}: request {idx} is not the first {len(idx)} block elements")
            else:
                seen = {}
                for l, di in zip(idx, ints):
                    if seen.setdefault(l, di) != di:
                        fail(f"label {l} got two different draws inside one request {idx}")
                by_draw = {}
                for l, di in seen.items():
                    if 0 <= l < w.n and by_draw.setdefault(di, l) != l:        # real (registered) simulants only
                        fail(f"stream {sname} addl {addl!r}: distinct simulants {by_draw[di]} and {l} got the identical "
                             f"draw {di}/2^53 (same block element)")
                for l in sorted(set(idx)):
                    one = stream.get_draw(pd.Index([l], dtype="int64"), addl)
                    oi, _ = to_int(one.iloc[0])
                    if oi != seen[l]:
                        fail(f"stream {sname} addl {addl!r}: draw of simulant {l} inside request {idx} is {seen[l]}/2^53 "
                             f"but alone it is {oi}/2^53")
                    p = l if mp is None else mp.get(l)
                    p = np_wrap(size, p)
                    if t.get(p) != seen[l]:
                        fail(f"stream {sname}: draw of simulant {l} is not the block element at its position {p}")
            if len(set(idx)) >= 2:
                nontrivial = True
        cops.append(f"CCall {cbool(crn_flag[sname])} {cz(sid)} {czlist(idx)} {cpair(cz(code), zblist(ints))}")
        trace.append([sname, idx, repr(addl), str(w.clock()), code, ints[:6]])
        tags.add(f"code{code}")
        return ints if code == 0 else None

    for i, o in enumerate(case["ops"]):
        if pending_at is not None and i == pending_at:
            w.register(w.pending)
            w.pending = 0
            check_positions()
            if w.map_assoc() is not None:
                cops.append("CRegister " + w.map_assoc()[0])
        kind = o["op"]
        if kind == "step":
            before = w.map_assoc()
            w.step()
            check_positions()
            after = w.map_assoc()
            if after is not None and (before is None or after[0] != before[0]):
                cops.append("CRegister " + after[0])
            tags.add("step")
            continue
        if kind == "register":
            w.register(o["k"])
            check_positions()
            if w.map_assoc() is not None:
                cops.append("CRegister " + w.map_assoc()[0])
            tags.add("register")
            continue
        if kind == "repeat_last":
            if last is not None:
                sname, idx, addl_spec, clk, ints = last
                again = observe(sname, idx, addl_spec)
                if clk == str(w.clock()) and ints is not None and again != ints:
                    fail(f"the same request {idx} on stream {sname} at the same time gave different draws after "
                         f"intervening calls")
                tags.add("repeat_last")
            continue
        sname = names[o["stream"]]
        stream = w.streams[sname]
        _, mp, size = w.map_literal()
        idx = resolve_idx(o["idx"], w.labels(), size)
        addl = addl_of(o["addl"])
        tags.add(f"idx_{o['idx'][0]}")
        tags.add("addl_" + (o["addl"][0] if o["addl"] else "none"))
        if kind == "draw":
            ints = observe(sname, idx, o["addl"], o.get("via", "get_draw"))
            last = (sname, idx, o["addl"], str(w.clock()), ints)
            continue
        # noise calls: results are not observed here (C05 does that); they must not disturb later draws
        index = pd.Index(idx, dtype="int64")
        try:
            if kind == "filter":
                stream.filter_for_probability(index, 0.5, addl)
            elif kind == "rate":
                stream.filter_for_rate(index, 0.7, addl)
            elif kind == "choice":
                stream.choice(index, ["x", "y", "z"], [0.25, 0.25, 0.5], addl)
            elif kind == "sample":
                stream.sample_from_distribution(index, stats.norm, additional_key=addl, loc=1.0, scale=2.0)
            else:
                stream.get_draw(index, addl)
        except Exception:
            pass
        tags.add(f"noise_{kind}")
    tbl = clist(cpair(cz(sid), clist(cpair(cz(p), zb(d)) for p, d in sorted(t.items()))) for sid, t in sorted(table.items()))
    coq = "(" + cpair(lit0, tbl, clist(cops)) + " : req_case)"      # the cast fixes the type of every [] / None inside
    return Result(ok=ok, msg=msg, coq=coq, key=json.dumps(case, sort_keys=True) if nontrivial else None,
                  obs={"trace": trace[:12]}, tags=tuple(sorted(tags)))


# ----------------------------------------------------------------------------------------------------------------
# stream `unrel`
# ----------------------------------------------------------------------------------------------------------------
def clock_of(spec):
    import pandas as pd
    k, v = spec
    return pd.Timestamp(v) if k == "ts" else (int(v) if k == "int" else str(v))


def gen_unrel(rng: random.Random):
    world = rng.choice(["direct", "direct", "ctx"])
    if rng.random() < 0.04:
        return gen_alias(rng, world)          # finding F-O's class (reported as KNOWN-FINDING, never as a violation)
    vary = rng.choice(["key", "clock", "addl", "seed", "none"])
    base = {"key": rng.choice(STREAM_NAMES + ["a_b", "death", "q"]),
            "addl": gen_addl(rng),
            "seed": [rng.choice([0, 1, 12, 45, 123456]), rng.choice([None, None, 0, 7, 23])]}
    other = dict(base)
    if world == "direct":
        base["clock"] = rng.choice([["ts", "2005-07-01"], ["ts", "2020-02-29 06:00:00"], ["int", 0], ["int", 12], ["str", "t_3"]])
    else:
        base["clock"] = ["steps", rng.randint(0, 2)]
    other["clock"] = base["clock"]
    for _ in range(50):
        if vary == "key":
            other["key"] = rng.choice(STREAM_NAMES + ["a_b", "death", "q", base["key"] + "_", base["key"] + "1"])
        elif vary == "clock":
            if world == "direct":
                k, v = base["clock"]
                other["clock"] = rng.choice([["ts", "2005-07-02"], ["ts", "2005-07-01 00:00:01"], ["int", 1], ["int", 13],
                                             ["str", "t_4"], ["int", 120]])
            else:
                other["clock"] = ["steps", base["clock"][1] + rng.randint(1, 2)]
        elif vary == "addl":
            other["addl"] = gen_addl(rng)
        elif vary == "seed":
            other["seed"] = [rng.choice([0, 1, 2, 12, 45, 123456, 99]), rng.choice([None, 0, 7, 23, 3])]
        if vary == "none" or _strings(base) != _strings(other) and _diff_count(base, other) == 1:
            break
    else:
        vary = "none"
        other = dict(base)
    return {"world": world, "vary": vary, "a": base, "b": other}


def _seed_str(seed):
    return str(seed[0]) + (str(seed[1]) if seed[1] is not None else "")


def _clock_str(c):
    import pandas as pd
    if c[0] == "steps":
        return str(pd.Timestamp("2005-07-01") + pd.Timedelta(days=c[1]))
    return str(clock_of(c))


def _strings(side):
    return (side["key"], _clock_str(side["clock"]), str(addl_of(side["addl"])), _seed_str(side["seed"]))


def _diff_count(a, b):
    return sum(1 for x, y in zip(_strings(a), _strings(b)) if x != y)


def _draw_n(world, side):
    """Returns (observed seed string, stream.seed, list of N_UNREL ints, all_ok)."""
    import pandas as pd
    from vivarium.framework.randomness.index_map import IndexMap
    from vivarium.framework.randomness.stream import RandomnessStream
    addl = addl_of(side["addl"])
    if world == "direct":
        c = clock_of(side["clock"])
        stream = RandomnessStream(side["key"], lambda: c, _seed_str(side["seed"]), IndexMap(size=2000))
    else:
        spec = {"world": "ctx", "key_cols": [], "streams": [[side["key"], False]],
                "pop": N_UNREL, "map_size": 1000, "seed": side["seed"], "births": 0}
        w = World(spec)
        for _ in range(side["clock"][1]):
            w.step()
        stream = w.streams[side["key"]]
        try:
            side["_get_seed"] = int(w.comp.get_seed(side["key"]))      # builder.randomness.get_seed at the same clock time
        except Exception as e:
            side["_get_seed"] = f"raised {type(e).__name__}"
    d = stream.get_draw(pd.Index(range(N_UNREL)), addl)
    ints, good = [], True
    for x in d.tolist():
        i, integral = to_int(x)
        good = good and integral and 0.0 <= x < 1.0
        ints.append(i)
    keyfn = getattr(stream, "_key", None)        # private: the seed string is compared only when it can be observed
    observed = keyfn(addl) if callable(keyfn) else "_".join(_strings(side)[:3] + (str(stream.seed),))
    return observed, stream.seed, ints, good


ALIAS_KINDS = ("seedcfg_alias", "addl_alias")


def run_unrel(case):
    a, b = case["a"], case["b"]
    sa = _draw_n(case["world"], a)
    sb = _draw_n(case["world"], b)
    same = sum(1 for x, y in zip(sa[2], sb[2]) if x == y)
    ok, msg, cls = True, "", None
    vary = case["vary"]
    expect_equal = vary == "none"
    if not (sa[3] and sb[3]):
        ok, msg = False, "a draw is outside [0,1) or not a multiple of 2**-53"
    elif expect_equal and same != N_UNREL:
        ok, msg = False, (f"two fresh streams with the same decision point, clock, additional key and seed {_strings(a)} "
                          f"agree on only {same} of {N_UNREL} draws")
    elif not expect_equal and same > 2:
        ok, msg = False, (f"requests differing only in {vary} ({_strings(a)} vs {_strings(b)}; configured seeds "
                          f"{a['seed']} vs {b['seed']}; additional keys {addl_of(a['addl'])!r} vs {addl_of(b['addl'])!r}) "
                          f"coincide on {same} of {N_UNREL} draws")
        # finding F-O: the two sides differ as configured VALUES but not after str()/concatenation, nothing else differs
        if vary in ALIAS_KINDS and _strings(a) == _strings(b) and same == N_UNREL:
            cls = "F-O"

    # get_seed(decision_point) = hash of (decision point, clock, seed): equal for equal triples, different otherwise, and
    # a valid numpy seed (python oracle only; SHA-1 is not modelled).  Only in `ctx` worlds (builder interface).
    ga, gb = a.pop("_get_seed", None), b.pop("_get_seed", None)
    if ok and ga is not None:
        if not (isinstance(ga, int) and isinstance(gb, int) and 0 <= ga < 2 ** 32 - 1 and 0 <= gb < 2 ** 32 - 1):
            ok, msg = False, f"get_seed returned {ga!r} / {gb!r}: not a valid numpy seed"
        elif vary in ("none", "addl", "addl_alias") and ga != gb:
            ok, msg = False, f"get_seed differs ({ga} vs {gb}) although decision point, clock and seed are equal: {_strings(a)}"
        elif vary in ("key", "clock", "seed") and ga == gb:
            ok, msg = False, f"get_seed is the same ({ga}) after changing {vary}: {_strings(a)} vs {_strings(b)}"

    def side(s, obs):
        k = _strings(s)
        sk = "{| sk_key := %s; sk_clock := %s; sk_addl := %s; sk_seed := %s |}" % (cstr(k[0]), cstr(k[1]), cstr(k[2]), cstr(obs[1]))
        cfg = cpair(cstr(s["seed"][0]), copt(s["seed"][1], cstr))
        return cpair(sk, cfg, cstr(obs[0]), zblist(obs[2]))
    # model kinds (Stream.v check_unrel): 0 equal strings -> equal draws; 1 exactly one string differs -> unrelated;
    # 2 configured seeds differ but concatenate equally -> equal strings and draws (F-O, modelled as the code is).
    # An additional-key alias (1 vs '1') is invisible at the level of strings: kind 0.
    kind = 0 if vary in ("none", "addl_alias") else 2 if vary == "seedcfg_alias" else 1
    coq = "(" + cpair(cz(kind), side(a, sa), side(b, sb)) + " : unrel_case)"
    return Result(ok=ok, msg=msg, coq=coq, key=json.dumps(case, sort_keys=True),
                  obs={"seed_strings": [sa[0], sb[0]], "coincide": same, "first": [sa[2][:3], sb[2][:3]], "class": cls},
                  tags=(f"vary_{vary}", f"world_{case['world']}",
                        "coincide_%s" % ("all" if same == N_UNREL else min(same, 3))))


def finding_unrel(case, res):
    """F-O: the configured (random_seed, additional_seed) pairs - or the additional keys - differ as values but are equal
    after string conversion / concatenation, everything else being equal, and the draws are identical (class set by the
    oracle only in exactly that situation)."""
    if isinstance(res.obs, dict) and res.obs.get("class") == "F-O":
        return "F-O"
    return None


def gen_alias(rng, world):
    base = {"key": rng.choice(STREAM_NAMES), "addl": None, "seed": [1, 23],
            "clock": ["ts", "2005-07-01"] if world == "direct" else ["steps", rng.randint(0, 1)]}
    other = dict(base)
    if rng.random() < 0.5:
        sa, sb = rng.choice([([1, 23], [12, 3]), ([12, None], [1, 2]), ([98, 765], [9876, 5])])
        base["seed"], other["seed"] = list(sa), list(sb)
        return {"world": world, "vary": "seedcfg_alias", "a": base, "b": other}
    base["addl"], other["addl"] = rng.choice([(["int", 1], ["str", "1"]), (None, ["str", "None"]), (["int", 7], ["str", "7"])])
    return {"world": world, "vary": "addl_alias", "a": base, "b": other}


# the two witnesses of finding F-O (DESIGN.md section 7 / known_findings.json): always run
FO_CORPUS = [
    {"world": "ctx", "vary": "seedcfg_alias",
     "a": {"key": "mortality", "addl": None, "seed": [1, 23], "clock": ["steps", 0]},
     "b": {"key": "mortality", "addl": None, "seed": [12, 3], "clock": ["steps", 0]}},
    {"world": "direct", "vary": "addl_alias",
     "a": {"key": "mortality", "addl": ["int", 1], "seed": [0, None], "clock": ["ts", "2005-07-01"]},
     "b": {"key": "mortality", "addl": ["str", "1"], "seed": [0, None], "clock": ["ts", "2005-07-01"]}},
]


# ----------------------------------------------------------------------------------------------------------------
# stream `mgr`: the manager as a registry state machine (Stream.v mstep / check_mgr)
# ----------------------------------------------------------------------------------------------------------------
MGR_NAMES = ["a", "b", "mortality", "x_y_z", "incidence.tb"]


def gen_mgr(rng: random.Random):
    spec = {"world": "mgr", "key_cols": rng.choice(KEY_SCHEMAS), "streams": [], "pop": 0,
            "map_size": rng.choice([64, 150, 1000, 5000]), "seed": [rng.choice([0, 1, 12, 98765]), rng.choice([None, None, 3, 23])],
            "clock0": rng.choice([["ts", "2021-03-04"], ["int", 0], ["int", 17]])}
    ops = [{"op": "get", "dp": rng.choice(MGR_NAMES), "crn": rng.random() < 0.2}]
    if rng.random() < 0.8:
        ops.append({"op": "register", "k": rng.randint(1, 6)})
    nreg = 1
    for _ in range(rng.choice([2, 4, 6, 9, 14])):
        r = rng.random()
        if r < 0.30:
            ops.append({"op": "get", "dp": rng.choice(MGR_NAMES), "crn": rng.random() < 0.2})
        elif r < 0.65:
            ops.append({"op": "draw", "which": rng.getrandbits(8), "idx": [rng.choice(IDX_MODES), rng.getrandbits(30)],
                        "addl": gen_addl(rng)})
        elif r < 0.80:
            ops.append({"op": "get_seed", "dp": rng.choice(MGR_NAMES + ["never_created"])})
        elif r < 0.90:
            ops.append({"op": "step"})
        elif nreg < 4:
            ops.append({"op": "register", "k": rng.randint(1, 4)})
            nreg += 1
    ops.append({"op": "draw", "which": 0, "idx": ["perm", rng.getrandbits(30)], "addl": None})
    spec["ops"] = ops
    if spec["key_cols"] and rng.random() < 0.5:
        spec["map_size"] = dense_map_size(rng, sum(o.get("k", 0) for o in ops if o["op"] == "register"))
        spec["dense"] = True
    return spec


def shrink_ops(case):
    """Smaller variants of a history case: drop one operation; fewer initial simulants / births / streams' extras."""
    import copy
    ops = case.get("ops", [])
    for i in range(len(ops)):
        c = copy.deepcopy(case)
        del c["ops"][i]
        yield c
    for key, smaller in (("pop", lambda v: v // 2), ("births", lambda v: 0), ("late_registration", lambda v: False)):
        if case.get(key):
            c = copy.deepcopy(case)
            c[key] = smaller(case[key])
            if c[key] != case[key]:
                yield c
    for i, o in enumerate(ops):
        if o.get("addl") is not None:
            c = copy.deepcopy(case)
            c["ops"][i]["addl"] = None
            yield c
        if o.get("op") == "register" and o.get("k", 1) > 1:
            c = copy.deepcopy(case)
            c["ops"][i]["k"] = 1
            yield c


def shrink_unrel(case):
    import copy
    if case["a"].get("addl") is not None and case["a"].get("addl") == case["b"].get("addl"):
        c = copy.deepcopy(case)
        c["a"]["addl"] = c["b"]["addl"] = None
        yield c
    if case["world"] == "ctx" and case["a"]["clock"][0] == "steps" and min(case["a"]["clock"][1], case["b"]["clock"][1]) > 0:
        c = copy.deepcopy(case)
        c["a"]["clock"][1] -= 1
        c["b"]["clock"][1] -= 1
        yield c


def run_mgr(case):
    import pandas as pd
    from vivarium.framework.randomness.exceptions import RandomnessError
    w = World(case)
    ok, msg = True, ""

    def fail(m):
        nonlocal ok, msg
        if ok:
            ok, msg = False, m

    size = case["map_size"]
    crn_world = bool(case["key_cols"])
    lit0 = f"(CRN {cz(size)} None)" if crn_world else f"(NoCRN {cz(size)})"
    seed_str = _seed_str(case["seed"])
    dp_ids, created = {}, {}        # name -> id ; name -> (stream, crn)
    sk_ids, table, mops, trace = {}, {}, [], []
    steps = 0
    last_map = [None]
    tags = {f"keycols{len(case['key_cols'])}"}
    script = []                     # what a second manager has to replay (registrations and clock steps)

    def dp_id(name):
        return dp_ids.setdefault(name, len(dp_ids))

    def current_map():
        if not crn_world or not created:
            return None
        im = next(iter(created.values()))[0].index_map
        pairs = read_map(im, list(range(w.n)))
        return None if pairs is None else dict(zip(*pairs))

    for o in case["ops"]:
        kind = o["op"]
        if kind == "get":
            name, crn = o["dp"], bool(o["crn"])
            try:
                st = w.mgr.get_randomness_stream(name, crn)
                code = 0
            except RandomnessError:
                st, code = None, 1
            if (code == 1) != (name in created):
                fail(f"get_randomness_stream({name!r}) {'raised' if code else 'succeeded'} although the decision point "
                     f"{'was not' if code else 'was'} created before")
            if code == 0:
                others = [x[0] for x in created.values()]
                if st.key != name or str(st.seed) != seed_str or bool(st.initializes_crn_attributes) != crn:
                    fail(f"stream for {name!r} carries key {st.key!r}, seed {st.seed!r}, crn flag "
                         f"{st.initializes_crn_attributes!r}; expected {name!r}, {seed_str!r}, {crn}")
                if any(st.index_map is not x.index_map for x in others) or any(st.clock() != x.clock() for x in others):
                    fail(f"stream {name!r} does not share the index map / clock of the manager's other streams")
                created[name] = (st, crn)
            mops.append(f"MGet {cz(dp_id(name))} {cbool(crn)} {cz(code)} {cstr(st.seed) if code == 0 else '[]'}")
            trace.append(["get", name, crn, code])
            tags.add(f"get_code{code}")
        elif kind == "register":
            w.register(o["k"])
            script.append(("register", o["k"]))
            if crn_world and created:
                prob = position_problems(next(iter(created.values()))[0].index_map, list(range(w.n)), size)
                if prob:
                    fail(prob)
            tags.add("register")          # the shared map is read (through a stream) and passed to the model before the next draw
        elif kind == "step":
            w.step()
            steps += 1
            script.append(("step",))
        elif kind == "get_seed":
            try:
                v = int(w.mgr.get_seed(o["dp"]))
            except Exception as e:
                fail(f"get_seed({o['dp']!r}) raised {type(e).__name__}: {e}")
                continue
            mops.append(f"MSeed {cz(dp_id(o['dp']))} {cz(steps)} {zb(v)}")
            trace.append(["get_seed", o["dp"], steps, v])
            tags.add("get_seed")
        elif kind == "draw":
            if not created:
                continue
            name = sorted(created)[o["which"] % len(created)]
            st, crn = created[name]
            mp = current_map()
            if crn_world:
                prob = position_problems(st.index_map, list(range(w.n)), size)
                if prob:
                    fail(prob)
            if mp and mp != last_map[0]:
                mops.append("MReg " + assoc_literal(*zip(*sorted(mp.items()))))
                last_map[0] = dict(mp)
            idx = resolve_idx(o["idx"], list(range(w.n)), size)
            addl = addl_of(o["addl"])
            index = pd.Index(idx, dtype="int64")
            try:
                res = st.get_draw(index, addl)
                code = 0
            except RandomnessError:
                res, code = None, 1
            except Exception:
                res, code = None, 2
            ints = []
            if code == 0:
                for d in res.tolist():
                    di, integral = to_int(d)
                    if not integral or not (0.0 <= d < 1.0):
                        fail(f"draw {d!r} outside [0,1) or not a multiple of 2**-53")
                    ints.append(di)
            if crn:
                positions = list(range(min(len(idx), size)))
            else:
                positions = []
                for l in idx:
                    q = l if not crn_world else (mp or {}).get(l)
                    q = None if q is None else np_wrap(size, q)
                    if q is not None:
                        positions.append(q)
            key = (name, str(st.clock()), str(addl))
            sid = sk_ids.setdefault(key, len(sk_ids))
            t = table.setdefault(sid, {})
            if idx:
                from vivarium.framework.randomness.index_map import IndexMap
                from vivarium.framework.randomness.stream import RandomnessStream
                tw = RandomnessStream(st.key, st.clock, st.seed, IndexMap(size=size))
                for q in positions:
                    if q not in t:
                        t[q] = to_int(tw.get_draw(pd.Index([q], dtype="int64"), addl).iloc[0])[0]
            if code == 0 and idx and not crn:
                by_draw = {}
                for l, di in zip(idx, ints):
                    if 0 <= l < w.n and by_draw.setdefault(di, l) != l:        # real (registered) simulants only
                        fail(f"stream {name!r}: distinct simulants {by_draw[di]} and {l} got the identical draw {di}/2^53")
                for l, di in zip(idx, ints):
                    q = l if not crn_world else (mp or {}).get(l)
                    q = None if q is None else np_wrap(size, q)
                    if t.get(q) != di:
                        fail(f"stream {name!r}: draw of simulant {l} is not the block element at its position {q}")
            mops.append(f"MCall {cz(dp_id(name))} {cz(sid)} {czlist(idx)} {cpair(cz(code), zblist(ints))}")
            trace.append(["draw", name, idx, code])
            tags.add(f"draw_code{code}")
    # ---- direct oracle: which other streams exist and the order of creation do not matter ----
    if ok and created:
        spec2 = dict(case, ops=[])
        w2 = World(spec2)
        s2 = {}
        for name in reversed(list(created)):
            s2[name] = w2.mgr.get_randomness_stream(name, created[name][1])
        w2.mgr.get_randomness_stream("an_additional_stream", False)
        for sc in script:
            if sc[0] == "register":
                w2.register(sc[1])
            else:
                w2.step()
        labels = list(range(w.n))
        if labels:
            index = pd.Index(labels, dtype="int64")
            for name, (st, crn) in created.items():
                try:
                    d1 = st.get_draw(index, "k").tolist()
                except Exception:
                    continue                      # e.g. a positional stream asked for more draws than the block holds
                d2 = s2[name].get_draw(index, "k").tolist()
                if d1 != d2:
                    fail(f"stream {name!r} gives different draws in a manager whose streams were created in the reverse "
                         f"order (plus one more stream): the draws depend on the other streams")
    tbl = clist(cpair(cz(sid), clist(cpair(cz(q), zb(d)) for q, d in sorted(t.items()))) for sid, t in sorted(table.items()))
    cfg = cpair(cstr(case["seed"][0]), copt(case["seed"][1], cstr))
    coq = "(" + cpair(cfg, lit0, tbl, clist(mops)) + " : mgr_case)"
    nontrivial = len(created) >= 1 and any(t[0] == "draw" for t in trace)
    return Result(ok=ok, msg=msg, coq=coq, key=json.dumps(case, sort_keys=True) if nontrivial else None,
                  obs={"trace": trace[:14]}, tags=tuple(sorted(tags)) + (f"streams{min(len(created), 4)}",))


def corpus(stream):
    out = []
    for p in sorted(glob.glob(os.path.join(CORPUS_DIR, "*.json"))):
        d = json.load(open(p))
        if d.get("stream") == stream:
            out.append(d["case"])
    return out


def streams(tier):
    return [
        Stream(name="req", imports="From Viv Require Import Common Stream.", check="check_req", gen=gen_req, run=run_req,
               n_quick=150, n_thorough=1000, corpus=lambda: corpus("req"), shrink=shrink_ops,
               doc="worlds x call histories; block read off a CRN-free real stream by single-element requests"),
        Stream(name="mgr", imports="From Viv Require Import Common Stream.", check="check_mgr", gen=gen_mgr, run=run_mgr,
               n_quick=120, n_thorough=800, shrink=shrink_ops,
               doc="a stand-alone RandomnessManager as a registry state machine: get_randomness_stream (duplicates), "
                   "register_simulants, clock steps, draws on the registered streams, get_seed"),
        Stream(name="unrel", imports="From Viv Require Import Common Stream.", check="check_unrel", gen=gen_unrel,
               run=run_unrel, n_quick=100, n_thorough=500, corpus=lambda: list(FO_CORPUS) + corpus("unrel"),
               finding_of=finding_unrel, shrink=shrink_unrel,
               doc="equal seed keys -> equal draws; exactly one component changed -> at most 2 of 48 coincide; F-O aliases"),
    ]
