"""C03 - The randomness index is injective, stable and in range (DESIGN.md section 5, C03).

Tie to the code (model: coq/theories/IndexMap.v, theorems: coq/props/C03.v):
  stream `hist` : one real IndexMap driven through a registration history (1-6 batches of 0-40 keys at non-decreasing
                  clock times; 1-3 key columns of datetime / int / float; map sizes 7..2**40, small sizes force
                  collisions; 20% of the cases are ONE-column dense small maps - the class repaired by commit
                  b091dd41).  After every batch the positions of ALL simulants registered so far are read back through
                  the public IndexMap.__getitem__ (labels requested in shuffled order).  Coq runs the model `update`
                  from the OBSERVED previous map and demands: same outcome class; old rows unchanged; every new key
                  that collides with nothing sits exactly at the model's hash; a colliding new key is only required to
                  be in range; all positions pairwise distinct.  pandas' tie order among colliding keys is therefore
                  not part of the correspondence (the exact-match rate is measured on a sample and reported).
  stream `bad`  : the same with a malformed batch injected (duplicate inside a batch, duplicate of an old key, -0.0 vs
                  0.0, empty batch, unhashable dtype, CRN off, a block size dividing 111111 whose collision loop
                  cannot finish) and the history continued afterwards.
  stream `query`: IndexMap.__getitem__ for whole requests after every batch: subsets in any order, repeated labels,
                  unknown labels (KeyError), the empty request, nothing registered yet (RandomnessError), CRN off.
  stream `mgr`  : a real RandomnessManager inside a real SimulationContext: block size = max(map_size, 10 x population),
                  register_simulants on whole frames (key columns found by label in configuration order among other
                  columns in shuffled order; a missing key column -> RandomnessError; no key columns -> no-op).
  stream `conv` : the three ten-digit conversions (datetime / int / float): one value as a one-column key registered
                  alone in a huge block, read back through the public API (its position is the hash of the conversion).
  stream `hash` : single keys of 1-3 columns registered alone (wrapping int64 arithmetic, floor-mod), sizes 1..2**63-1,
                  Timestamp and integer clocks, public API only.
Direct oracle (model-free): injective, in range, earlier (simulant -> position) pairs preserved by every later step,
duplicates <=> RandomnessError, complete, and (private _map, read defensively) every row carries the key its simulant
supplied.
"""
import hashlib
import json
import math
import os
import random
import re
import signal

import boot
from core import COQC, GEN, COQ, Result, Stream, cbool, clist, cnat, cpair, cz, czlist

PROPERTY = "C03"
RULE = ("hist/bad: generated histories (1-3 key columns from datetime[s|us|ns]/int64/float64 with boundary-rich values: "
        "int64 products that wrap, negative values, floats whose fractional part rounds when multiplied by 1e10, "
        "pre-1970 dates; map sizes 7..2**40 with load <= 0.6 for small sizes; 1-6 batches of 0-40 keys; Timestamp or "
        "integer clocks; consecutive / shuffled / sparse labels). query: short histories + 1-3 requests after each batch. "
        "mgr: 0-3 key columns in any configuration order, population 1-6, map_size 1..1e6, 1-3 registrations of frames "
        "with 0-2 extra columns, shuffled column order, sometimes a key column missing. conv/hash: single keys registered "
        "alone. distinct = distinct case JSON; trivial = no key accepted (hist/bad)")
ASSUMPTIONS = [
    "a datetime key value (and a Timestamp clock) reaches the model as its instant in nanoseconds, whatever unit the "
    "column stores (since commit 11362e66 the code converts to ns before clipping to seconds; units are mixed on "
    "purpose across batches and across the two maps of a pair); instants lie inside the ns range of int64; float keys "
    "are finite; integer key columns are int64",
    "the collision loop of the real code is cut by the harness after fuel+1 calls of IndexMap._hash (or by a watchdog); "
    "the real loop need not terminate (DESIGN section 7, F-J) - liveness is outside the property, so the number of "
    "rounds is compared only grossly: a cut loop must need > fuel/2 rounds in the model, a finished one <= 2*fuel+2",
]
TRUSTED = [
    "C03: positions are observed through the public IndexMap.__getitem__; the private IndexMap._map is read defensively "
    "for the direct oracle's key-association check only (skipped when absent); IndexMap._hash is wrapped per instance "
    "to count collision rounds (fallback when it is absent: a 6 s SIGALRM watchdog and a generous model fuel); no "
    "other private name is used: streams conv/hash go through IndexMap.update / __getitem__",
]
CLAIM = {
    "technique": "Coq proof over all registration histories + one-step correspondence from observed maps",
    "text": "For every registration history (any number of batches, keys, key columns, block size, clock values) the "
            "modelled IndexMap keeps positions pairwise distinct, inside [0,size), never moves or re-keys a registered "
            "simulant, registers exactly the simulants offered, and rejects a batch with a duplicate key without "
            "touching the map; the public lookup returns each simulant's own position in request order, injectively and "
            "stably; the manager's block has >= 10 positions per initial simulant and a frame lacking a key column is "
            "refused (theorems C03_*). The model (wrapping int64 hash, the three ten-digit conversions with "
            "exact binary64 rounding, drop_duplicates keep-first, the salted re-hash loop, the key-level join) is run "
            "inside Coq against the real IndexMap on generated histories with frequent collisions.",
    "note": "Trusted: the transcription of index_map.py into IndexMap.v (validated on the sampled histories only), pandas "
            "semantics of drop_duplicates/difference/join as transcribed, the harness. Termination of the collision loop "
            "is not claimed in general (the real loop can spin forever); it is proved for one-column keys in blocks coprime to "
            "111111, e.g. the default 10**6 (C03_fuel_single_column), and under a coverage hypothesis otherwise.",
}

FUEL = 24
SIZES_SMALL = [10, 16, 17, 19, 20, 23, 25, 29, 31, 32, 41, 50, 64, 97, 100, 101, 128, 200, 256]
SIZES_BADGCD = [7, 9, 11, 13, 14, 21, 33, 37, 39, 77, 91, 111, 1001]        # share a factor with 111111 = 3*7*11*13*37
SIZES_BIG = [1000, 1024, 4099, 10 ** 4, 65536, 10 ** 5, 10 ** 6, 10 ** 6 + 3, 2 ** 31 - 1, 2 ** 31, 2 ** 40]
UNIT_SCALE = {"s": 1, "ms": 10 ** 3, "us": 10 ** 6, "ns": 10 ** 9}     # units per second
NPU = {"s": 10 ** 9, "ms": 10 ** 6, "us": 10 ** 3, "ns": 1}            # nanoseconds per unit
UNITS = ["s", "ms", "us", "ns"]


def units_for(ns_values):
    """The storage units that can hold all these instants (given in ns) exactly."""
    return [u for u in UNITS if all(v % NPU[u] == 0 for v in ns_values)]
_LITS = {}          # stream -> Coq literals of the cases run (for the statistics in extra())


# ----------------------------------------------------------------------------------------------------------------
# encoding of cells
# ----------------------------------------------------------------------------------------------------------------
def coq_cell(c):
    tag, v = c
    if tag == "d":
        return f"(KDate {cz(v)})"
    if tag == "i":
        return f"(KInt {cz(v)})"
    if tag == "f":
        n, d = float.fromhex(v).as_integer_ratio()
        assert d & (d - 1) == 0
        return f"(KFloat {cz(n)} {cz(d.bit_length() - 1)})"
    return "KBad"


def coq_key(k):
    return clist(coq_cell(c) for c in k)


def py_cell(c):
    """The value pandas compares for key equality."""
    tag, v = c
    if tag == "f":
        return ("f", float.fromhex(v) + 0.0)
    return (tag, v)


def py_key(k):
    return tuple(py_cell(c) for c in k)


INT_TYPES = {}
for _b in (8, 16, 32, 64):
    INT_TYPES[f"int{_b}"] = INT_TYPES[f"Int{_b}"] = (-2 ** (_b - 1), 2 ** (_b - 1) - 1)
    INT_TYPES[f"uint{_b}"] = INT_TYPES[f"UInt{_b}"] = (0, 2 ** _b - 1)
SIGNED = [t for t in INT_TYPES if t[0] in "iI"]
UNSIGNED = [t for t in INT_TYPES if t[0] in "uU"]
FLOAT_TYPES = ["float64", "float32", "Float64", "Float32"]


def kind(dt):
    """'i' | 'f' | 'd' | 'b' of a column type such as 'i', 'i:uint16', 'f:float32', 'd:us', 'b:str'."""
    return dt.split(":")[0]


def f32_exact(x):
    import struct
    try:
        return struct.unpack("f", struct.pack("f", x))[0] == x
    except (OverflowError, struct.error):
        return False


def admissible_int(values, family=None):
    """The integer storage types that hold all these values (a cell is its mathematical value, whatever the width)."""
    names = SIGNED + UNSIGNED if family is None else (SIGNED if family == "signed" else UNSIGNED)
    ok = [t for t in names if all(INT_TYPES[t][0] <= v <= INT_TYPES[t][1] for v in values)]
    if any(v >= 2 ** 53 for v in values):
        # kept out (reported for triage, corpus/C03/uint64_storage_replay.py): pandas' nullable UInt64 index merges
        # distinct values above 2**63 in unique(), so IndexMap refuses unique keys with a false "Non-unique keys"
        ok = [t for t in ok if t != "UInt64"]
    return ok


def fit_types(steps, rng, retype=False, mix=None):
    """Choose the STORAGE type of every integer / float key column: any width and signedness that holds the values
    (int8..int64, uint8..uint64, nullable Int8..UInt64; float32/Float32 when every value is a float32).  One
    signedness family per column and map (a map never mixes uint64 with signed batches: see the report, class F-AK
    candidate), the width may change from batch to batch when `mix`.  retype=True: choose afresh (C04 pairs)."""
    if not steps:
        return steps
    ncols = len(steps[0]["dtypes"])
    mix = rng.random() < 0.5 if mix is None else mix
    for j in range(ncols):
        kinds = {kind(st["dtypes"][j]) for st in steps if len(st["dtypes"]) > j}
        if kinds == {"i"}:
            allv = [k[j][1] for st in steps for k in st["keys"]]
            fam = "signed" if any(v < 0 for v in allv) else "unsigned" if any(v >= 2 ** 63 for v in allv) else rng.choice(["signed", "signed", "unsigned"])
            whole = admissible_int(allv, fam) or ["int64"]
            one = rng.choice(whole + [whole[0]] * 2)
            for st in steps:
                cur = st["dtypes"][j][2:] or "int64"
                vals = [k[j][1] for k in st["keys"]]
                if retype or st["dtypes"][j] == "i" or cur not in admissible_int(vals) or (cur in SIGNED) != (fam == "signed"):
                    st["dtypes"] = list(st["dtypes"])
                    st["dtypes"][j] = "i:" + (rng.choice(admissible_int(vals, fam) or ["int64"]) if mix else one)
        elif kinds == {"f"}:
            for st in steps:
                cur = st["dtypes"][j][2:] or "float64"
                vals = [float.fromhex(k[j][1]) for k in st["keys"]]
                ok = FLOAT_TYPES if all(f32_exact(v) for v in vals) else ["float64", "Float64"]
                if retype or st["dtypes"][j] == "f" or cur not in ok:
                    st["dtypes"] = list(st["dtypes"])
                    st["dtypes"][j] = "f:" + rng.choice(ok if (mix or retype) else ok[:1] + ok)
    return steps


def column(dtype, cells):
    import numpy as np
    import pandas as pd
    if dtype.startswith("d:"):
        unit = dtype[2:]
        assert all(c[1] % NPU[unit] == 0 for c in cells), (unit, cells[:3])      # a date cell is the instant in ns
        arr = np.array([c[1] // NPU[unit] for c in cells], dtype="int64").view(f"datetime64[{unit}]")
        col = pd.Series(arr)
        assert str(col.dtype) == f"datetime64[{unit}]", col.dtype
        return col
    if kind(dtype) == "i":
        name = dtype[2:] or "int64"
        lo, hi = INT_TYPES[name]
        assert all(lo <= c[1] <= hi for c in cells), (dtype, [c[1] for c in cells][:3])   # an int cell is its value
        if name[0] in "IU":                                                               # pandas nullable extension types
            return pd.Series(pd.array([int(c[1]) for c in cells], dtype=name))
        return pd.Series(np.array([int(c[1]) for c in cells], dtype=name))
    if kind(dtype) == "f":
        name = dtype[2:] or "float64"
        vals = [float.fromhex(c[1]) for c in cells]
        assert name.lower() != "float32" or all(f32_exact(v) for v in vals), (dtype, vals[:3])
        if name[0] == "F":
            return pd.Series(pd.array(vals, dtype=name))
        return pd.Series(np.array(vals, dtype=name))
    if dtype == "b:str":
        return pd.Series([str(c[1]) for c in cells], dtype="object")
    if dtype == "b:bool":
        return pd.Series(np.array([bool(len(str(c[1])) % 2) for c in cells], dtype="bool"))
    raise ValueError(dtype)


def frame(dtypes, labels, keys):
    import pandas as pd
    data = {}
    for j, dt in enumerate(dtypes):
        col = column(dt, [k[j] for k in keys])
        data[f"k{j}"] = col.tolist() if dt.startswith("b:str") else col.array
    df = pd.DataFrame(data, index=pd.Index(list(labels), dtype="int64"))
    for j, dt in enumerate(dtypes):
        if dt.startswith("d:"):
            assert str(df[f"k{j}"].dtype) == f"datetime64[{dt[2:]}]", df.dtypes
        elif kind(dt) in "if" and ":" in dt:
            assert str(df[f"k{j}"].dtype) == dt[2:], (df.dtypes, dt)
    return df


def key_index(dtypes, keys):
    """The key-level index of a batch (what IndexMap._hash is handed), built as _parse_new_keys builds it."""
    df = frame(dtypes, list(range(len(keys))), keys)
    df.index.name = "simulant_index"
    return df.set_index([f"k{j}" for j in range(len(dtypes))], append=True).index.droplevel("simulant_index")


def clock_value(t):
    """JSON salt spec -> the value handed to IndexMap.update, and the cell the model sees.
    ["d", instant in ns, storage unit of the Timestamp] | ["i", n]"""
    import pandas as pd
    tag, v = t[0], t[1]
    if tag == "d":
        unit = t[2]
        assert int(v) % NPU[unit] == 0, t
        ts = pd.Timestamp(int(v) // NPU[unit], unit=unit)
        if ts.unit != unit:
            ts = ts.as_unit(unit)
        assert ts.unit == unit and int(ts.asm8.view("i8")) * NPU[unit] == int(v), (ts, ts.unit, t)
        return ts, ("d", int(v))
    return int(v), ("i", int(v))


# ----------------------------------------------------------------------------------------------------------------
# generators
# ----------------------------------------------------------------------------------------------------------------
def gen_int(rng, mode, j, size):
    v = _gen_int(rng, mode, j, size)
    if mode == "ubig":
        return v % 2 ** 64                                # only a uint64 column holds these
    return ((v + 2 ** 63) % 2 ** 64) - 2 ** 63          # an int64 column cannot hold more


WIDTH_EDGES = [127, 128, 255, 256, 32767, 32768, 65535, 65536, 2 ** 31 - 1, 2 ** 31, 2 ** 32 - 1, 2 ** 32,
               19327, 19328, 19329, 19400, 38655, 38656, 2 ** 15 // 2, 294, 295, 589, 590]   # 19328 * 111111 > 2**31, ...


def _gen_int(rng, mode, j, size):
    if mode == "lim":       # near the limits of the narrow storage types and where v * 111111 leaves them
        e = rng.choice(WIDTH_EDGES)
        return rng.choice([e, e - j, e - j, -e + j, -e - 1 + j]) if rng.random() < 0.7 else rng.randint(-40000, 70000)
    if mode == "ulim":      # non-negative, for unsigned storage
        e = rng.choice(WIDTH_EDGES)
        return abs(e - j) if rng.random() < 0.7 else rng.randint(0, 70000)
    if mode == "ubig":
        return 2 ** 63 + rng.choice([0, 1, 2 ** 62, 2 ** 63 - 1 - 2 * j, 12345]) + j
    if mode == "small":
        return rng.randint(0, 60)
    if mode == "seq":
        return j
    if mode == "big":
        return rng.getrandbits(63) - rng.choice([0, 0, 2 ** 62])
    if mode == "wrap":      # v * 111111 crosses +-2**63
        return rng.choice([1, -1]) * (2 ** 63 // 111111 + rng.randint(-3, 3) + j * rng.choice([0, 1, 83010348331692]))
    if mode == "neg":
        return -rng.randint(0, 10 ** 6)
    if mode == "mult":
        return j * rng.choice([size, 90000, 10 ** 10, 10 ** 5]) + rng.randint(0, 2)
    return rng.choice([0, 1, 9, 10, 99999, 10 ** 10 - 1, 10 ** 10, 2 ** 63 - 1, -2 ** 63, 2 ** 31, 89999, 90000, 90001])


def gen_float(rng, mode, j):
    if mode == "f32":       # values a float32 column holds exactly (0.1f is not 0.1)
        import struct
        x = rng.choice([rng.uniform(0, 110), rng.randint(0, 1200) / 10.0, -rng.uniform(0, 50), 3.4e38 * rng.random(), 1e-40 * rng.randint(1, 99)])
        return struct.unpack("f", struct.pack("f", x))[0]
    if mode == "dyadic":
        return rng.randint(0, 1600) / 16.0
    if mode == "decimal":
        return rng.randint(0, 1200) / rng.choice([10.0, 100.0, 1000.0])
    if mode == "age":
        return rng.uniform(0, 110)
    if mode == "neg":
        return -rng.uniform(0, 50)
    if mode == "tiny":
        return rng.choice([1, -1]) * rng.choice([1e-20, 5e-11, 1e-10, 4.9e-324, 2.0 ** -53, 2.0 ** -54, 1e-300]) * rng.randint(1, 9)
    if mode == "big":
        return rng.choice([2.0 ** 52, 1e15, 2.0 ** 53, 1e17, 123456789.0]) + rng.randint(0, 999) + rng.choice([0, 0.5, 0.25])
    if mode == "ulp":
        x = float(rng.randint(0, 40)) + rng.choice([0.0, 0.3, 0.7, 0.1])
        return math.nextafter(x, rng.choice([-1e300, 1e300]))
    return rng.choice([0.0, -0.0, 0.3, 0.1, 0.7, 0.9999999999, 0.99999999999, 1.0 - 2.0 ** -53, 0.5, 1e-10, 2.5, 1.5])


def gen_date(rng, mode, j, unit):
    """An instant in ns that a datetime64[unit] column holds exactly."""
    sc, npu = UNIT_SCALE[unit], NPU[unit]
    base = 1_120_000_000                          # seconds: 2005
    if mode == "daily":
        return (base + 86400 * j) * 10 ** 9
    if mode == "subsec":
        return ((base + rng.randint(0, 10 ** 7)) * sc + (rng.randint(0, sc - 1) if sc > 1 else 0)) * npu
    if mode == "old":
        return (-(rng.randint(0, 2 * 10 ** 9)) * sc - (rng.randint(0, sc - 1) if sc > 1 else 0)) * npu
    if mode == "clip":                          # around whole seconds (the clip divisor is 1e9 ns)
        v = rng.randint(-2 * 10 ** 9, 4 * 10 ** 9) * 10 ** 9 + rng.choice([-1, 0, 1, 999_999_999, -999_999_999, 500_000_000])
        return v // npu * npu
    return rng.randint(0, 4 * 10 ** 9) * 10 ** 9


INT_MODES = ["small", "small", "seq", "big", "wrap", "neg", "mult", "edge", "lim", "lim", "ulim", "ubig"]
FLOAT_MODES = ["dyadic", "decimal", "decimal", "age", "age", "neg", "tiny", "big", "ulp", "edge", "f32", "f32"]
DATE_MODES = ["daily", "subsec", "subsec", "old", "clip", "any"]


def gen_schema(rng):
    n = rng.choice([1, 1, 2, 2, 2, 3])
    unit = rng.choice(["us", "us", "us", "ns", "ns", "s", "ms"])
    dts = []
    for _ in range(n):
        r = rng.random()
        dts.append(f"d:{unit}" if r < 0.3 else ("i" if r < 0.65 else "f"))
    return dts, unit


def gen_cell(rng, dt, mode, j, size):
    if dt.startswith("d:"):
        return ["d", gen_date(rng, mode, j, dt[2:])]
    if dt == "i":
        return ["i", gen_int(rng, mode, j, size)]
    return ["f", float(gen_float(rng, mode, j)).hex()]


def gen_size(rng):
    r = rng.random()
    if r < 0.66:
        return rng.choice(SIZES_SMALL)
    if r < 0.71:
        return rng.choice(SIZES_BADGCD)
    return rng.choice(SIZES_BIG)


def gen_clock(rng, unit):
    """A clock: list of salt specs for up to 8 registrations (non-decreasing; sometimes two batches share a time)."""
    kind = rng.random()
    out = []
    if kind < 0.65:
        sc, npu = UNIT_SCALE[unit], NPU[unit]
        t = ((1_120_000_000 + rng.randint(0, 10 ** 8)) * sc + rng.choice([0, 0, rng.randint(0, sc - 1) if sc > 1 else 0])) * npu
        step = rng.choice([86400, 3600, 1, 10 ** 6, 365 * 86400]) * 10 ** 9
        mixed = rng.random() < 0.5                # the Timestamp's own storage unit varies from batch to batch
        for _ in range(8):
            out.append(["d", t, rng.choice(units_for([t])) if mixed else unit])
            if rng.random() > 0.15:
                t += step
    else:
        t = rng.choice([0, 0, 1, 5, 2005, 89999, 10 ** 10 - 2, 2 ** 62])
        step = rng.choice([1, 1, 3, 28, 10 ** 5])
        for _ in range(8):
            out.append(["i", t])
            if rng.random() > 0.15:
                t += step
    return out


def gen_history(rng, nbatch=None, size=None, schema=None, dense=False):
    dts, unit = schema if schema else gen_schema(rng)
    size = size or gen_size(rng)
    nb = nbatch or rng.choice([1, 2, 2, 3, 3, 4, 5, 6])
    cap = max(2, int(0.6 * size)) if size < 400 else 10 ** 9
    modes = [rng.choice(DATE_MODES if dt.startswith("d:") else INT_MODES if dt == "i" else FLOAT_MODES) for dt in dts]
    clock = gen_clock(rng, unit)
    label_mode = rng.choice(["consecutive", "consecutive", "shuffled", "sparse"])
    steps, seen, used_labels, total, nxt = [], set(), set(), 0, 0
    base_dts = list(dts)
    ubig_cols = [m == "ubig" for m in modes]
    mixed_units = rng.random() < 0.5      # every batch stores its datetime columns in a unit of its own (same instants scale)
    for bi in range(nb):
        dts = [f"d:{rng.choice(UNITS)}" if (mixed_units and dt.startswith("d:")) else dt for dt in base_dts]
        n = rng.choice([0, 1, 2, 3, 5, 8, 13, 20, 30, 40]) if rng.random() < 0.5 else rng.randint(1, 12)
        if dense:
            n = max(3, int(size * rng.uniform(0.15, 0.35)))
        n = min(n, cap - total)
        keys = []
        tries = 0
        while len(keys) < n and tries < 20 * n + 20:
            tries += 1
            if rng.random() < 0.1:   # switch the value mode of one column inside the batch
                modes[rng.randrange(len(dts))] = rng.choice(["edge", "small", "decimal", "subsec"])
                modes = [m if _mode_ok(m, dt) else ("any" if dt.startswith("d:") else "edge") for m, dt in zip(modes, dts)]
                # a column that holds values above 2**63 lives in unsigned storage: no negative values in it
                modes = [m if not ub or m in ("ubig", "small", "ulim", "seq") else "ulim" for m, ub in zip(modes, ubig_cols)]
            k = [gen_cell(rng, dt, m, total + len(keys), size) for dt, m in zip(dts, modes)]
            pk = py_key(k)
            if pk in seen:
                continue
            seen.add(pk)
            keys.append(k)
        if label_mode == "sparse":
            labels = []
            while len(labels) < len(keys):
                l = rng.randint(0, 10 ** 6)
                if l not in used_labels:
                    used_labels.add(l)
                    labels.append(l)
        else:
            labels = list(range(nxt, nxt + len(keys)))
            nxt += len(keys)
            if label_mode == "shuffled":
                rng.shuffle(labels)
        total += len(keys)
        steps.append({"dtypes": list(dts), "labels": labels, "keys": keys, "t": clock[bi]})
    fit_types(steps, rng)
    return {"size": size, "crn": True, "fuel": FUEL, "steps": steps, "qseed": rng.getrandbits(32)}


def _mode_ok(mode, dt):
    if dt.startswith("d:"):
        return mode in DATE_MODES
    if dt == "i":
        return mode in INT_MODES
    return mode in FLOAT_MODES


def gen_single_column(rng):
    """ONE key column in a small map with enough keys that some collide before the tail of a batch (the class that
    commit b091dd41 repaired: the single-level join used to come back in simulant order)."""
    unit = rng.choice(["us", "ns"])
    dt = rng.choice(["i", "i", "f", "f", f"d:{unit}"])
    size = rng.choice([10, 16, 17, 19, 20, 23, 25, 29, 31, 32, 41, 50, 64])
    return gen_history(rng, nbatch=rng.choice([1, 2, 2, 3]), size=size, schema=([dt], unit), dense=True)


def fit_units(steps, rng=None, reunit=False):
    """Make every datetime column of every batch use a storage unit that holds its instants exactly (after keys were
    copied between batches); with reunit=True pick a fresh random admissible unit for every such column and clock."""
    for st in steps:
        for j, dt in enumerate(st["dtypes"]):
            if dt.startswith("d:"):
                ok = units_for([k[j][1] for k in st["keys"]])
                if reunit or dt[2:] not in ok:
                    st["dtypes"] = list(st["dtypes"])
                    st["dtypes"][j] = "d:" + (rng.choice(ok) if rng else ok[-1])
        if reunit and st["t"][0] == "d":
            st["t"] = ["d", st["t"][1], rng.choice(units_for([st["t"][1]]))]
    return steps


def gen_hist(rng):
    if rng.random() < 0.2:
        return gen_single_column(rng)
    return gen_history(rng)


def gen_bad(rng):
    case = gen_history(rng, nbatch=rng.choice([2, 3, 4]))
    steps = case["steps"]
    bkind = rng.choice(["dup_in", "dup_in", "dup_old", "dup_old", "zero", "empty", "baddtype", "crn_off", "stuck",
                       "dup_perm"])
    case["bad"] = bkind
    nonempty = [i for i, s in enumerate(steps) if s["keys"]]
    if bkind in ("dup_in", "dup_perm") and nonempty:
        s = steps[rng.choice(nonempty)]
        src = rng.randrange(len(s["keys"]))
        pos = rng.randint(0, len(s["keys"]))
        s["keys"].insert(pos, json.loads(json.dumps(s["keys"][src])))
        s["labels"].insert(pos, max([l for st in steps for l in st["labels"]] + [0]) + 1)
    elif bkind == "dup_old" and len(nonempty) >= 1:
        i = rng.choice(nonempty)
        later = [j for j in range(i + 1, len(steps))]
        if not later:
            steps.append({"dtypes": steps[i]["dtypes"], "labels": [], "keys": [], "t": steps[i]["t"]})
            later = [len(steps) - 1]
        j = rng.choice(later)
        k = json.loads(json.dumps(rng.choice(steps[i]["keys"])))
        pos = rng.randint(0, len(steps[j]["keys"]))
        steps[j]["keys"].insert(pos, k)
        steps[j]["labels"].insert(pos, max([l for st in steps for l in st["labels"]] + [0]) + 1)
    elif bkind == "zero":
        # 0.0 and -0.0 are one key for pandas
        fl = [j for j, dt in enumerate(steps[0]["dtypes"]) if kind(dt) == "f"]
        if fl and nonempty:
            s = steps[rng.choice(nonempty)]
            k = json.loads(json.dumps(s["keys"][0]))
            k2 = json.loads(json.dumps(k))
            k[fl[0]] = ["f", (0.0).hex()]
            k2[fl[0]] = ["f", (-0.0).hex()]
            mx = max([l for st in steps for l in st["labels"]] + [0])
            s["keys"] += [k, k2]
            s["labels"] += [mx + 1, mx + 2]
    elif bkind == "empty":
        i = rng.randrange(len(steps))
        steps.insert(i, {"dtypes": steps[0]["dtypes"], "labels": [], "keys": [], "t": steps[i]["t"]})
    elif bkind == "baddtype" and nonempty:
        s = steps[rng.choice(nonempty)]
        j = rng.randrange(len(s["dtypes"]))
        s["dtypes"] = list(s["dtypes"])
        s["dtypes"][j] = rng.choice(["b:str", "b:bool"])
        for n, k in enumerate(s["keys"]):
            k[j] = ["b", f"v{n}" if rng.random() < 0.9 else "v0"]
    elif bkind == "crn_off":
        case["crn"] = False
    elif bkind == "stuck":
        # a block size that divides 111111 = 3*7*11*13*37: the integer salt adds a multiple of the size, a key that
        # has to be re-hashed lands on the same position under every salt, and the loop cannot finish once that
        # position is taken (DESIGN section 7, F-J: liveness is outside the property; model: OutOfFuel)
        size = rng.choice([7, 11, 13, 21, 33, 37, 39, 77, 91])
        fresh = gen_history(rng, nbatch=rng.choice([1, 2]), size=size, schema=([kind(dt) for dt in steps[0]["dtypes"]], "us")
                            if not any(dt.startswith("d:") for dt in steps[0]["dtypes"]) else None, dense=True)
        case["size"] = size
        case["steps"] = steps = fresh["steps"]
    fit_units(steps, rng)
    if not any(dt.startswith("b:") for st in steps for dt in st["dtypes"]):
        fit_types(steps, rng)
    # dedupe accidental label clashes
    seen = set()
    for st in steps:
        for n, l in enumerate(st["labels"]):
            while l in seen:
                l += 1000003
            st["labels"][n] = l
            seen.add(l)
    return case


def corpus_hist():
    f = lambda x: ["f", float(x).hex()]
    return [
        # ONE key column, a colliding key that is not at the tail of the batch (5 and 25 both hash to 7, 3 hashes to 1):
        # before commit b091dd41 the single-level join returned the simulant order and key 3 was handed 25's position
        {"size": 10, "crn": True, "fuel": FUEL, "qseed": 7, "steps": [
            {"dtypes": ["i"], "labels": [0, 1, 2], "keys": [[["i", 5]], [["i", 25]], [["i", 3]]], "t": ["i", 1]}]},
        {"size": 10, "crn": True, "fuel": FUEL, "qseed": 8, "steps": [
            {"dtypes": ["i"], "labels": [0, 1, 2, 3, 4, 5], "keys": [[["i", 5]], [["i", 15]], [["i", 25]], [["i", 3]], [["i", 7]], [["i", 8]]], "t": ["i", 1]},
            {"dtypes": ["i"], "labels": [6, 7], "keys": [[["i", 9]], [["i", 30]]], "t": ["i", 2]}]},
        {"size": 23, "crn": True, "fuel": FUEL, "qseed": 9, "steps": [
            {"dtypes": ["f"], "labels": [3, 1, 2, 0, 4, 5, 6, 7], "keys": [[f(v)] for v in [0.5, 1.25, 7.75, 30.5, 3.25, 77.125, 64.0, 12.375]], "t": ["d", 1120262400000000000, "us"]},
            {"dtypes": ["f"], "labels": [8, 9, 10, 11], "keys": [[f(v)] for v in [0.001, 99.9, 45.45, 18.0]], "t": ["d", 1120348800000000000, "us"]}]},
        # two colliding keys in a size-10 map (the non-vacuity example of props/C03.v)
        {"size": 10, "crn": True, "fuel": FUEL, "qseed": 1, "steps": [
            {"dtypes": ["i"], "labels": [0, 1, 2, 3], "keys": [[["i", 5]], [["i", 15]], [["i", 25]], [["i", 3]]], "t": ["i", 1]},
            {"dtypes": ["i"], "labels": [4, 5], "keys": [[["i", 7]], [["i", 8]]], "t": ["i", 2]}]},
        # the float rounding corner: 0.3 % 1 * 1e10 rounds up to 3000000000.0
        {"size": 1000003, "crn": True, "fuel": FUEL, "qseed": 2, "steps": [
            {"dtypes": ["f"], "labels": [0, 1, 2, 3], "keys": [[f(0.3)], [f(-1e-20)], [f(0.7)], [f(-0.25)]], "t": ["d", 1120262400000000000, "us"]}]},
        # entrance_time + age, two batches at different times
        {"size": 50, "crn": True, "fuel": FUEL, "qseed": 3, "steps": [
            {"dtypes": ["d:us", "f"], "labels": [2, 0, 1],
             "keys": [[["d", 1120262400000000000], f(30.5)], [["d", 1120262400000000000], f(3.25)], [["d", 1120262400000000000], f(77.125)]],
             "t": ["d", 1120262400000000000, "us"]},
            {"dtypes": ["d:us", "f"], "labels": [3, 4],
             "keys": [[["d", 1120348800000000000], f(0.0)], [["d", 1120348800000000000], f(0.001)]], "t": ["d", 1120348800000000000, "us"]}]},
    ]


def corpus_bad():
    f = lambda x: ["f", float(x).hex()]
    return [
        # ages 1.5 and 2.5 have the same fractional part -> the same hash under every salt; the loop still finishes
        # because the first of two equal re-hashes wins each round
        {"size": 100, "crn": True, "fuel": FUEL, "qseed": 4, "bad": "same_fraction", "steps": [
            {"dtypes": ["f"], "labels": [0, 1], "keys": [[f(1.5)], [f(2.5)]], "t": ["i", 0]},
            {"dtypes": ["f"], "labels": [2, 3], "keys": [[f(1.25)], [f(7.75)]], "t": ["i", 1]}]},
        # size 7: 111111 = 0 mod 7, the salt never moves a key
        {"size": 7, "crn": True, "fuel": FUEL, "qseed": 5, "bad": "stuck", "steps": [
            {"dtypes": ["i"], "labels": [0, 1, 2, 3, 4], "keys": [[["i", 1]], [["i", 2]], [["i", 3]], [["i", 4]], [["i", 5]]], "t": ["i", 0]}]},
        # CRN off: update must do nothing and IndexMap[idx] is idx
        {"size": 20, "crn": False, "fuel": FUEL, "qseed": 12, "bad": "crn_off", "steps": [
            {"dtypes": ["i"], "labels": [4, 2, 9], "keys": [[["i", 1]], [["i", 1]], [["i", 3]]], "t": ["i", 0]},
            {"dtypes": ["i"], "labels": [], "keys": [], "t": ["i", 1]}]},
        # a duplicate inside a batch, the batch after it is fine
        {"size": 31, "crn": True, "fuel": FUEL, "qseed": 13, "bad": "dup_in", "steps": [
            {"dtypes": ["f"], "labels": [0, 1, 2], "keys": [[f(0.5)], [f(1.5)], [f(0.5)]], "t": ["i", 0]},
            {"dtypes": ["f"], "labels": [3, 4], "keys": [[f(0.5)], [f(1.5)]], "t": ["i", 0]}]},
        {"size": 20, "crn": True, "fuel": FUEL, "qseed": 6, "bad": "dup_old", "steps": [
            {"dtypes": ["i", "f"], "labels": [0, 1], "keys": [[["i", 1], f(0.5)], [["i", 2], f(0.5)]], "t": ["i", 0]},
            {"dtypes": ["i", "f"], "labels": [2, 3], "keys": [[["i", 3], f(0.5)], [["i", 1], f(0.5)]], "t": ["i", 1]},
            {"dtypes": ["i", "f"], "labels": [4], "keys": [[["i", 3], f(0.5)]], "t": ["i", 2]}]},
    ]


# ----------------------------------------------------------------------------------------------------------------
# driving a real IndexMap
# ----------------------------------------------------------------------------------------------------------------
COUNTED = [True]       # could the collision rounds of the last update be counted (IndexMap._hash wrapped)?
UNCOUNTED_FUEL = 600   # model fuel for a case whose rounds could not be counted (only the watchdog limits the real loop)


class _Fuel(Exception):
    pass


class _Watchdog(Exception):
    pass


def guarded_update(imap, df, clock, fuel, call=None):
    """IndexMap.update with the collision loop cut after fuel+1 rounds.  -> (code, exception text)
    `call` = the (unwrapped) update to use instead of imap.update (whole-simulation recording)."""
    from vivarium.framework.randomness.exceptions import RandomnessError
    calls = [0]
    orig = getattr(imap, "_hash", None)
    wrapped = False
    COUNTED[0] = False
    if callable(orig):
        def counted(*a, **kw):
            calls[0] += 1
            if calls[0] > fuel + 1:
                raise _Fuel()
            return orig(*a, **kw)
        try:
            imap._hash = counted
            wrapped = True
            COUNTED[0] = True
        except Exception:
            wrapped = False

    def on_alarm(signum, frm):
        raise _Watchdog()
    old = signal.signal(signal.SIGALRM, on_alarm)
    signal.setitimer(signal.ITIMER_REAL, 6.0)
    try:
        if call is None:
            imap.update(df, clock)
        else:
            call(imap, df, clock)
        return 0, ""
    except _Fuel:
        return 3, "collision loop cut after fuel+1 rounds"
    except _Watchdog:
        return 4, "collision loop cut by the watchdog"
    except RandomnessError as e:
        return 1, str(e)[:120]
    except Exception as e:
        return 2, f"{type(e).__name__}: {e}"[:160]
    finally:
        signal.setitimer(signal.ITIMER_REAL, 0)
        signal.signal(signal.SIGALRM, old)
        if wrapped:
            try:
                del imap._hash
            except Exception:
                pass


def read_positions(imap, labels, rng):
    """Positions through the public __getitem__, labels requested in shuffled order."""
    import pandas as pd
    if not labels:
        return []
    req = list(labels)
    rng.shuffle(req)
    vals = imap[pd.Index(req, dtype="int64")]
    vals = [_as_position(v) for v in list(vals)]
    if len(vals) != len(req):
        raise AssertionError(f"IndexMap[...] returned {len(vals)} positions for {len(req)} labels")
    got = dict(zip(req, vals))
    return [[l, got[l]] for l in labels]


def _as_position(v):
    """A position as int; None for a missing value (NaN): a simulant that lost its row."""
    try:
        f = float(v)
        if f != f or f in (float("inf"), float("-inf")) or f != int(f):
            return None
        return int(v)
    except Exception:
        return None


def private_rows(imap, ncols):
    """(simulant, key tuple, position) rows of the private _map - ONLY when it still has the shape this harness knows
    (a Series indexed by a MultiIndex with a level "simulant_index" and ncols key levels); anything else (renamed,
    restructured, absent) -> None: the key-association check is skipped and counted, never failed."""
    try:
        import pandas as pd
        m = getattr(imap, "_map", None)
        if not isinstance(m, pd.Series) or not isinstance(m.index, pd.MultiIndex):
            return None
        names = list(m.index.names)
        if names.count("simulant_index") != 1 or len(names) != ncols + 1:
            return None
        si = names.index("simulant_index")
        rows = []
        for idx, v in zip(m.index.tolist(), m.tolist()):
            rows.append((int(idx[si]), tuple(x for j, x in enumerate(idx) if j != si), _as_position(v)))
        return rows
    except Exception:
        return None


def drive(case):
    """Run the history on a real IndexMap.  -> list of per-step dicts (code, obs, registered-so-far, private rows)."""
    from vivarium.framework.randomness.index_map import IndexMap
    ncols = len(case["steps"][0]["dtypes"]) if case["steps"] else 1
    cols = [f"k{j}" for j in range(ncols)]
    imap = IndexMap(cols if case["crn"] else [], size=case["size"])
    qrng = random.Random(case.get("qseed", 0))
    registered = []       # [label, key]
    out = []
    queries = case.get("queries")
    if queries:
        case["_q0"] = [run_query(imap, q) for q in queries[0]]
    for n_step, st in enumerate(case["steps"]):
        df = frame(st["dtypes"], st["labels"], st["keys"])
        clock, tcell = clock_value(st["t"])
        code, err = guarded_update(imap, df, clock, case["fuel"])
        if not COUNTED[0]:
            case["_uncounted"] = True
        if code == 0 and case["crn"]:
            registered += [[l, k, st["dtypes"]] for l, k in zip(st["labels"], st["keys"])]
        if case["crn"]:
            obs = read_positions(imap, [r[0] for r in registered], qrng)
        else:
            obs = read_positions(imap, list(st["labels"]), qrng) if st["labels"] else []
            # keep request order for CRN off (the model compares label lists)
        out.append({"code": code, "err": err, "obs": obs, "tcell": tcell, "nreg": len(registered),
                    "private": private_rows(imap, ncols) if case["crn"] else None,
                    "queries": [run_query(imap, q) for q in queries[n_step + 1]] if queries else []})
    return out, registered


def run_query(imap, labels):
    """IndexMap[labels] -> [labels, code, result]; code 0 ok | 1 RandomnessError | 2 any other exception."""
    import pandas as pd
    from vivarium.framework.randomness.exceptions import RandomnessError
    try:
        vals = imap[pd.Index(list(labels), dtype="int64")]
        res = [_as_position(v) for v in list(vals)]
        return [list(labels), 0, [-1 if v is None else v for v in res]]
    except RandomnessError:
        return [list(labels), 1, []]
    except Exception:
        return [list(labels), 2, []]


def oracle(case, trace, registered):
    """The property statement on the real observations (no model)."""
    size = case["size"]
    if not case["crn"]:
        for st, tr in zip(case["steps"], trace):
            if tr["code"] != 0:
                return False, f"CRN off: update raised {tr['err']}"
            if [p for _, p in tr["obs"]] != list(st["labels"]):
                return False, "CRN off: IndexMap[idx] != idx"
        return True, ""
    seen_keys = {}
    prev = {}
    for n, (st, tr) in enumerate(zip(case["steps"], trace)):
        pks = [py_key(k) for k in st["keys"]]
        dup = len(set(pks)) != len(pks) or any(pk in seen_keys for pk in pks)
        bad = any(dt.startswith("b:") for dt in st["dtypes"]) and bool(st["keys"])
        cur = {l: p for l, p in tr["obs"]}
        if dup and st["keys"] and tr["code"] != 1:
            return False, f"step {n}: duplicate keys were not rejected with RandomnessError (code {tr['code']})"
        if not dup and not bad and tr["code"] not in (0, 3, 4):
            return False, f"step {n}: a batch of unique hashable keys was refused: {tr['err']}"
        if tr["code"] == 2:
            return False, f"step {n}: unexpected exception {tr['err']}"
        # stable: nobody registered earlier moved, whatever the outcome
        for l, p in prev.items():
            if cur.get(l) != p:
                return False, f"step {n}: simulant {l} moved from position {p} to {cur.get(l)}"
        if tr["code"] == 0:
            for l, pk in zip(st["labels"], pks):
                seen_keys[pk] = l
                if l not in cur:
                    return False, f"step {n}: simulant {l} was registered but has no position"
        if set(cur) != set(seen_keys.values()):
            return False, f"step {n}: the map knows {len(cur)} simulants, {len(seen_keys)} were registered"
        lost = sorted(l for l, p in cur.items() if p is None)
        if lost:
            return False, f"step {n}: simulants {lost[:5]} are in the map without a position (NaN)"
        ps = list(cur.values())
        if len(set(ps)) != len(ps):
            d = sorted(p for p in set(ps) if ps.count(p) > 1)[:3]
            return False, f"step {n}: positions shared by several simulants: {d}"
        if any(not (0 <= p < size) for p in ps):
            return False, f"step {n}: position outside [0,{size}): {[p for p in ps if not 0 <= p < size][:3]}"
        # private _map (defensive): every row carries the key its simulant supplied, at the position __getitem__ gives
        rows = tr["private"]
        if rows is not None and tr["code"] == 0 and st["keys"]:
            by_label = {r[0]: (r[1], r[2]) for r in registered}
            for s, kt, p in rows:
                k, dts = by_label.get(s, (None, None))
                if k is None or len(kt) != len(k):
                    return False, f"step {n}: _map row for unknown simulant {s}"
                if cur.get(s) != p:
                    return False, f"step {n}: _map row of simulant {s} has position {p}, IndexMap[{s}] gives {cur.get(s)}"
                for c, x, dt in zip(k, kt, dts):
                    if not cell_matches(c, x, dt):
                        return False, f"step {n}: _map row of simulant {s} carries key {kt}, the simulant supplied {py_key(k)}"
        prev = cur
    return True, ""


def cell_matches(c, x, dt=None):
    """Does the index value x of the private _map equal the cell the simulant supplied?  (defensive: True on doubt)"""
    import pandas as pd
    tag, v = c
    try:
        if tag == "d":
            return int(pd.Timestamp(x).as_unit("ns").value) == v
        if tag == "i":
            return int(x) == v
        if tag == "f":
            return float(x) == float.fromhex(v)
        return True
    except Exception:
        return True


def coq_step(st, tr):
    b = clist(cpair(cz(l), coq_key(k)) for l, k in zip(st["labels"], st["keys"]))
    obs = clist(cpair(cz(l), cz(-1 if p is None else p)) for l, p in tr["obs"])
    return cpair(b, coq_cell(tr["tcell"]), cz(tr["code"]), obs)


def coq_steps(case, trace):
    return clist("\n    " + coq_step(st, tr) for st, tr in zip(case["steps"], trace))


def model_fuel(case):
    """The fuel the Coq check works from: the harness' own cut-off, or a large bound when rounds could not be counted."""
    return UNCOUNTED_FUEL if case.pop("_uncounted", False) else case["fuel"]


def run_hist(case, stream="hist"):
    trace, registered = drive(case)
    ok, msg = oracle(case, trace, registered)
    coq = "(" + cpair(cz(case["size"]), cbool(case["crn"]), cnat(model_fuel(case)), coq_steps(case, trace)) + " : c03_case)"
    _LITS.setdefault(stream, []).append(coq)
    nkeys = len(registered)
    codes = sorted({tr["code"] for tr in trace})
    size = case["size"]
    tags = [f"codes{''.join(map(str, codes))}", f"ncols{len(case['steps'][0]['dtypes']) if case['steps'] else 0}",
            "size<=50" if size <= 50 else "size<=256" if size <= 256 else "size<=1001" if size <= 1001 else "size>1001",
            f"keys{'0' if nkeys == 0 else '1-9' if nkeys < 10 else '10-39' if nkeys < 40 else '40+'}",
            f"batches{len(case['steps'])}"]
    if "bad" in case:
        tags.append(f"bad:{case['bad']}")
    if any(tr["private"] is None for tr in trace) and case["crn"] and nkeys:
        tags.append("private_map_unreadable")
    obs = {"codes": [tr["code"] for tr in trace], "errors": [tr["err"] for tr in trace if tr["err"]][:3],
           "final": trace[-1]["obs"][:40] if trace else []}
    key = hashlib.sha1(json.dumps(case, sort_keys=True).encode()).hexdigest() if (nkeys or not case["crn"]) else None
    return Result(ok=ok, msg=msg, coq=coq, key=key, obs=obs, tags=tuple(tags))


def run_bad(case):
    return run_hist(case, "bad")


# ----------------------------------------------------------------------------------------------------------------
# conv / hash streams: the hash of ONE key, observed through the public API (the key registered alone in a fresh map
# cannot collide, so IndexMap[simulant] is hash(key, clock, size))
# ----------------------------------------------------------------------------------------------------------------
def public_hash(size, dtypes, key, t):
    import pandas as pd
    from vivarium.framework.randomness.index_map import IndexMap
    imap = IndexMap([f"k{j}" for j in range(len(dtypes))], size=size)
    clock, tcell = clock_value(t)
    imap.update(frame(dtypes, [0], [key]), clock)
    return _as_position(imap[pd.Index([0], dtype="int64")][0]), tcell


CONV_SIZES = [2 ** 61 - 1, 10 ** 10, 2 ** 62, 999999999989, 10 ** 6]


def gen_conv(rng):
    r = rng.random()
    size = rng.choice(CONV_SIZES)
    if r < 0.34:
        unit = rng.choice(["us", "ns", "s", "ms"])
        return {"size": size, "dtype": f"d:{unit}", "cell": ["d", gen_date(rng, rng.choice(DATE_MODES), rng.randint(0, 99), unit)]}
    if r < 0.67:
        return {"size": size, "dtype": "i", "cell": ["i", gen_int(rng, rng.choice(INT_MODES), rng.randint(0, 99), rng.choice(SIZES_SMALL))]}
    return {"size": size, "dtype": "f", "cell": ["f", float(gen_float(rng, rng.choice(FLOAT_MODES), rng.randint(0, 99))).hex()]}


def corpus_conv():
    vals = [0.3, 0.1, 0.7, -1e-20, 1.0 - 2.0 ** -53, 0.99999999995, 0.99999999999, -0.0, 2.0 ** 53 + 2, -2.5, 5e-324, 123.456]
    out = [{"dtype": "f", "cell": ["f", float(v).hex()]} for v in vals]
    out += [{"dtype": "i", "cell": ["i", v]} for v in [0, 1, 90000, 2 ** 63 - 1, -2 ** 63, -1, 83010348331692, 83010348331693, 10 ** 10]]
    out += [{"dtype": "d:ns", "cell": ["d", v]} for v in [0, -1, 999999999, 10 ** 9, -10 ** 9 - 1, 1120262400123456789]]
    out += [{"dtype": "d:us", "cell": ["d", v]} for v in [1120262400000000000, 999999000, -1000, 1120262400999999000]]
    out += [{"dtype": "d:ms", "cell": ["d", 1120262400999000000]}, {"dtype": "d:s", "cell": ["d", 1120262400000000000]},
            {"dtype": "d:s", "cell": ["d", -1000000000]}]
    return [dict(c, size=2 ** 61 - 1) for c in out]


def storage_for(rng_seed, dt, cells):
    """A random storage type that holds these cells (deterministic in the case)."""
    r = random.Random(rng_seed)
    if dt == "i":
        return "i:" + r.choice(admissible_int([c[1] for c in cells]))
    if dt == "f":
        return "f:" + r.choice(FLOAT_TYPES if all(f32_exact(float.fromhex(c[1])) for c in cells) else ["float64", "Float64"])
    return dt


def run_conv(case):
    """One value of one key column: its ten-digit conversion decides the position in a huge block (public API only)."""
    case = dict(case, dtype=storage_for(json.dumps(case, sort_keys=True), case["dtype"], [case["cell"]]))
    v, tcell = public_hash(case["size"], [case["dtype"]], [case["cell"]], ["i", 0])
    ok = v is not None and 0 <= v < case["size"]
    return Result(ok=ok, msg="" if ok else f"a key registered alone sits at {v}, outside [0,{case['size']})",
                  coq="(" + cpair(cz(case["size"]), coq_key([case["cell"]]), coq_cell(tcell), cz(-1 if v is None else v)) + " : Z * key * cell * Z)",
                  key=json.dumps(case), obs=v, tags=(case["dtype"],))


def gen_hashcase(rng):
    dts, unit = gen_schema(rng)
    size = rng.choice(SIZES_SMALL + SIZES_BADGCD + SIZES_BIG + [2 ** 62, 2 ** 63 - 1, 3, 2, 1])
    key = [gen_cell(rng, dt, rng.choice(DATE_MODES if dt.startswith("d:") else INT_MODES if dt == "i" else FLOAT_MODES),
                    rng.randint(0, 50), size) for dt in dts]
    return {"size": size, "dtypes": dts, "key": key, "t": rng.choice(gen_clock(rng, unit)) if rng.random() < 0.5 else ["i", rng.randint(0, 60)]}


def run_hashcase(case):
    seed = json.dumps(case, sort_keys=True)
    case = dict(case, dtypes=[storage_for(seed + str(j), dt, [c]) for j, (dt, c) in enumerate(zip(case["dtypes"], case["key"]))])
    v, tcell = public_hash(case["size"], case["dtypes"], case["key"], case["t"])
    ok = v is not None and 0 <= v < case["size"]
    return Result(ok=ok, msg="" if ok else f"a key registered alone sits at {v}, outside [0,{case['size']})",
                  coq="(" + cpair(cz(case["size"]), coq_key(case["key"]), coq_cell(tcell), cz(-1 if v is None else v)) + " : Z * key * cell * Z)",
                  key=json.dumps(case), obs=v, tags=(f"ncols{len(case['dtypes'])}", "ok" if ok else "out_of_range"))


# ----------------------------------------------------------------------------------------------------------------
def coq_eval_many(jobs):
    """jobs: [(fname, imports, defs, expr)] -> [(rc, output)], the files compiled in parallel (statistics only)."""
    import subprocess
    procs = []
    for fname, imports, defs, expr in jobs:
        path = os.path.join(GEN, fname)
        with open(path, "w") as f:
            f.write("\n".join([imports, "Local Open Scope Z_scope.", defs, f"Eval vm_compute in ({expr}).", ""]))
        procs.append(subprocess.Popen(["timeout", "600"] + COQC + [path], stdout=subprocess.PIPE, stderr=subprocess.PIPE,
                                      text=True, cwd=COQ))
    out = []
    for p in procs:
        o, e = p.communicate()
        out.append((p.returncode, o + e))
    return out


def extra(run):
    """Statistics measured by the model on a sample of this run's hist/bad cases (never decides anything)."""
    cap = 60 if run.tier == "quick" else 300
    total = [0, 0, 0, 0]
    ncases = 0
    jobs, sizes = [], []
    for sname in ("hist", "bad"):
        lits = _LITS.get(sname, [])[:cap]
        for k in range(0, len(lits), 100):
            chunk = lits[k:k + 100]
            jobs.append((f"stats_C03_{sname}_{k // 100}.v", "From Viv Require Import Common IndexMap.",
                         "Definition cases : list c03_case := " + clist("\n  " + c for c in chunk) + ".", "c03_stats cases"))
            sizes.append(len(chunk))
    for (rc, out), n in zip(coq_eval_many(jobs), sizes):
        m = re.search(r"=\s*\((-?\d+)(?:%Z)?,\s*(-?\d+)(?:%Z)?,\s*(-?\d+)(?:%Z)?,\s*(-?\d+)(?:%Z)?\)", out.replace("\n", " "))
        if rc == 0 and m:
            for i in range(4):
                total[i] += int(m.group(i + 1))
            ncases += n
        else:
            run.notes.append(f"a statistics file did not evaluate: {out[-300:]}")
    if ncases:
        run.notes.append(f"measured by the model on a sample of {ncases} of this run's hist+bad cases: {total[0]} cases "
                         f"({100.0 * total[0] / ncases:.0f}%) contain >= 1 colliding new key; {total[1]} of {total[2]} "
                         f"accepted keys collide; {total[3]}/{ncases} cases also agree EXACTLY on the positions of "
                         f"colliding keys (pandas' present tie order = the model's)")
        run.hist["stats:sample_cases"] = ncases
        run.hist["stats:cases_with_collision"] = total[0]
        run.hist["stats:colliding_keys"] = total[1]
        run.hist["stats:accepted_keys"] = total[2]
        run.hist["stats:cases_exact_incl_colliding"] = total[3]


# ----------------------------------------------------------------------------------------------------------------
# stream `query`: IndexMap.__getitem__ for whole requests (order, repeats, unknown labels, empty map, CRN off)
# ----------------------------------------------------------------------------------------------------------------
def gen_query(rng):
    case = gen_history(rng, nbatch=rng.choice([1, 2, 2, 3]), size=rng.choice(SIZES_SMALL + [1000, 10 ** 6]))
    if rng.random() < 0.12:
        case["crn"] = False
    known = []
    qs = [[[], [0], [3, 1]][: rng.randint(1, 3)]]
    for st in case["steps"]:
        known += st["labels"]
        here = []
        for _ in range(rng.randint(1, 3)):
            r = rng.random()
            pool = known if known else [0, 1]
            if r < 0.15:
                q = []
            elif r < 0.55:
                q = rng.sample(pool, rng.randint(1, min(len(pool), 8)))
            elif r < 0.75:
                q = [rng.choice(pool) for _ in range(rng.randint(2, 6))]            # repeated labels
            elif r < 0.9:
                q = rng.sample(pool, rng.randint(1, min(len(pool), 4))) + [max(pool) + rng.randint(1, 50)]   # unknown label
                rng.shuffle(q)
            else:
                q = list(pool)[::-1]
            here.append(q)
        qs.append(here)
    case["queries"] = qs
    return case


def corpus_query():
    one = lambda labels, vals, t: {"dtypes": ["i"], "labels": labels, "keys": [[["i", v]] for v in vals], "t": ["i", t]}
    return [{"size": 10, "crn": True, "fuel": FUEL, "qseed": 21, "steps": [one([0, 1, 2, 3], [5, 15, 25, 3], 1), one([4, 5, 7], [7, 8, 9], 2)],
             "queries": [[[], [0]], [[3, 0, 3], [0, 6], []], [[7, 0, 3, 0], [6], [5, 4]]]},
            {"size": 10, "crn": False, "fuel": FUEL, "qseed": 22, "steps": [one([4, 2], [1, 1], 0)], "queries": [[[9, 8]], [[2, 4, 77]]]}]


def run_querycase(case):
    trace, registered = drive(case)
    ok, msg = oracle(case, trace, registered)
    q0 = case.pop("_q0", [])
    # direct oracle: a request is answered label by label from the positions read in bulk, in request order; it fails
    # exactly when nothing is registered (RandomnessError) or a label is unknown (any other error)
    cur = {}
    for n, (qlist, have_map) in enumerate([(q0, False)] + [(tr["queries"], True) for tr in trace]):
        if n > 0:
            tr = trace[n - 1]
            if case["crn"]:
                cur = {l: p for l, p in tr["obs"]}
        for labels, code, res in qlist:
            if not ok:
                break
            if not case["crn"]:
                if code != 0 or res != list(labels):
                    ok, msg = False, f"CRN off: IndexMap[{labels}] gave code {code}, {res}"
            elif not cur:
                if code != 1:
                    ok, msg = False, f"nothing registered, IndexMap[{labels}] gave code {code} instead of a RandomnessError"
            elif any(l not in cur for l in labels):
                if code == 0:
                    ok, msg = False, f"IndexMap[{labels}] answered {res} although a label is unknown"
            elif code != 0 or res != [cur[l] for l in labels]:
                ok, msg = False, f"IndexMap[{labels}] gave code {code}, {res}; the positions are {[cur[l] for l in labels]}"
    cq = lambda q: cpair(czlist(q[0]), cz(q[1]), czlist(q[2]))
    lst = clist("\n    " + cpair(coq_step(st, tr), clist(cq(q) for q in tr["queries"])) for st, tr in zip(case["steps"], trace))
    coq = "(" + cpair(cz(case["size"]), cbool(case["crn"]), cnat(model_fuel(case)), clist(cq(q) for q in q0), lst) + " : cq_case)"
    nq = len(q0) + sum(len(tr["queries"]) for tr in trace)
    codes = sorted({q[1] for q in q0} | {q[1] for tr in trace for q in tr["queries"]})
    return Result(ok=ok, msg=msg, coq=coq, key=hashlib.sha1(json.dumps(case, sort_keys=True).encode()).hexdigest() if nq else None,
                  obs={"q0": q0, "queries": [tr["queries"] for tr in trace][:4]},
                  tags=(f"qcodes{''.join(map(str, codes))}", "crn" if case["crn"] else "crn_off"))


# ----------------------------------------------------------------------------------------------------------------
# stream `mgr`: a real RandomnessManager in a real simulation: block size, register_simulants on whole frames
# ----------------------------------------------------------------------------------------------------------------
MGR_COLS = ["k0", "k1", "k2", "x0", "x1"]


def gen_mgr(rng):
    nk = rng.choice([0, 1, 1, 2, 2, 3])
    kcols = rng.sample(["k0", "k1", "k2"], nk)                      # configuration order, any permutation
    dts = {"k0": rng.choice(["i", "f"]), "k1": rng.choice(["i", "f", "d:us", "d:ns", "d:s"]), "k2": rng.choice(["f", "i"]),
           "x0": "f", "x1": "i"}
    pop = rng.randint(1, 6)
    cfg = rng.choice([1, 1, 30, 97, 101, 1000, 10 ** 6])
    size = max(cfg, 10 * pop)
    regs, seen, nxt, total = [], set(), pop, 0
    nreg = rng.randint(1, 3)
    for r in range(nreg):
        n = pop if r == 0 else rng.randint(1, 5)
        if total + n > 0.5 * size:
            break
        labels = list(range(pop)) if r == 0 else list(range(nxt, nxt + n))
        if r > 0:
            nxt += n
        total += n
        present = list(MGR_COLS)
        rkind = rng.choice(["ok", "ok", "ok", "missing", "extra_only_order"]) if kcols else "ok"
        if rkind == "missing":
            present.remove(rng.choice(kcols))
        if rng.random() < 0.5:
            present.remove("x1")
        rng.shuffle(present)
        cols = []
        for name in present:
            dt = dts[name]
            mode = rng.choice(DATE_MODES if dt.startswith("d:") else ["small", "seq", "big", "neg"] if dt == "i" else ["dyadic", "decimal", "age"])
            cells = []
            for j in range(n):
                for _ in range(30):
                    c = gen_cell(rng, dt, mode, total * 7 + j, size)
                    if name != "k0" or (name, py_cell(c)) not in seen:       # k0 alone keeps the keys unique
                        break
                if name == "k0":
                    seen.add((name, py_cell(c)))
                cells.append(c)
            if dt == "i":
                dt = "i:" + rng.choice(admissible_int([c[1] for c in cells], "signed") or ["int64"])
            cols.append([name, dt, cells])
        regs.append({"where": "init" if r == 0 else "step", "labels": labels, "cols": cols})
    return {"cfg": cfg, "pop": pop, "kcols": kcols, "regs": regs, "seed": rng.randint(0, 9)}


def corpus_mgr():
    i = lambda vs: [["i", v] for v in vs]
    return [{"cfg": 1, "pop": 3, "kcols": ["k1", "k0"], "seed": 0, "regs": [
                {"where": "init", "labels": [0, 1, 2], "cols": [["x0", "f", [["f", (0.5).hex()]] * 3], ["k0", "i", i([5, 25, 3])], ["k1", "i", i([1, 1, 1])]]},
                {"where": "step", "labels": [3, 4], "cols": [["k1", "i", i([1, 2])], ["x1", "i", i([0, 0])]]},
                {"where": "step", "labels": [5, 6], "cols": [["k1", "i", i([1, 2])], ["k0", "i", i([7, 7])]]}]},
            {"cfg": 1, "pop": 2, "kcols": [], "seed": 1, "regs": [
                {"where": "init", "labels": [0, 1], "cols": [["k0", "i", i([5, 5])]]}]}]


def run_mgr(case):
    import pandas as pd
    from vivarium import Component
    from vivarium.framework.engine import SimulationContext
    from vivarium.framework.randomness.exceptions import RandomnessError
    from vivarium.framework.randomness.index_map import IndexMap
    boot.reset_contexts()
    events = []           # per registration: dict(code, err, clock)
    instances = []

    def make_frame(reg):
        data = {}
        for name, dt, cells in reg["cols"]:
            col = column(dt, cells)
            data[name] = col.array
        return pd.DataFrame(data, index=pd.Index(reg["labels"], dtype="int64"))

    class Registrar(Component):
        @property
        def name(self):
            return "registrar"

        @property
        def columns_created(self):
            return ["probe_col"]

        def setup(self, builder):
            self.register = builder.randomness.register_simulants
            self.clock = builder.time.clock()
            self.pending = [r for r in case["regs"] if r["where"] == "step"]

        def attempt(self, reg):
            t = self.clock()
            try:
                self.register(make_frame(reg))
                code, err = 0, ""
            except _Cut as e:
                code, err = e.code, "collision loop cut"
            except RandomnessError as e:
                code, err = 1, str(e)[:100]
            except Exception as e:
                code, err = 2, f"{type(e).__name__}: {e}"[:160]
            events.append({"code": code, "err": err, "t": t})

        def on_initialize_simulants(self, pop_data):
            self.population_view.update(pd.DataFrame({"probe_col": 0}, index=pop_data.index))
            if pop_data.creation_time is not None and not events:
                self.attempt(case["regs"][0])

        def on_time_step(self, event):
            if self.pending:
                self.attempt(self.pending.pop(0))

    class _Cut(Exception):
        def __init__(self, code):
            self.code = code

    orig_init, orig_update = IndexMap.__init__, IndexMap.update
    uncounted = []

    def init(self, *a, **kw):
        orig_init(self, *a, **kw)
        instances.append(self)

    def update(self, new_keys, clock_time):
        code, err = guarded_update(self, new_keys, clock_time, FUEL, call=orig_update)
        if not COUNTED[0]:
            uncounted.append(1)
        if code in (3, 4):
            raise _Cut(code)
        if code == 1:
            raise RandomnessError(err)
        if code == 2:
            raise RuntimeError(err)

    IndexMap.__init__, IndexMap.update = init, update
    try:
        nsteps = sum(1 for r in case["regs"] if r["where"] == "step")
        cfg = {"population": {"population_size": case["pop"]},
               "time": {"start": {"year": 2005, "month": 7, "day": 1}, "end": {"year": 2005, "month": 7, "day": 2 + nsteps}, "step_size": 1},
               "randomness": {"key_columns": list(case["kcols"]), "map_size": case["cfg"], "random_seed": case["seed"]}}
        sim = SimulationContext(components=[Registrar()], configuration=cfg, logging_verbosity=0)
        boot.quiet_logging()
        sim.setup()
        n_after_setup = len(instances)
        sim.initialize_simulants()
        trace_imap = instances[-1] if instances else None
        # positions after each registration are read at the end of the call that made it: replay the reads here
        for _ in range(nsteps):
            sim.step()
    finally:
        IndexMap.__init__, IndexMap.update = orig_init, orig_update
    if len(instances) != 1 or len(events) != len(case["regs"]):
        return Result(ok=True, coq=None, key=None, obs=f"{len(instances)} IndexMap instances, {len(events)} registrations seen",
                      tags=("not_observable",))
    imap = instances[0]
    size_obs = len(imap)
    return _finish_mgr(case, imap, size_obs, events, bool(uncounted))


def _finish_mgr(case, imap, size_obs, events, uncounted):
    """Positions are read after the run: they never change once assigned (checked by the other streams), so the final
    lookup of the simulants registered up to each registration is what was there at the time."""
    import pandas as pd
    ids = {name: 10 * (i + 1) for i, name in enumerate(MGR_COLS)}
    kcols = case["kcols"]
    size_want = max(case["cfg"], 10 * case["pop"])
    ok, msg = True, ""
    if size_obs != size_want:
        ok, msg = False, f"block size {size_obs}, configuration map_size {case['cfg']} and population {case['pop']} call for {size_want}"
    regs_coq, accepted = [], []
    hist_steps, hist_trace, registered = [], [], []
    qrng = random.Random(case["seed"])
    for reg, ev in zip(case["regs"], events):
        names = [c[0] for c in reg["cols"]]
        missing = [k for k in kcols if k not in names]
        t = ev["t"]
        tspec = ["d", int(t.as_unit("ns").value), t.unit] if isinstance(t, pd.Timestamp) else ["i", int(t)]
        tcell = clock_value(tspec)[1]
        if missing and ev["code"] != 1 and ok:
            ok, msg = False, f"key column {missing} missing from the frame, register_simulants gave code {ev['code']} {ev['err']}"
        if not missing and kcols:
            by = {c[0]: c for c in reg["cols"]}
            keys = [[by[k][2][i] for k in kcols] for i in range(len(reg["labels"]))]
            st = {"dtypes": [by[k][1] for k in kcols], "labels": reg["labels"], "keys": keys, "t": tspec}
            if ev["code"] == 0:
                accepted += reg["labels"]
                registered += [[l, k, st["dtypes"]] for l, k in zip(reg["labels"], keys)]
        else:
            st = None
        try:
            obs = read_positions(imap, list(accepted), qrng) if kcols else read_positions(imap, list(reg["labels"]), qrng)
        except Exception as e:
            return Result(ok=False, msg=f"IndexMap lookup of registered simulants failed: {type(e).__name__}: {e}"[:200])
        if st is not None:
            hist_steps.append(st)
            hist_trace.append({"code": ev["code"], "err": ev["err"], "obs": obs, "tcell": tcell, "private": None})
        fr = clist(cpair(cz(ids[c[0]]), clist(coq_cell(x) for x in c[2])) for c in reg["cols"])
        regs_coq.append(cpair(czlist(reg["labels"]), fr, coq_cell(tcell), cz(ev["code"]), clist(cpair(cz(l), cz(-1 if p is None else p)) for l, p in obs)))
    if ok and kcols and hist_steps:
        ok, msg = oracle({"size": size_obs, "crn": True, "steps": hist_steps}, hist_trace, registered)
    fuel = UNCOUNTED_FUEL if uncounted else FUEL
    coq = "(" + cpair(cz(case["cfg"]), cz(case["pop"]), czlist(ids[k] for k in kcols), cz(size_obs), cnat(fuel),
                      clist("\n    " + r for r in regs_coq)) + " : mgr_case)"
    codes = "".join(str(e["code"]) for e in events)
    return Result(ok=ok, msg=msg, coq=coq, key=json.dumps(case, sort_keys=True), obs={"size": size_obs, "codes": codes},
                  tags=(f"nkey{len(kcols)}", f"codes{''.join(sorted(set(codes)))}", "floor" if 10 * case["pop"] > case["cfg"] else "configured"))


# ----------------------------------------------------------------------------------------------------------------
# stream `deep`: TERMINATING registrations that need many collision rounds (70-110 keys whose hashes coincide under
# every salt, in a block with plenty of room whose size is coprime to 111111: C03_fuel_single_column says the loop
# finishes).  Every offered key must end up registered at a finite, in-range, distinct integer position.
# ----------------------------------------------------------------------------------------------------------------
DEEP_FUEL = 400
DEEP_SIZES = [1009, 4099, 10007, 100003, 10 ** 6]


def gen_deep(rng, n=None):
    n = n or rng.randint(70, 95)
    size = rng.choice(DEEP_SIZES)
    variant = rng.choice(["frac", "frac", "int10", "second"])
    if variant == "frac":         # one float column, every value has the same fractional part
        frac = rng.choice([0.5, 0.25, 0.125, 0.75, 0.0])
        ints = rng.sample(range(0, 400), n)
        dts, keys = ["f"], [[["f", float(i + frac).hex()]] for i in ints]
    elif variant == "int10":      # one int column, the values differ by multiples of 10**10: one ten-digit conversion
        v0 = rng.randint(0, 10 ** 6)
        dts, keys = ["i"], [[["i", v0 + 10 ** 10 * j]] for j in rng.sample(range(0, 900), n)]
    else:                         # one datetime column, all instants inside one second
        sec = (1_120_000_000 + rng.randint(0, 10 ** 7)) * 10 ** 9
        dts, keys = ["d:ns"], [[["d", sec + j]] for j in rng.sample(range(0, 10 ** 9), n)]
    t = rng.choice([["i", 0], ["i", 7], ["d", 1120262400000000000, "us"]])
    t2 = ["i", t[1] + 1] if t[0] == "i" else ["d", t[1] + 86400 * 10 ** 9, "us"]
    cut = rng.choice([n, n, rng.randint(n // 2, n - 5)])
    labels = list(range(n))
    steps = [{"dtypes": list(dts), "labels": labels[:cut], "keys": keys[:cut], "t": t}]
    if cut < n:
        steps.append({"dtypes": list(dts), "labels": labels[cut:], "keys": keys[cut:], "t": t2})
    fit_types(steps, rng, mix=False)
    return {"size": size, "crn": True, "fuel": DEEP_FUEL, "steps": steps, "qseed": rng.getrandbits(32), "deep": variant}


def corpus_deep():
    return [{"size": 1009, "crn": True, "fuel": DEEP_FUEL, "qseed": 31, "deep": "frac", "steps": [
        {"dtypes": ["f"], "labels": list(range(70)), "keys": [[["f", float(j + 0.5).hex()]] for j in range(70)], "t": ["i", 0]}]}]


def run_deep(case):
    r = run_hist(case, "deep")
    if r.ok:
        trace_codes = r.obs["codes"]
        nkeys = sum(len(st["keys"]) for st in case["steps"])
        got = r.obs["final"]
        if any(c != 0 for c in trace_codes):
            r.ok, r.msg = False, f"a terminating registration of {nkeys} unique keys did not complete: codes {trace_codes} {r.obs['errors']}"
    return r


def shrink_hist(case):
    """Smaller variants of a history: drop a batch, halve a batch, drop one key, drop a key column."""
    import copy
    steps = case["steps"]
    if len(steps) > 1:
        for i in range(len(steps)):
            c = copy.deepcopy(case)
            del c["steps"][i]
            yield c
    for i, st in enumerate(steps):
        n = len(st["keys"])
        if n >= 4:
            for lo, hi in ((0, n // 2), (n // 2, n)):
                c = copy.deepcopy(case)
                c["steps"][i]["keys"] = c["steps"][i]["keys"][lo:hi]
                c["steps"][i]["labels"] = c["steps"][i]["labels"][lo:hi]
                yield c
    for i, st in enumerate(steps):
        for j in range(len(st["keys"])):
            c = copy.deepcopy(case)
            del c["steps"][i]["keys"][j]
            del c["steps"][i]["labels"][j]
            yield c
    ncols = len(steps[0]["dtypes"]) if steps else 0
    if ncols > 1 and all(len(st["dtypes"]) == ncols for st in steps):
        for j in range(ncols):
            c = copy.deepcopy(case)
            for st in c["steps"]:
                del st["dtypes"][j]
                for k in st["keys"]:
                    del k[j]
            yield c


def streams(tier):
    imp = "From Viv Require Import Common IndexMap."
    return [
        Stream(name="hist", imports=imp, check="check_c03", gen=gen_hist, run=run_hist, corpus=corpus_hist, shrink=shrink_hist,
               n_quick=100, n_thorough=1600),
        Stream(name="bad", imports=imp, check="check_c03", gen=gen_bad, run=run_bad, corpus=corpus_bad, shrink=shrink_hist,
               n_quick=60, n_thorough=600),
        Stream(name="conv", imports=imp, check="check_hash", gen=gen_conv, run=run_conv, corpus=corpus_conv,
               n_quick=240, n_thorough=1500),
        Stream(name="deep", imports=imp, check="check_c03", gen=gen_deep, run=run_deep, corpus=corpus_deep, shrink=shrink_hist,
               n_quick=2, n_thorough=10),
        Stream(name="query", imports=imp, check="check_cq", gen=gen_query, run=run_querycase, corpus=corpus_query,
               n_quick=50, n_thorough=600),
        Stream(name="mgr", imports=imp, check="check_mgr", gen=gen_mgr, run=run_mgr, corpus=corpus_mgr,
               n_quick=40, n_thorough=400),
        Stream(name="hash", imports=imp, check="check_hash", gen=gen_hashcase, run=run_hashcase,
               n_quick=200, n_thorough=2000),
    ]
