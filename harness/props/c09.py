"""C09 - Simulant initializers run in dependency order or not at all (DESIGN.md section 5, C09).

Tie to the code (stream `graphs`): random programs of probe components make their declarations through the REAL builder
services (builder.population.initializes_simulants / Component.columns_created + initialization_requirements,
builder.value.register_value_producer / register_value_modifier / get_value, builder.randomness.get_stream,
builder.resources.add_resources) in a real SimulationContext, supplied in random orders.  Observed: the error class if
the simulation refuses (at setup or at the first creation of simulants), else the nodes and edges of
ResourceManager.graph and the order in which the initializers are actually CALLED at the initial creation and at two
later births (probe log; the two framework initializers are logged through wrappers installed from outside).
Coq decides (Resources.check_case): model registrations = observed nodes, model edge set = observed edge set, refusal
parity and class, and every observed call order passes the VERIFIED checker `respects_with` (C09_checker_sound), so
any valid topological order is accepted.
Direct oracle (python, independent of the Coq model): a dependency graph built from the program by the documented
rules; refusal <=> duplicate producer or cycle; on refusal no initializer ran; otherwise every creation called every
registered initializer exactly once, with exactly the new simulants' index, after all initializers it transitively
depends on.
"""
import random
import types

import boot
from core import Result, Stream, clist, cpair, cz, czlist

PROPERTY = "C09"
CLAIM = {
    "technique": "Coq proof of a Gallina model (verified Kahn sort + registration rules) tied by a vm_compute correspondence on real contexts",
    "text": "For ALL declaration lists in any supply order the model's initializer order contains every registered "
            "initializer once and respects the transitive closure of column / value (source, every modifier, "
            "pipelines as sources) / stream requirements; duplicates and every cycle are refused, acyclic accepted "
            "registrations are never refused, refusal is invariant under node renaming, unmet requirements change nothing "
            "a refused request is inert and every repeated request gets the first answer (22 theorems, closed). The real "
            "ResourceManager graph (same initializer groups and - by a reachability function proved exact - the same "
            "must-precede relation among them), refusals (also in the reversed supply order, and persistent and inert when the order is requested "
            "again through iteration, sorted_nodes, the simulant creator, initialize_simulants) and the ACTUAL initializer "
            "call orders of random programs built through every public declaration API agree with the model and pass "
            "the verified order checker.",
    "note": "Trusted: the hand transcription of resource.py / population/manager.py / values.py / randomness/manager.py "
            "into Resources.v (validated on the sampled programs only), structured resource names (no dots in user "
            "names), the probe harness incl. logging wrappers on the two framework initializers, reading "
            "ResourceManager.graph of the manager found among the context's private attributes, networkx behaviour as "
            "modelled by Kahn.v (only validity of its order is needed, not equality).",
}
RULE = ("graphs: corpus (every API entry point - initializes_simulants, initialization_requirements, register_value_producer, "
        "register_rate_producer, register_value_modifier, time.register_step_size_modifier, pipelines as sources / modifiers - "
        "x each requires_* keyword alone and all three mixed, consumer shallow / producer 3 deep, keyword and positional "
        "calls; every callable flavour - function, lambda, bound method, functools.partial, callable object without / with a "
        "str / int `name`, scalar / categorical / interpolated LookupTable built in setup - as source, as modifier and as "
        "step-size modifier with requires_* chains; results stratifications / observations; F-Q shape in two supply orders, cycles through a stream / modifier / pipeline source, every "
        "duplicate kind, unmet requirements, null initializers, raw registrations) then random programs of 1-8 (thorough: "
        "1-12) probe components over ranked entities (initializers, pipelines with function / pipeline sources and "
        "modifiers, streams with CRN key columns, raw add_resources calls), declarations distributed over components "
        "independently of rank and components shuffled; modes dag / planted cycle of 1-4 hops through columns, values, "
        "modifiers, pipeline sources, streams / duplicate producer / fully random. distinct = distinct canonical "
        "program; trivial = no component")
ASSUMPTIONS = [
    "components do not swallow the framework's registration errors (a refusal propagates out of setup / initialize_simulants)",
    "user-chosen column / value / stream / component names contain no dot (the model's resource names are structured)",
    "what a real context declares before the user's components (population manager, clock) is read off an empty "
    "context each run and translated back to API-level declarations",
]
TRUSTED = [
    "C09: the context's ResourceManager is found by type among the context's (private) attributes to reach its public "
    "`graph` property; the two framework "
    "initializers are observed through logging wrappers installed on their defining classes from the harness process "
    "(behaviour unchanged, restored after each case)",
]

CONFIG = {"population": {"population_size": 3},
          "time": {"start": {"year": 2005, "month": 7, "day": 1}, "end": {"year": 2005, "month": 7, "day": 9},
                   "step_size": 1}}
BIRTHS = [2, 1]
RAW_TYPES = {"column": "RwColumn", "value": "RwValue", "value_source": "RwSource",
             "missing_value_source": "RwMissing", "stream": "RwStream"}


# ----------------------------------------------------------------------------------------------------------------
# identifiers: names -> numbers (separate number spaces per kind; unknown strings get ids no model name can have)
# ----------------------------------------------------------------------------------------------------------------
class Ids:
    def __init__(self):
        self.col = {"tracked": 0}
        self.val = {}
        self.stream = {}
        self.comp = {}
        self.fun = {}
        self.unknown = {}

    def _get(self, table, name, base):
        if name not in table:
            table[name] = base + len(table)
        return table[name]

    def c(self, name):
        if name.startswith("c") and name[1:].isdigit():
            return 10 + int(name[1:])
        return self._get(self.col, name, 1000)

    def v(self, name):
        if name.startswith("v") and name[1:].isdigit():
            return int(name[1:])
        return self._get(self.val, name, 1000)

    def s(self, name):
        if name.startswith("s") and name[1:].isdigit():
            return int(name[1:])
        return self._get(self.stream, name, 1000)

    def p(self, name):
        if name.startswith("p") and name[1:].isdigit():
            return int(name[1:])
        return self._get(self.comp, name, 1000)

    def f(self, name):
        # "<component>.mod_<j>"
        owner, _, meth = name.partition(".")
        if owner.startswith("p") and owner[1:].isdigit() and meth.startswith("mod_") and meth[4:].isdigit():
            return int(owner[1:]) * 100 + int(meth[4:])
        return self._get(self.fun, name, 100000)

    def unk(self, name):
        return self._get(self.unknown, name, 900000)

    def res(self, s):
        """resource string -> Gallina `res` term"""
        typ, _, rest = s.partition(".")
        if typ == "column":
            return f"RCol {cz(self.c(rest))}"
        if typ == "value":
            return f"RVal {cz(self.v(rest))}"
        if typ == "value_source":
            return f"RSrc {cz(self.v(rest))}"
        if typ == "missing_value_source":
            return f"RMiss {cz(self.v(rest))}"
        if typ == "stream":
            return f"RStream {cz(self.s(rest))}"
        if typ == "null" and rest.isdigit():
            return f"RNull {cz(int(rest))}"
        if typ == "value_modifier":
            parts = rest.split(".", 2)
            if len(parts) == 3 and parts[1].isdigit():
                v, i, nm = parts
                if nm.startswith("v") and nm[1:].isdigit() or nm in self.val:
                    m = f"(MPipe {cz(self.v(nm))})"
                else:
                    m = f"(MFun {cz(self.f(nm))})"
                return f"RMod {cz(self.v(v))} {cz(int(i))} {m}"
        return f"RNull {cz(self.unk(s))}"


# ----------------------------------------------------------------------------------------------------------------
# what a real context declares before the user's components (read off an empty context, once per process)
# ----------------------------------------------------------------------------------------------------------------
_AMBIENT = None


def _defining_class(obj, meth):
    for k in type(obj).__mro__:
        if meth in k.__dict__:
            return k
    raise AttributeError(meth)


def _split_deps(deps):
    rc, rv, rs, other = [], [], [], []
    for d in deps:
        typ, _, rest = d.partition(".")
        (rc if typ == "column" else rv if typ == "value" else rs if typ == "stream" else other).append(
            rest if typ in ("column", "value", "stream") else d)
    return rc, rv, rs, other


def resource_manager(sim, producers=()):
    """The context's ResourceManager.  It is held in a private attribute, so it is found by type: among the context's
    attributes, then among their attributes, then among all live managers (the one whose graph holds one of
    `producers`).  None if it cannot be found (the caller then observes the call orders only - counted, not failed)."""
    import gc
    from vivarium.framework.resource import ResourceManager
    level1 = list(getattr(sim, "__dict__", {}).values())
    for v in level1:
        if isinstance(v, ResourceManager):
            return v
    for v in level1:
        for w in (list(v.values()) if isinstance(v, dict) else list(v) if isinstance(v, (list, tuple)) else
                  list(getattr(v, "__dict__", {}).values())):
            if isinstance(w, ResourceManager):
                return w
    live = [o for o in gc.get_objects() if isinstance(o, ResourceManager)]
    if producers is None:                      # the only context built so far in this process (see ambient())
        return live[-1] if len(live) == 1 else None
    wanted = {id(p) for p in producers}
    for o in live:
        try:
            if any(id(getattr(n.producer, "__self__", None)) in wanted for n in o.graph.nodes):
                return o
        except Exception:          # noqa: BLE001 - a manager of another, half-built context
            continue
    return None


def ambient():
    """-> dict(decls=[API-level declarations as JSON], inits=[(class, method name, ambient name)])"""
    global _AMBIENT
    if _AMBIENT is not None:
        return _AMBIENT
    from vivarium.framework.engine import SimulationContext
    boot.reset_contexts()
    sim = SimulationContext(components=[], configuration=CONFIG, logging_verbosity=0)
    boot.quiet_logging()
    sim.setup()
    decls, inits, seen = [], [], set()
    mgr = resource_manager(sim, None)
    if mgr is None:
        raise RuntimeError("C09 harness: no ResourceManager reachable from an empty context")
    for g in mgr.graph.nodes:
        if id(g) in seen:
            continue
        seen.add(id(g))
        names = [n.partition(".")[2] for n in g.names]
        rc, rv, rs, other = _split_deps(g.dependencies)
        if g.type in ("column", "null") and hasattr(g.producer, "__self__") and not other:
            owner = g.producer.__self__
            creates = names if g.type == "column" else []
            if "tracked" not in creates and "tracked" in rc:
                rc = [c for c in rc if c != "tracked"]            # the implicit dependency
            decls.append(["ainit", owner.name, creates, rc, rv, rs])
            inits.append((_defining_class(owner, g.producer.__name__), g.producer.__name__, owner.name))
        elif g.type == "value_source" and not other and len(names) == 1:
            decls.append(["producer", names[0], None, rc, rv, rs])
        elif g.type == "stream" and len(names) == 1:
            decls.append(["stream", names[0], False])
        elif g.type == "value":
            pass                                                     # created by on_post_setup from the pipelines
        else:
            raise RuntimeError(f"C09 harness: cannot translate the framework's own registration {g.names} {g.dependencies}")
    _AMBIENT = {"decls": decls, "inits": inits}
    return _AMBIENT


# ----------------------------------------------------------------------------------------------------------------
# probe components
# ----------------------------------------------------------------------------------------------------------------
def _classes():
    from vivarium import Component

    class Probe(Component):
        """Makes the declarations of its spec, in order, through the real builder services."""

        def __init__(self, spec, run):
            super().__init__()
            self.spec, self.run = spec, run

        @property
        def name(self):
            return self.spec["name"]

        def _initializer(self, ident):
            log = self.run["log"]

            def init(slf, pop_data):
                log.append((ident, [int(i) for i in pop_data.index]))
            init.__name__ = f"init_{ident}"
            return types.MethodType(init, self)

        def _callable(self, builder, flavour, j, step=False):
            """A source / modifier callable of the requested flavour and the name _get_modifier_name documents for it
            (None where the harness does not predict it).  Step-size modifiers must return real step sizes."""
            import functools

            import pandas as pd

            def body(index, value=None):
                return pd.Series(pd.Timedelta(days=1), index=index) if step else value
            me = self.spec["name"]
            if flavour in (None, "bound"):
                def mod(slf, index, value=None):
                    return body(index, value)
                mod.__name__ = f"mod_{j}"
                return types.MethodType(mod, self), f"{me}.mod_{j}"
            if flavour == "function":
                def fn(index, value=None):
                    return body(index, value)
                fn.__name__ = f"fn_{me}_{j}"
                return fn, fn.__name__
            if flavour == "lambda":
                return (lambda index, value=None: body(index, value)), "<lambda>"
            if flavour == "partial":
                return functools.partial(lambda tag, index, value=None: body(index, value), j), "partial.__call__"
            if flavour in ("object", "named_object", "named_object_int"):
                class Obj:
                    def __call__(slf, index, value=None):
                        return body(index, value)
                o = Obj()
                if flavour == "named_object":
                    o.name = f"nc_{me}_{j}"
                elif flavour == "named_object_int":
                    o.name = 100000 + 100 * int(me[1:]) + j if me[1:].isdigit() else 7
                return o, (str(o.name) if hasattr(o, "name") else "Obj.__call__")
            if flavour == "table_scalar":
                t = builder.lookup.build_table(5.0)
            elif flavour == "table_categorical":
                t = builder.lookup.build_table(pd.DataFrame({"k": ["a", "b"], "val": [1.0, 2.0]}), key_columns=["k"],
                                               value_columns=["val"])
            elif flavour == "table_interpolated":
                t = builder.lookup.build_table(pd.DataFrame({"x_start": [0.0, 1.0], "x_end": [1.0, 2.0], "val": [1.0, 2.0]}),
                                               parameter_columns=["x"], value_columns=["val"])
            else:
                raise ValueError(flavour)
            return t, str(getattr(t, "name", None))

        def setup(self, builder):
            nmod = 0
            pos = bool(self.spec.get("pos"))          # positional calls (documented parameter order) instead of keywords

            def reqs(f, head, rc, rv, rs):
                if pos:
                    return f(*head, list(rc), list(rv), list(rs))
                return f(*head, requires_columns=list(rc), requires_values=list(rv), requires_streams=list(rs))
            for call in self.spec["calls"]:
                kind = call[0]
                if kind == "init":
                    _, creates, rc, rv, rs = call
                    reqs(builder.population.initializes_simulants, (self._initializer(self.spec["name"]), list(creates)),
                         rc, rv, rs)
                elif kind in ("producer", "rate_producer"):
                    _, v, src, rc, rv, rs = call[:6]
                    nsrc = getattr(self, "_nsrc", 0) + 1
                    self._nsrc = nsrc
                    source = builder.value.get_value(src) if src is not None else \
                        self._callable(builder, call[6] if len(call) > 6 else "lambda", 50 + nsrc)[0]
                    f = builder.value.register_value_producer if kind == "producer" else builder.value.register_rate_producer
                    reqs(f, (v, source), rc, rv, rs)
                elif kind == "modifier":
                    _, v, mut, rc, rv, rs = call[:6]
                    if mut is not None:
                        modifier = builder.value.get_value(mut)
                    else:
                        nmod += 1
                        modifier, nm = self._callable(builder, call[6] if len(call) > 6 else "bound", nmod)
                        self.run["modnames"][(self.spec["name"], nmod)] = nm
                    reqs(builder.value.register_value_modifier, (v, modifier), rc, rv, rs)
                elif kind == "step_modifier":
                    _, rc, rv, rs = call[:4]
                    nmod += 1
                    modifier, nm = self._callable(builder, call[4] if len(call) > 4 else "bound", nmod, step=True)
                    self.run["modnames"][(self.spec["name"], nmod)] = nm
                    reqs(builder.time.register_step_size_modifier, (modifier,), rc, rv, rs)
                elif kind == "get_value":
                    builder.value.get_value(call[1])
                elif kind == "stream":
                    builder.randomness.get_stream(call[1], initializes_crn_attributes=bool(call[2]))
                elif kind == "strat":
                    _, nm, rc, rv = call
                    builder.results.register_stratification(nm, ["a", "b"], mapper=lambda df: "a", is_vectorized=True,
                                                            requires_columns=list(rc), requires_values=list(rv))
                elif kind == "observe":
                    _, nm, rc, rv = call
                    builder.results.register_adding_observation(nm, requires_columns=list(rc), requires_values=list(rv))
                elif kind == "raw":
                    _, typ, names, deps, pid = call
                    builder.resources.add_resources(typ, list(names), self._initializer(f"raw{pid}"), list(deps))
                else:
                    raise ValueError(kind)

    class AutoProbe(Probe):
        """Declares its initializer the way ordinary components do: columns_created + initialization_requirements."""

        @property
        def columns_created(self):
            return list(self.spec["auto"][0])

        @property
        def initialization_requirements(self):
            _, rc, rv, rs = self.spec["auto"]
            return {"requires_columns": list(rc), "requires_values": list(rv), "requires_streams": list(rs)}

        def on_initialize_simulants(self, pop_data):
            self.run["log"].append((self.spec["name"], [int(i) for i in pop_data.index]))

    class Birther(Component):
        @property
        def name(self):
            return "birther"

        def __init__(self, run):
            super().__init__()
            self.run = run

        def setup(self, builder):
            self.creator = builder.population.get_simulant_creator()
            self.resources = builder.resources          # public ResourceInterface: iterating it asks for the order
            self.state = builder.lifecycle.current_state()

        def on_time_step(self, event):
            self.birth()

        def birth(self):
            if self.run["births"]:
                k = self.run["births"].pop(0)
                self.run["marks"].append(len(self.run["log"]))
                self.run["born"].append([int(i) for i in self.creator(k, {"sim_state": "time_step"})])
                self.run["marks"].append(len(self.run["log"]))

    return Probe, AutoProbe, Birther


class AmbientLog:
    """Logging wrappers around the framework's own initializers (class level, harness process only)."""

    def __init__(self, run):
        self.run, self.saved = run, []

    def __enter__(self):
        for cls, meth, name in ambient()["inits"]:
            orig = cls.__dict__[meth]
            log = self.run["log"]

            def wrapper(slf, pop_data, _orig=orig, _name=name):
                log.append((_name, [int(i) for i in pop_data.index]))
                return _orig(slf, pop_data)
            wrapper.__name__ = meth
            setattr(cls, meth, wrapper)
            self.saved.append((cls, meth, orig))
        return self

    def __exit__(self, *a):
        for cls, meth, orig in self.saved:
            setattr(cls, meth, orig)


def classify(e):
    from vivarium.framework.population.exceptions import PopulationError
    from vivarium.framework.randomness.exceptions import RandomnessError
    from vivarium.framework.resource import ResourceError
    from vivarium.framework.values import DynamicValueError
    for k, code in ((PopulationError, 1), (DynamicValueError, 2), (RandomnessError, 3), (ResourceError, 4)):
        if isinstance(e, k):
            return code
    return 9


# ----------------------------------------------------------------------------------------------------------------
# the program as API-level declarations (call order), for Coq and for the oracle
# ----------------------------------------------------------------------------------------------------------------
RESULTS_BUILTINS = {"event_time", "current_time", "event_step_size"}


def step_size_pipeline():
    """name of the clock's step-size pipeline (the first pipeline the framework itself produces)"""
    for d in ambient()["decls"]:
        if d[0] == "producer":
            return d[1]
    raise RuntimeError("C09 harness: the framework produces no step-size pipeline")


def translate(call, comp_name):
    """one builder call -> the API-level declarations of the model's language (documented rules):
       register_rate_producer = register_value_producer; builder.time.register_step_size_modifier = a modifier of the
       clock's step-size pipeline; a stratification / observation requests (get_value) every value it requires."""
    kind = call[0]
    if kind == "init":
        return [["init", comp_name] + list(call[1:])]
    if kind in ("producer", "rate_producer"):
        return [["producer"] + list(call[1:6])]
    if kind == "modifier":
        return [list(call[:6])]
    if kind == "step_modifier":
        return [["modifier", step_size_pipeline(), None] + list(call[1:4])]
    if kind in ("strat", "observe"):
        seen, out = set(), []
        for v in call[3]:
            if v not in seen and v not in RESULTS_BUILTINS:
                seen.add(v)
                out.append(["get_value", v])
        return out
    return [list(call)]


def declarations(case):
    """-> (decls, owners): the declarations in the order the calls are made - the framework's own first, then each
    component's setup calls, then its automatic initializer registration - and the component making each."""
    out = [list(d) for d in ambient()["decls"]]
    owners = [None] * len(out)
    for comp in case["comps"]:
        for call in comp["calls"]:
            ds = translate(call, comp["name"])
            out += ds
            owners += [comp["name"]] * len(ds)
        if comp.get("auto") is not None:
            out.append(["init", comp["name"]] + list(comp["auto"]))
            owners.append(comp["name"])
    return out, owners


def coq_decl(ids, d, amb_ids):
    kind = d[0]
    if kind in ("init", "ainit"):
        _, comp, creates, rc, rv, rs = d
        cid = amb_ids[comp] if kind == "ainit" else ids.p(comp)
        return (f"DInit {cz(cid)} {czlist(map(ids.c, creates))} {czlist(map(ids.c, rc))} "
                f"{czlist(map(ids.v, rv))} {czlist(map(ids.s, rs))}")
    if kind == "producer":
        _, v, src, rc, rv, rs = d
        s = "SFun" if src is None else f"(SPipe {cz(ids.v(src))})"
        return f"DProducer {cz(ids.v(v))} {s} {czlist(map(ids.c, rc))} {czlist(map(ids.v, rv))} {czlist(map(ids.s, rs))}"
    if kind == "modifier":
        _, v, mut, rc, rv, rs, fid = d
        u = f"(UFun {cz(fid)})" if mut is None else f"(UPipe {cz(ids.v(mut))})"
        return f"DModifier {cz(ids.v(v))} {u} {czlist(map(ids.c, rc))} {czlist(map(ids.v, rv))} {czlist(map(ids.s, rs))}"
    if kind == "get_value":
        return f"DGetValue {cz(ids.v(d[1]))}"
    if kind == "stream":
        return f"DStream {cz(ids.s(d[1]))} {'true' if d[2] else 'false'}"
    if kind == "raw":
        _, typ, names, deps, pid = d
        t = RAW_TYPES.get(typ, "RwUnknown")
        namer = {"column": ids.c, "value": ids.v, "value_source": ids.v, "missing_value_source": ids.v,
                 "stream": ids.s}.get(typ, ids.unk)
        return f"DRaw {t} {czlist(map(namer, names))} {cz(200 + pid)} {clist('(' + ids.res(x) + ')' for x in deps)}"
    raise ValueError(kind)


# ----------------------------------------------------------------------------------------------------------------
# direct oracle: dependency graph by the documented rules (independent of the Coq model)
# ----------------------------------------------------------------------------------------------------------------
def oracle_graph(decls, kc):
    """-> (refuse_reason or None, init node ids in registration order, ancestors(init) restricted to init nodes)"""
    provides, requires, nodes = {}, {}, []
    dup = None
    init_ids = []

    def provide(node, res):
        nonlocal dup
        if res in provides and dup is None:
            dup = f"two producers for {res}"
        provides.setdefault(res, node)

    comps_seen, sourced, streams_seen, pipes, mods = set(), set(), set(), [], {}

    def pipe(v):
        if v not in pipes:
            pipes.append(v)

    def reqs(rc, rv, rs):
        return [f"column.{c}" for c in rc] + [f"value.{v}" for v in rv] + [f"stream.{s}" for s in rs]
    for d in decls:
        kind = d[0]
        if kind in ("init", "ainit"):
            _, comp, creates, rc, rv, rs = d
            node = ("init", comp)
            if comp in comps_seen and dup is None:
                dup = f"two initializers from component {comp}"
            comps_seen.add(comp)
            nodes.append(node)
            init_ids.append(comp)
            for c in creates:
                provide(node, f"column.{c}")
            requires[node] = reqs(rc, rv, rs) + ([] if "tracked" in creates else ["column.tracked"])
        elif kind == "producer":
            _, v, src, rc, rv, rs = d
            node = ("src", v)
            if src is not None:
                pipe(src)
            pipe(v)
            if v in sourced and dup is None:
                dup = f"two sources for pipeline {v}"
            sourced.add(v)
            nodes.append(node)
            provide(node, f"value_source.{v}")
            requires[node] = [f"value.{src}"] if src is not None else reqs(rc, rv, rs)
        elif kind == "modifier":
            _, v, mut, rc, rv, rs, fid = d
            if mut is not None:
                pipe(mut)
            pipe(v)
            mods.setdefault(v, [])
            node = ("mod", v, len(mods[v]) + 1)
            mods[v].append(node)
            nodes.append(node)
            provide(node, f"value_modifier.{v}.{len(mods[v])}.{mut if mut is not None else fid}")
            requires[node] = [f"value.{mut}"] if mut is not None else reqs(rc, rv, rs)
        elif kind == "get_value":
            pipe(d[1])
        elif kind == "stream":
            _, s, crn = d
            if s in streams_seen and dup is None:
                dup = f"stream {s} requested twice"
            streams_seen.add(s)
            if not crn:
                node = ("stream", s)
                nodes.append(node)
                provide(node, f"stream.{s}")
                requires[node] = [f"column.{c}" for c in kc]
        elif kind == "raw":
            _, typ, names, deps, pid = d
            if typ not in RAW_TYPES:
                if dup is None:
                    dup = f"unknown resource type {typ}"
                continue
            node = ("raw", pid)
            nodes.append(node)
            if typ == "column" or not names:
                init_ids.append(f"raw{pid}")
            for n in names:
                provide(node, f"{typ}.{n}")
            requires[node] = list(deps)
        if dup is not None:
            return dup, None, None
    for v in pipes:                                       # on_post_setup
        node = ("val", v)
        nodes.append(node)
        provide(node, f"value.{v}")
        if dup is not None:
            return dup, None, None
        requires[node] = [f"value_source.{v}" if v in sourced else f"missing_value_source.{v}"]
        preds_extra = mods.get(v, [])
        requires[node] = requires[node] + [("node", m) for m in preds_extra]
    preds = {n: set() for n in nodes}
    for n in nodes:
        for r in requires.get(n, []):
            if isinstance(r, tuple):
                preds[n].add(r[1])
            elif r in provides:
                preds[n].add(provides[r])
    # cycle detection (iterative DFS, three colours)
    colour = {n: 0 for n in nodes}
    for root in nodes:
        if colour[root]:
            continue
        stack = [(root, iter(preds[root]))]
        colour[root] = 1
        while stack:
            n, it = stack[-1]
            for m in it:
                if colour[m] == 1:
                    return f"cycle through {m}", None, None
                if colour[m] == 0:
                    colour[m] = 1
                    stack.append((m, iter(preds[m])))
                    break
            else:
                colour[n] = 2
                stack.pop()
    init_name = {}
    for n in nodes:
        if n[0] == "init":
            init_name[n] = n[1]
        elif n[0] == "raw" and f"raw{n[1]}" in init_ids:
            init_name[n] = f"raw{n[1]}"
    anc = {}
    for n, nm in init_name.items():
        seen, todo = set(), list(preds[n])
        while todo:
            m = todo.pop()
            if m not in seen:
                seen.add(m)
                todo.extend(preds[m])
        anc[nm] = sorted({init_name[m] for m in seen if m in init_name}, key=str)
    return None, init_ids, anc


# ----------------------------------------------------------------------------------------------------------------
# running one case
# ----------------------------------------------------------------------------------------------------------------
def canonical(case):
    """normalise: function-modifier ids and raw pids are assigned here (deterministically from the program)"""
    comps = []
    pid = 0
    for comp in case["comps"]:
        calls = []
        for call in comp["calls"]:
            call = list(call)
            if call[0] == "raw":
                call = call[:4] + [pid]
                pid += 1
            calls.append(call)
        comps.append({"name": comp["name"], "calls": calls, "auto": comp.get("auto"), "pos": bool(comp.get("pos"))})
    return {"kc": list(case.get("kc", [])), "comps": comps, "mode": case.get("mode", "?"), "rev": bool(case.get("rev")),
            "plan": int(case.get("plan", 0))}


def with_fun_ids(decls, owners, ids, names=None):
    """append to every modifier declaration the id of the modifier's name: the one recorded when the j-th function
    modifier (value or step-size) of the component was built, by default "<component>.mod_<j>" (bound method)"""
    out, counts = [], {}
    for d, owner in zip(decls, owners):
        if d[0] == "modifier":
            if d[2] is None:
                counts[owner] = counts.get(owner, 0) + 1
                nm = (names or {}).get((owner, counts[owner])) or f"{owner}.mod_{counts[owner]}"
                out.append(d[:6] + [ids.f(nm)])
            else:
                out.append(d[:6] + [None])
        else:
            out.append(d)
    return out


def run_graph(case):
    from vivarium.framework.engine import SimulationContext
    case = canonical(case)
    ids = Ids()
    amb = ambient()
    amb_ids = {}
    for _, _, name in amb["inits"]:
        amb_ids.setdefault(name, 100 + len(amb_ids))
    raw_decls, owners = declarations(case)
    kc = list(case["kc"])
    Probe, AutoProbe, Birther = _classes()
    run = {"log": [], "births": list(BIRTHS), "marks": [], "born": [], "modnames": {}}
    comps = [(AutoProbe if c.get("auto") is not None else Probe)(c, run) for c in case["comps"]] + [Birther(run)]
    has_results = any(c[0] in ("strat", "observe") for comp in case["comps"] for c in comp["calls"])
    config = dict(CONFIG)
    config["randomness"] = {"key_columns": kc}
    boot.reset_contexts()
    err, stage, sim = None, None, None
    creations = []
    plan = random.Random(case.get("plan", 0))
    requests, mgr, rows_left = [], None, 0

    def producer_name(p):
        nm = getattr(p, "__name__", "")
        return nm[5:] if nm.startswith("init_") else getattr(getattr(p, "__self__", None), "name", repr(p))

    def n_log_before_creation():
        return 0

    def ask(when, entry):
        """one more request for the order through a public entry point; never lets the answer escape"""
        before = len(run["log"])
        try:
            if entry == "iter":
                out = ["order", [producer_name(p) for p in comps[-1].resources]]
            elif entry == "sorted":
                if mgr is None:
                    return
                out = ["order", [producer_name(g.producer) for g in mgr.sorted_nodes if g.type in ("column", "null")]]
            elif entry == "graph":
                if mgr is None:
                    return
                out = ["graph", len(list(mgr.graph.nodes))]
            elif entry == "creator":
                out = ["created", [int(i) for i in comps[-1].creator(1, None)]]
            elif entry == "init":
                sim.initialize_simulants()
                out = ["created", "initial population"]
            elif entry == "setup":
                sim.setup()
                out = ["set up", None]
            else:
                raise ValueError(entry)
        except Exception as e:      # noqa: BLE001 - the answer is the observation
            out = ["refused", type(e).__name__, classify(e)]
        requests.append([when, entry, out, len(run["log"]) - before])

    with AmbientLog(run):
        try:
            sim = SimulationContext(components=comps, configuration=config, logging_verbosity=0)
            boot.quiet_logging()
            stage = "setup"
            sim.setup()
            mgr = resource_manager(sim, comps)
            for entry in plan.choices(["iter", "sorted", "graph"], k=plan.choice([0, 0, 1, 2, 3])):
                ask("before creation", entry)             # e.g. InteractiveContext.print_initializer_order
            stage = "creation"
            sim.initialize_simulants()
            creations.append((list(range(CONFIG["population"]["population_size"])), run["log"][n_log_before_creation():]))
            stage = "step"
            n0 = CONFIG["population"]["population_size"]
            for k in BIRTHS:
                if has_results:
                    comps[-1].birth()      # results gathering would read the probes' undeclared data: births without stepping
                else:
                    sim.step()
                ask("after a birth", plan.choice(["iter", "sorted"]))
            for j, k in enumerate(BIRTHS):
                a, b = run["marks"][2 * j], run["marks"][2 * j + 1]
                creations.append((run["born"][j], run["log"][a:b]))
            for entry in ("iter", "sorted", "graph"):
                ask("after the births", entry)
        except Exception as e:                 # noqa: BLE001 - the error class is the observation
            err = e
        log_at_refusal = len(run["log"])
        try:
            state_at_refusal = comps[-1].state()
        except Exception:          # noqa: BLE001 - setup did not get as far as the last component
            state_at_refusal = None
        # CANDIDATE FINDING (reported for triage, not failed): a refusal raised while `post_setup` is emitted (a raw
        # `value.<v>` registration clashing with a pipeline) leaves the life cycle in post_setup, so a later
        # initialize_simulants() is accepted and runs the initializers on the half-registered resources.
        late_refusal = err is not None and stage == "setup" and state_at_refusal == "post_setup"
        # ---- a refusal must be persistent and inert: ask again through every public entry point that needs the order ----
        if err is not None and stage in ("setup", "creation"):
            if stage == "setup":
                retries = ["init", "setup", "init"]
            else:
                retries = plan.choices(["iter", "sorted", "graph", "creator", "init", "iter", "creator"], k=plan.choice([3, 4, 5, 6]))
            for entry in retries:
                ask("after the refusal", entry)
            try:
                rows_left = len(sim.get_population(True)) if sim is not None else 0
            except Exception:      # noqa: BLE001
                rows_left = None
    code = classify(err) if err is not None else 0
    decls = with_fun_ids(raw_decls, owners, ids, run["modnames"])
    # ---- direct oracle ----
    ok, msg = True, ""
    reason, init_ids, anc = oracle_graph(decls, kc)

    def name_of(x):
        return x
    if err is not None:
        if stage == "step" or code == 9:
            ok, msg = False, f"unexpected {type(err).__name__} during {stage}: {err}"
        elif reason is None:
            ok, msg = False, f"refused ({type(err).__name__}: {str(err)[:120]}) although there is neither a duplicate producer nor a cycle"
        if log_at_refusal and stage != "step":
            ok, msg = False, f"refused, yet initializers had already been called: {run['log'][:4]}"
    else:
        if reason is not None:
            ok, msg = False, f"not refused although the declarations contain: {reason}"
        else:
            expected_new = [list(range(3)), [3, 4], [5]]
            if [c[0] for c in creations] != expected_new:
                ok, msg = False, f"new simulants {[c[0] for c in creations]} != {expected_new}"
            for new_index, calls in creations:
                order = [c[0] for c in calls]
                if sorted(map(str, order)) != sorted(map(str, init_ids)):
                    ok, msg = False, f"initializers called {order} != registered {init_ids} (each exactly once)"
                    break
                for who, idx in calls:
                    if idx != new_index:
                        ok, msg = False, f"initializer {who} got index {idx}, new simulants are {new_index}"
                pos = {who: i for i, who in enumerate(order)}
                for who in order:
                    for a in anc.get(who, []):
                        if a != who and pos[a] > pos[who]:
                            ok, msg = False, f"initializer {who} ran before {a}, which it (transitively) requires"
    # ---- repeated requests: a refusal is persistent and inert, an accepted order is always the same order ----
    for when, entry, out, ran in requests:
        if not ok:
            break
        if err is not None:
            if late_refusal:
                break
            if ran or run["log"]:
                ok, msg = False, f"refused, yet a later request ({entry}, {when}) ran initializers: {run['log'][:4]}"
            elif entry == "graph":
                continue
            elif out[0] != "refused":
                ok, msg = False, (f"the simulation refused ({type(err).__name__}), but asking again through `{entry}` ({when}) "
                                  f"was answered: {out}")
            elif stage == "creation" and entry in ("iter", "sorted", "creator") and out[2] != code:
                ok, msg = False, f"refusal changed its class when asked again through `{entry}` ({when}): {out[1]} after {type(err).__name__}"
        else:
            if ran and entry in ("iter", "sorted", "graph"):
                ok, msg = False, f"asking for the order through `{entry}` ({when}) ran initializers"
            elif out[0] == "refused":
                ok, msg = False, f"accepted, yet asking for the order through `{entry}` ({when}) raised {out[1]}"
            elif out[0] == "order" and creations and out[1] != [c[0] for c in creations[0][1]]:
                ok, msg = False, (f"the order answered through `{entry}` ({when}) {out[1]} is not the order the initializers "
                                  f"were called in {[c[0] for c in creations[0][1]]}")
    # ---- whatever order the components were supplied in: refusal parity in the reversed supply order ----
    rev_outcome = None
    if case.get("rev") and ok:
        run2 = {"log": [], "births": [], "marks": [], "born": [], "modnames": {}}
        comps2 = [(AutoProbe if c.get("auto") is not None else Probe)(c, run2) for c in reversed(case["comps"])] + [Birther(run2)]
        boot.reset_contexts()
        err2 = None
        with AmbientLog(run2):
            try:
                sim2 = SimulationContext(components=comps2, configuration=config, logging_verbosity=0)
                boot.quiet_logging()
                sim2.setup()
                sim2.initialize_simulants()
            except Exception as e:                 # noqa: BLE001
                err2 = e
        rev_outcome = "accepted" if err2 is None else type(err2).__name__
        if (err is None) != (err2 is None):
            ok, msg = False, (f"refusal depends on the supply order: given order -> {type(err).__name__ if err else 'accepted'}, "
                              f"reversed -> {type(err2).__name__ if err2 else 'accepted'}")
        elif err2 is None:
            order2 = [c[0] for c in run2["log"]]
            pos2 = {who: i for i, who in enumerate(order2)}
            if sorted(map(str, order2)) != sorted(map(str, init_ids)):
                ok, msg = False, f"reversed supply order: initializers called {order2} != registered {init_ids}"
            else:
                for who in order2:
                    for a in anc.get(who, []):
                        if a != who and pos2[a] > pos2[who]:
                            ok, msg = False, f"reversed supply order: initializer {who} ran before {a}, which it requires"
    # ---- observation for Coq ----
    kc_coq = f"({czlist(map(ids.c, kc))} : list Z)"          # typed: a batch may hold only cases without key columns
    ds_coq = clist("\n     " + coq_decl(ids, d, amb_ids) for d in decls)

    def init_id(x):
        if x in amb_ids:
            return amb_ids[x]
        if isinstance(x, str) and x.startswith("raw"):
            return 200 + int(x[3:])
        return ids.p(x)
    obs = {"error": None if err is None else f"{type(err).__name__}: {str(err)[:160]}", "stage": stage, "code": code}
    graph_seen = True
    if rev_outcome is not None:
        obs["reversed_supply_order"] = rev_outcome
    obs["requests"] = [[w, e, o[:2]] for w, e, o, _ in requests][:12]
    if err is not None:
        obs["population_rows_after_refusal"] = rows_left
    if err is not None:
        ob = f"(ObsErr {cz(code)})"
    else:
        mgr = resource_manager(sim, comps)
        calls = [czlist(init_id(c[0]) for c in cl) for _, cl in creations]
        obs.update(calls=[[c[0] for c in cl] for _, cl in creations])
    if err is None and mgr is None:
        ob = f"(ObsOrder {clist(calls)})"
        graph_seen = False
    elif err is None:
        g = mgr.graph
        ogs, seen = [], set()
        for node in g.nodes:
            if id(node) in seen:
                continue
            seen.add(id(node))
            prod = -1
            if node.type in ("column", "null"):
                p = node.producer
                owner = getattr(p, "__self__", None)
                pname = getattr(p, "__name__", "")
                if pname.startswith("init_raw"):
                    prod = 200 + int(pname[8:])
                elif owner is not None and getattr(owner, "name", None) in amb_ids:
                    prod = amb_ids[owner.name]
                elif owner is not None and hasattr(owner, "name"):
                    prod = ids.p(owner.name)
            ogs.append(cpair(clist(ids.res(n) for n in node.names), cz(prod), clist(ids.res(d) for d in node.dependencies)))
        oes = [cpair(ids.res(u.names[0]), ids.res(v.names[0])) for u, v in g.edges]
        ob = f"(ObsOk {clist(ogs)}\n     {clist(oes)}\n     {clist(calls)})"
        obs.update(nodes=len(ogs), edges=len(oes))
    coq = cpair(kc_coq, ds_coq, ob)
    _COQ_CASES.append(coq)
    n = len(case["comps"])
    tags = (f"mode_{case['mode']}", f"outcome_{'ok' if code == 0 else 'err' + str(code)}",
            f"comps_{'0' if n == 0 else '1-3' if n <= 3 else '4-6' if n <= 6 else '7+'}",
            f"decls_{min(len(decls) // 10 * 10, 40)}+") + (() if graph_seen else ("graph_unobservable",)) + \
        (("second_supply_order",) if case.get("rev") else ()) + tuple(sorted({f"asked_{e}_{w.replace(' ', '_')}" for w, e, _, _ in requests})) + \
        (("refusal_left_population_rows",) if err is not None and rows_left else ()) + \
        (("candidate_finding_refusal_at_post_setup_bypassed",) if late_refusal and any(
            e == "init" and o[0] != "refused" for _, e, o, _ in requests) else ()) + tuple(sorted({f"decl_{d[0]}" for d in decls})) + \
        tuple(sorted({f"call_{c[0]}" for comp in case["comps"] for c in comp["calls"]}
                     | {f"flavour_{c[-1]}" for comp in case["comps"] for c in comp["calls"]
                        if c[0] in ("producer", "rate_producer", "modifier", "step_modifier") and isinstance(c[-1], str)
                        and c[-1] in SRC_FLAVOURS}
                     | {"call_auto_requirements" for comp in case["comps"] if comp.get("auto") is not None}
                     | {"style_positional" if comp.get("pos") else "style_keyword" for comp in case["comps"]}))
    return Result(ok=ok, msg=msg, coq=coq, key=(case["kc"], case["comps"]) if n else None, obs=obs, tags=tags)


_COQ_CASES = []


# ----------------------------------------------------------------------------------------------------------------
# generator
# ----------------------------------------------------------------------------------------------------------------
# what a source / modifier callable may be (values.py decides by isinstance(Pipeline) / hasattr(name) / __self__ / __name__)
SRC_FLAVOURS = ["function", "lambda", "bound", "partial", "object", "named_object", "named_object_int", "table_scalar",
                "table_categorical", "table_interpolated"]
# "partial" / "object" as modifiers are named "<ClassName>.__call__" (they crashed _get_modifier_name before the repair
# of finding F-AK, /repo 365da3bb: typo `__class__.name__`)
MOD_FLAVOURS = list(SRC_FLAVOURS)
STEP_FLAVOURS = ["bound", "function", "lambda", "partial", "object", "named_object", "named_object_int"]       # must return real step sizes


class Prog:
    def __init__(self, rng, max_comps):
        self.rng = rng
        self.ncol = self.nval = self.nstr = self.ncomp = 0
        self.kc = []
        self.entities = []        # ranked: ("col", name) / ("val", name) / ("str", name) available to depend on
        self.inits = {}           # comp name -> [creates, rc, rv, rs]
        self.loose = []           # declarations not tied to a component (values, streams, raw): placed at random
        self.max_comps = max_comps

    def col(self):
        self.ncol += 1
        return f"c{self.ncol}"

    def val(self):
        self.nval += 1
        return f"v{self.nval}"

    def stream(self):
        self.nstr += 1
        return f"s{self.nstr}"

    def comp(self):
        self.ncomp += 1
        return f"p{self.ncomp}"

    def pick_reqs(self, pool, maxn=3, unmet=0.0):
        """-> rc, rv, rs drawn from the ranked pool (entities created so far)"""
        rng = self.rng
        rc, rv, rs = [], [], []
        k = rng.choice([0, 1, 1, 2, 2, maxn]) if pool else 0
        if rng.random() < 0.5:
            pool = pool[-4:]                                      # prefer the deepest entities: long chains
        for kind, name in rng.sample(pool, min(k, len(pool))):
            (rc if kind == "col" else rv if kind == "val" else rs).append(name)
        if rng.random() < unmet:
            r = rng.random()
            if r < 0.4:
                rc.append(f"c{90 + rng.randint(0, 3)}")         # a column nobody creates
            elif r < 0.7:
                rv.append(f"v{90 + rng.randint(0, 3)}")         # a value nobody produces or requests
            else:
                rs.append(f"s{90 + rng.randint(0, 3)}")         # a stream nobody requests
        if rng.random() < 0.1 and rc:
            rc.append(rc[0])                                      # repeated requirement
        return rc, rv, rs

    def add_init(self, pool, unmet):
        rng = self.rng
        name = self.comp()
        creates = [self.col() for _ in range(rng.choice([0, 1, 1, 1, 2, 3]))]
        rc, rv, rs = self.pick_reqs(pool, unmet=unmet)
        if rng.random() < 0.05:
            rc.append("tracked")
        self.inits[name] = [creates, rc, rv, rs]
        for c in creates:
            self.entities.append(("col", c))
        return name

    def add_value(self, pool, unmet):
        rng = self.rng
        v = self.val()
        vals = [n for k, n in pool if k == "val"]
        r = rng.random()
        if r < 0.25 and vals:
            self.loose.append([rng.choice(["producer", "producer", "rate_producer"]), v, rng.choice(vals), [], [], []])
        elif r < 0.92:
            self.loose.append([rng.choice(["producer", "producer", "rate_producer"]), v, None,
                               *self.pick_reqs(pool, unmet=unmet), rng.choice(SRC_FLAVOURS)])
        # else: never sourced (missing_value_source)
        for _ in range(rng.choice([0, 0, 1, 1, 2, 3])):
            if rng.random() < 0.2 and vals:
                self.loose.append(["modifier", v, rng.choice(vals), [], [], []])
            else:
                self.loose.append(["modifier", v, None, *self.pick_reqs(pool, maxn=2, unmet=unmet), rng.choice(MOD_FLAVOURS)])
        if rng.random() < 0.3:
            self.loose.append(["get_value", v])
        self.entities.append(("val", v))
        return v

    def add_step_modifiers(self, pool, unmet):
        """builder.time.register_step_size_modifier: the clock's pipeline becomes an entity others can require"""
        for _ in range(self.rng.choice([1, 1, 2])):
            self.loose.append(["step_modifier", *self.pick_reqs(pool, unmet=unmet), self.rng.choice(STEP_FLAVOURS)])
        self.entities.append(("val", step_size_pipeline()))

    def add_results(self, pool):
        rng = self.rng
        rc, rv, _ = self.pick_reqs([e for e in pool if e[0] != "str"], unmet=0.0)
        if rng.random() < 0.4:
            rv.append(f"v{90 + rng.randint(0, 3)}")
        if rng.random() < 0.3:
            rv.append("current_time")
        if not rc and not [v for v in rv if v != "current_time"]:
            rv.append(f"v{90 + rng.randint(0, 3)}")             # a stratification must name at least one source
        self.nres = getattr(self, "nres", 0) + 1
        self.loose.append([rng.choice(["strat", "observe"]), f"r{self.nres}", rc, rv])

    def add_stream(self):
        s = self.stream()
        crn = self.rng.random() < 0.15
        self.loose.append(["stream", s, crn])
        self.entities.append(("str", s))
        return s


def gen_program(rng, max_comps=8):
    mode = rng.choices(["dag", "cycle", "dup", "random", "chain"], weights=[40, 22, 13, 10, 15])[0]
    if mode == "chain":
        entry = rng.choice(ENTRY_POINTS)
        c = chain_case(entry, rng.choice(KEYWORD_SETS), rng.random() < 0.5, rng.randint(1, 4), rng.choice(flavours_for(entry)))
        rng.shuffle(c["comps"])
        c["rev"] = rng.random() < 0.2
        c["plan"] = rng.randrange(10 ** 6)
        return c
    P = Prog(rng, max_comps)
    step_at = rng.randint(1, 6) if rng.random() < 0.3 else -1
    results_at = rng.randint(0, 6) if rng.random() < 0.15 else -1
    unmet = rng.choice([0.0, 0.0, 0.15, 0.4])
    n_items = rng.randint(1, max(1, max_comps + 3))
    n_init = 0
    # ranked construction: each new entity may depend only on entities created before it
    for i in range(n_items):
        pool = list(P.entities)
        if mode == "random" and rng.random() < 0.5:
            # requirements regardless of rank (names that may be created later, or never)
            pool = pool + [("col", f"c{rng.randint(1, 8)}"), ("val", f"v{rng.randint(1, 5)}"), ("str", f"s{rng.randint(1, 3)}")]
        if i == step_at and not any(d[0] == "step_modifier" for d in P.loose):
            P.add_step_modifiers(pool, unmet)
        if i == results_at:
            P.add_results(pool)
        r = rng.random()
        if (r < 0.5 and n_init < max_comps) or i == 0:
            P.add_init(pool, unmet)
            n_init += 1
            if not P.kc and not any(k == "str" for k, _ in P.entities) and rng.random() < 0.35:
                cols = [n for k, n in P.entities if k == "col"]
                if cols:
                    P.kc = rng.sample(cols, min(len(cols), rng.choice([1, 1, 2])))
        elif r < 0.82:
            P.add_value(pool, unmet)
        else:
            P.add_stream()
    if mode == "cycle":
        plant_cycle(P, rng)
    # raw registrations (direct use of builder.resources)
    if rng.random() < 0.25:
        for _ in range(rng.choice([1, 1, 2])):
            typ = rng.choice(["column", "column", "stream", "value", "value_source", "missing_value_source"])
            fresh = {"column": P.col, "stream": P.stream}.get(typ, P.val)
            names = [fresh() for _ in range(rng.choice([0, 1, 1, 2]))]
            if typ == "missing_value_source" and rng.random() < 0.6:
                unsourced = [d[1] for d in P.loose if d[0] == "get_value"]
                if unsourced:
                    names = [rng.choice(unsourced)]
            deps = []
            if typ != "missing_value_source" or mode != "dag":       # fresh names: nothing depends on this group
                for kind, nm in rng.sample(P.entities, min(len(P.entities), rng.choice([0, 1, 2]))):
                    deps.append({"col": "column.", "val": "value.", "str": "stream."}[kind] + nm)
            if rng.random() < 0.2:
                deps.append("column.c95")
            P.loose.append(["raw", typ, names, deps])
    if mode == "dup":
        plant_duplicate(P, rng)
    # distribute the loose declarations over components (independently of rank), then shuffle everything
    names = list(P.inits)
    while len(names) < 1 or (P.loose and rng.random() < 0.25 and len(names) < max_comps + 2):
        names.append(P.comp())
    comps = {n: {"name": n, "calls": [], "auto": None, "pos": rng.random() < 0.3} for n in names}
    for d in P.loose:
        comps[rng.choice(names)]["calls"].append(d)
    for n, spec in P.inits.items():
        if rng.random() < 0.5:
            comps[n]["auto"] = spec
        else:
            comps[n]["calls"].insert(rng.randint(0, len(comps[n]["calls"])), ["init"] + spec)
    for n, extra in getattr(P, "extra_inits", []):
        comps[n]["calls"].append(["init"] + extra)
    for c in comps.values():
        if rng.random() < 0.7:
            rng.shuffle(c["calls"])
    order = list(comps.values())
    rng.shuffle(order)
    return {"kc": P.kc, "comps": order, "mode": mode, "rev": rng.random() < 0.2, "plan": rng.randrange(10 ** 6)}


def plant_cycle(P, rng):
    """close a chain of 1-4 hops from a column of initializer A back to a requirement of A, through random channels"""
    cands = [n for n, s in P.inits.items() if s[0]]
    if not cands:
        n = P.comp()
        P.inits[n] = [[P.col()], [], [], []]
        cands = [n]
    a = rng.choice(cands)
    cur = ("col", rng.choice(P.inits[a][0]))
    for _ in range(rng.randint(0, 3)):
        kind = cur[0]
        rc, rv, rs = ([cur[1]], [], []) if kind == "col" else ([], [cur[1]], []) if kind == "val" else ([], [], [cur[1]])
        ch = rng.choice(["init", "src", "mod", "pipe_src", "pipe_mod", "stream", "step_mod", "rate"])
        if ch == "init":
            n, c = P.comp(), P.col()
            P.inits[n] = [[c], rc, rv, rs]
            cur = ("col", c)
        elif ch in ("src", "rate"):
            v = P.val()
            P.loose.append(["producer" if ch == "src" else "rate_producer", v, None, rc, rv, rs, rng.choice(SRC_FLAVOURS)])
            cur = ("val", v)
        elif ch == "step_mod":
            P.loose.append(["step_modifier", rc, rv, rs, rng.choice(STEP_FLAVOURS)])
            cur = ("val", step_size_pipeline())
        elif ch == "mod":
            v = P.val()
            if rng.random() < 0.7:
                P.loose.append(["producer", v, None, [], [], []])
            P.loose.append(["modifier", v, None, rc, rv, rs, rng.choice(MOD_FLAVOURS)])
            cur = ("val", v)
        elif ch in ("pipe_src", "pipe_mod") and kind == "val":
            v = P.val()
            if ch == "pipe_src":
                P.loose.append(["producer", v, cur[1], [], [], []])
            else:
                P.loose.append(["producer", v, None, [], [], []])
                P.loose.append(["modifier", v, cur[1], [], [], []])
            cur = ("val", v)
        elif ch == "stream" and kind == "col":
            s = P.stream()
            P.loose.append(["stream", s, False])
            if cur[1] not in P.kc:
                P.kc = P.kc + [cur[1]]
            cur = ("str", s)
    spec = P.inits[a]
    {"col": spec[1], "val": spec[2], "str": spec[3]}[cur[0]].append(cur[1])


def plant_duplicate(P, rng):
    P.extra_inits = []
    kinds = ["column", "component", "source", "stream", "raw", "raw_api", "tracked", "bogus", "raw_value"]
    k = rng.choice(kinds)
    withcols = [n for n, s in P.inits.items() if s[0]]
    producers = [d for d in P.loose if d[0] == "producer"]
    streams = [d for d in P.loose if d[0] == "stream"]
    if k == "column" and withcols:
        n = P.comp()
        P.inits[n] = [[rng.choice(P.inits[rng.choice(withcols)][0])] + ([P.col()] if rng.random() < 0.5 else []), [], [], []]
    elif k == "component" and P.inits:
        P.extra_inits.append((rng.choice(list(P.inits)), [[P.col()], [], [], []]))
    elif k == "source" and producers:
        P.loose.append(["producer", rng.choice(producers)[1], None, [], [], []])
    elif k == "stream" and streams:
        P.loose.append(["stream", rng.choice(streams)[1], rng.random() < 0.5])
    elif k == "raw":
        c = P.col()
        P.loose.append(["raw", "column", [c], []])
        P.loose.append(["raw", "column", [P.col(), c] if rng.random() < 0.5 else [c, c], []])
    elif k == "raw_api" and (streams or withcols):
        if streams and rng.random() < 0.5:
            P.loose.append(["raw", "stream", [rng.choice(streams)[1]], []])
        elif withcols:
            P.loose.append(["raw", "column", [rng.choice(P.inits[rng.choice(withcols)][0])], []])
        else:
            P.loose.append(["raw", "bogus", [], []])
    elif k == "tracked":
        n = P.comp()
        P.inits[n] = [["tracked"], [], [], []]
    elif k == "raw_value" and (producers or any(d[0] in ("modifier", "get_value") for d in P.loose)):
        vs = [d[1] for d in P.loose if d[0] in ("producer", "modifier", "get_value")]
        P.loose.append(["raw", rng.choice(["value", "value_source"]), [rng.choice(vs)], []])
    else:
        P.loose.append(["raw", rng.choice(["bogus", "null", "columns"]), [P.col()] if rng.random() < 0.5 else [], []])


ENTRY_POINTS = ["init_call", "init_auto", "producer", "rate_producer", "modifier", "step_modifier", "pipe_source",
                "pipe_modifier"]
KEYWORD_SETS = [("col",), ("val",), ("str",), ("col", "val"), ("col", "str"), ("val", "str"), ("col", "val", "str")]


def flavours_for(entry):
    return {"producer": SRC_FLAVOURS, "rate_producer": SRC_FLAVOURS, "pipe_source": SRC_FLAVOURS, "pipe_modifier": SRC_FLAVOURS,
            "modifier": MOD_FLAVOURS, "step_modifier": STEP_FLAVOURS}.get(entry, [None])


def chain_case(entry, keywords, pos, depth, flavour=None):
    """A shallow consumer initializer (supplied first) whose requirement reaches - through the API entry point `entry`
    and each of the requires_* keywords in `keywords` separately - the LAST column of its own chain
    root -> ... -> base of `depth` initializers (supplied last): a dropped or swapped requirement changes the order."""
    n = {"c": 0, "p": 1, "v": 0, "s": 0}

    def fresh(k):
        n[k] += 1
        return f"{k}{n[k]}"
    chains, kc = [], []

    def chain():
        prev, out = None, []
        for _ in range(depth):
            c = fresh("c")
            out.append({"name": fresh("p"), "calls": [], "auto": [[c], [prev] if prev else [], [], []], "pos": False})
            prev = c
        chains.append(out)
        return prev
    helper = {"name": fresh("p"), "calls": [], "auto": None, "pos": pos}          # p2: declares the auxiliary values / streams
    rc, rv, rs = [], [], []
    for k in keywords:
        base = chain()
        if k == "col":
            rc.append(base)
        elif k == "val":
            w = fresh("v")
            helper["calls"].append(["producer", w, None, [base], [], []])
            rv.append(w)
        else:
            s_ = fresh("s")
            helper["calls"].append(["stream", s_, False])
            kc.append(base)
            rs.append(s_)
    consumer = {"name": "p1", "calls": [], "auto": None, "pos": pos}
    own = fresh("c")
    if entry in ("init_call", "init_auto"):
        need = [rc, rv, rs]
    else:
        fl = [flavour] if flavour is not None else []
        if entry == "step_modifier":
            target = step_size_pipeline()
            helper["calls"].append(["step_modifier", rc, rv, rs] + fl)
        else:
            target = fresh("v")
            if entry in ("producer", "rate_producer"):
                helper["calls"].append([entry, target, None, rc, rv, rs] + fl)
            elif entry == "modifier":
                helper["calls"] += [["modifier", target, None, rc, rv, rs] + fl, ["producer", target, None, [], [], []]]
            else:
                u = fresh("v")
                if entry == "pipe_source":
                    helper["calls"] += [["producer", target, u, [], [], []], ["rate_producer", u, None, rc, rv, rs] + fl]
                else:
                    helper["calls"] += [["modifier", target, u, [], [], []], ["producer", target, None, [], [], []],
                                        ["producer", u, None, rc, rv, rs] + fl]
        need = [[], [target], []]
    if entry == "init_call":
        consumer["calls"].append(["init", [own]] + need)
    else:
        consumer["auto"] = [[own]] + need
    comps = [consumer, helper] + [c for ch in chains for c in reversed(ch)]
    return {"kc": kc, "comps": comps, "mode": "chain"}


def gen_quick(rng):
    return gen_program(rng, max_comps=rng.choice([2, 4, 6, 8]))


def gen_thorough(rng):
    return gen_program(rng, max_comps=rng.choice([2, 4, 6, 8, 12]))


# ----------------------------------------------------------------------------------------------------------------
# corpus: hand-picked shapes (each in the supply orders that matter)
# ----------------------------------------------------------------------------------------------------------------
def corpus():
    def comp(name, calls=(), auto=None):
        return {"name": name, "calls": [list(c) for c in calls], "auto": auto}
    A = comp("p1", [["producer", "v1", "v2", [], [], []]])                                    # P sourced from pipeline Q, requested first
    B = comp("p2", [["producer", "v2", None, ["c1"], [], []]], auto=[["c1"], ["c3"], [], []])
    C = comp("p3", [["get_value", "v1"]], auto=[["c2"], [], ["v1"], []])
    D1 = comp("p4", auto=[["c4"], [], [], []])
    D2 = comp("p5", auto=[["c3"], ["c4"], [], []])
    out = []
    for order in ([A, B, C, D1, D2], [B, A, C, D1, D2], [C, D2, D1, B, A]):
        out.append({"kc": [], "comps": order, "mode": "corpus_fq"})
    # a modifier registered before the source; the modifier requires a stream whose key column is created last
    M = comp("p1", [["modifier", "v1", None, [], [], ["s1"]], ["stream", "s1", False]])
    S = comp("p2", [["producer", "v1", None, [], [], []]])
    I = comp("p3", auto=[["c1"], [], ["v1"], []])
    K = comp("p4", [["init", ["c2"], [], [], []]])
    out.append({"kc": ["c2"], "comps": [M, S, I, K], "mode": "corpus_stream"})
    out.append({"kc": ["c2"], "comps": [K, I, S, M], "mode": "corpus_stream"})
    # cycles: through a stream; through a pipeline modifier; self-dependency; among pipelines only
    out.append({"kc": ["c1"], "comps": [M, S, I], "mode": "corpus_cycle"})
    out.append({"kc": [], "comps": [comp("p1", [["producer", "v1", None, [], [], []], ["modifier", "v1", "v2", [], [], []],
                                                ["producer", "v2", None, ["c1"], [], []]]), I], "mode": "corpus_cycle"})
    out.append({"kc": [], "comps": [comp("p1", auto=[["c1"], ["c1"], [], []])], "mode": "corpus_cycle"})
    out.append({"kc": [], "comps": [comp("p1", [["producer", "v1", None, [], ["v2"], []], ["producer", "v2", "v1", [], [], []]])],
                "mode": "corpus_cycle"})
    out.append({"kc": [], "comps": [comp("p1", [["producer", "v1", "v1", [], [], []]])], "mode": "corpus_cycle"})
    # duplicates of every kind
    out.append({"kc": [], "comps": [comp("p1", auto=[["c1"], [], [], []]), comp("p2", auto=[["c2", "c1"], [], [], []])], "mode": "corpus_dup"})
    out.append({"kc": [], "comps": [comp("p1", [["init", ["c2"], [], [], []]], auto=[["c1"], [], [], []])], "mode": "corpus_dup"})
    out.append({"kc": [], "comps": [comp("p1", [["producer", "v1", None, [], [], []]]), comp("p2", [["producer", "v1", None, [], [], []]])], "mode": "corpus_dup"})
    out.append({"kc": [], "comps": [comp("p1", [["stream", "s1", True], ["stream", "s1", False]])], "mode": "corpus_dup"})
    out.append({"kc": [], "comps": [comp("p1", [["raw", "stream", ["s1"], []], ["stream", "s1", False]])], "mode": "corpus_dup"})
    out.append({"kc": [], "comps": [comp("p1", [["raw", "value", ["v1"], []], ["get_value", "v1"]])], "mode": "corpus_dup"})
    out.append({"kc": [], "comps": [comp("p1", [["raw", "bogus", [], []]])], "mode": "corpus_dup"})
    out.append({"kc": [], "comps": [comp("p1", [["raw", "column", ["c1", "c1"], []]])], "mode": "corpus_dup"})
    out.append({"kc": [], "comps": [comp("p1", auto=[["tracked"], [], [], []])], "mode": "corpus_dup"})
    out.append({"kc": [], "comps": [comp("p1", auto=[["c1", "c1"], [], [], []])], "mode": "corpus_dup"})
    # unmet requirements, null initializers, raw null group, missing_value_source provided by a raw registration
    out.append({"kc": ["c9"], "comps": [comp("p1", [["stream", "s1", False], ["get_value", "v3"]], auto=[[], ["c7"], ["v3", "v8"], ["s1", "s2"]]),
                                        comp("p2", [["raw", "column", [], ["column.c1"]], ["raw", "missing_value_source", ["v3"], ["column.c1"]]],
                                             auto=[["c1"], [], [], []])], "mode": "corpus_unmet"})
    out.append({"kc": [], "comps": [], "mode": "corpus_empty"})
    for c in out:
        c["rev"] = True
    # every API entry point x every requires_* keyword alone and all three mixed, consumer shallow / producer deep,
    # keyword and positional call styles
    i = 0
    for entry in ENTRY_POINTS:
        for kws in (("col",), ("val",), ("str",), ("col", "val", "str")):
            i += 1
            c = chain_case(entry, kws, pos=bool(i % 2), depth=3)
            c["mode"] = "corpus_chain"
            out.append(c)
    # every callable flavour as source, as modifier and as step-size modifier: all three keywords mixed, and one alone
    for entry in ("producer", "modifier", "step_modifier"):
        for k, fl in enumerate(flavours_for(entry)):
            for kws in (("col", "val", "str"), KEYWORD_SETS[k % 3]):
                i += 1
                c = chain_case(entry, kws, pos=bool(i % 2), depth=3, flavour=fl)
                c["mode"] = "corpus_flavour"
                out.append(c)
    # results declarations request pipelines (value.<v> nodes with a missing source); a cycle through a step-size modifier
    out.append({"kc": [], "comps": [comp("p1", [["strat", "r1", ["c1"], ["v1", "v2", "current_time"]], ["observe", "r2", [], ["v3", "v1"]],
                                                ["producer", "v2", None, ["c2"], [], []]], auto=[["c1"], [], ["v2", "v3"], []]),
                                    comp("p2", auto=[["c2"], [], [], []])], "mode": "corpus_results"})
    out.append({"kc": [], "comps": [comp("p1", [["step_modifier", ["c1"], [], []]], auto=[["c1"], [], ["simulant_step_size"], []])],
                "mode": "corpus_cycle"})
    # a cycle beside initializers that are NOT on it (a partial order exists), asked again in many ways
    for plan_ in range(1, 9):
        out.append({"kc": [], "comps": [comp("p1", auto=[["c1"], ["c2"], [], []]), comp("p2", auto=[["c2"], ["c1"], [], []]),
                                        comp("p3", auto=[["c3"], [], [], []]), comp("p4", auto=[["c4"], ["c3"], [], []])],
                    "mode": "corpus_retry", "plan": plan_})
    for k, c in enumerate(out):
        c.setdefault("plan", 1000 + k)
    return out


def shrink_graph(case):
    """Smaller variants of a program: drop a component, a call, an automatic initializer, one requirement / created
    column / raw dependency, a key column; plain keyword calls; no second supply order."""
    import copy
    comps = case["comps"]
    for i in range(len(comps)):
        c = copy.deepcopy(case); del c["comps"][i]; yield c
    for i, comp in enumerate(comps):
        for j in range(len(comp["calls"])):
            c = copy.deepcopy(case); del c["comps"][i]["calls"][j]; yield c
        if comp.get("auto") is not None:
            c = copy.deepcopy(case); c["comps"][i]["auto"] = None; yield c
    for i in range(len(case.get("kc", []))):
        c = copy.deepcopy(case); del c["kc"][i]; yield c
    for i, comp in enumerate(comps):
        for j, call in enumerate(comp["calls"]):
            for k, arg in enumerate(call):
                if isinstance(arg, list):
                    for m in range(len(arg)):
                        c = copy.deepcopy(case); del c["comps"][i]["calls"][j][k][m]; yield c
        if comp.get("auto") is not None:
            for k, arg in enumerate(comp["auto"]):
                for m in range(len(arg)):
                    c = copy.deepcopy(case); del c["comps"][i]["auto"][k][m]; yield c
        for j, call in enumerate(comp["calls"]):
            if isinstance(call[-1], str) and ((call[0] in ("producer", "rate_producer", "modifier") and len(call) == 7)
                                              or (call[0] == "step_modifier" and len(call) == 5)):
                c = copy.deepcopy(case); del c["comps"][i]["calls"][j][-1]; yield c
        if comp.get("pos"):
            c = copy.deepcopy(case); c["comps"][i]["pos"] = False; yield c
    if case.get("rev"):
        c = copy.deepcopy(case); c["rev"] = False; yield c
    if case.get("plan"):
        c = copy.deepcopy(case); c["plan"] = 0; yield c


def streams(tier):
    return [Stream(name="graphs", imports="From Viv Require Import Common Kahn Resources.", check="check_case",
                   gen=gen_quick if tier == "quick" else gen_thorough, run=run_graph, corpus=corpus, shrink=shrink_graph,
                   n_quick=500, n_thorough=8000,
                   doc="random dependency graphs declared through the real builder services in real contexts")]


def extra(run):
    """report (not require) how often the observed call order equals the model's Kahn order exactly"""
    import os
    import re
    from core import GEN
    if not _COQ_CASES:
        return
    cases = _COQ_CASES[:600]
    path = os.path.join(GEN, "same_order_C09.v")
    with open(path, "w") as f:
        f.write("From Viv Require Import Common Kahn Resources.\nLocal Open Scope Z_scope.\n"
                "Definition cases := " + clist("\n  " + c for c in cases) + ".\n"
                "Eval vm_compute in (length (filter same_order cases), length cases).\n"
                "Eval vm_compute in (length (filter same_graph cases), 0%nat, length cases).\n")
    rc, out, errtxt = run.coqc(path, timeout=300)
    m = re.search(r"=\s*\((\d+)%nat,\s*(\d+)%nat\)", out)
    if m:
        run.notes.append(f"observed call order identical to the model's Kahn order in {m.group(1)} of {m.group(2)} cases "
                         f"(reported, not required)")
    else:
        run.notes.append("same_order report unavailable: " + (errtxt or out)[-200:])
    m = re.search(r"=\s*\((\d+)%nat,\s*0%nat,\s*(\d+)%nat\)", out)
    if m:
        run.notes.append(f"whole resource graph (every node, dependency list and edge) identical to the model's in {m.group(1)} "
                         f"of {m.group(2)} cases (reported; required: same initializer groups and same must-precede relation)")
