"""C16 - Stratified results count every eligible simulant exactly once (DESIGN.md section 5, C16).

Tie to the code (model: coq/theories/Results.v, theorems: coq/props/C16.v):
  stream `sim`     real SimulationContexts built from a generated *program*: 0-4 stratifications (default mapper,
                   vectorised mapper, per-row mapper, register_binned_stratification, sources that are columns or a
                   VALUE pipeline (requires_values / target_type="value"); excluded categories from code and
                   from configuration; malformed registrations), 1-5 observations (count / pandas-sum / DataFrame.sum
                   adding observations, sum-of-squares and conditional-count aggregators, concatenating observations; filters, phases, to_observe predicates,
                   default/additional/excluded stratification lists, duplicates, unregistered names) and a script of
                   births, (un)tracking and attribute changes (incl. values no category covers).  A probe listener
                   just before (priority 4) and just after (priority 6) the results manager's listener snapshots the
                   full state table for the event index; the Coq model is fed the snapshots with the real mappers'
                   outputs, the real `query` verdicts and the to_observe verdicts and predicts get_results().
  stream `single`  the same programs forced to have a ONE-simulant population and a binned stratification
                   (was finding F-R: `_bin_data` squeezed the 1x1 frame to a scalar and raised; fixed by 44312e20).
  stream `strat`   ResultsContext.add_stratification + Stratification.stratify on single values (bin edges exact).
  stream `resolve` the stratification tuple of an observation registered through ResultsManager.register_observation against
                   sort(dedup(default+requested+additional) - excluded).
Direct oracle: results recomputed from the snapshots with plain python loops after EVERY event; conservation law
(sum over strata of the implementation's increment = aggregate over the eligible simulants).
"""
import math
import random

import boot
from core import Result, Stream, cbool, clist, cpair

PROPERTY = "C16"
RULE = ("sim: generated programs (see module doc) on real SimulationContexts, 1-4 steps x 4 phases, population 0-9 + births; "
        "distinct = distinct program; trivial = no observation accepted or no non-empty event.  single: one-simulant "
        "populations with a binned stratification.  strat: one registration + 0-12 values (edge-exact for bins); trivial = "
        "registration refused.  resolve: random name lists; trivial = all lists empty")
ASSUMPTIONS = [
    "mapper outputs, pandas `query` verdicts, to_observe verdicts and aggregator weights are inputs of the model (user / "
    "library behaviour), computed by the harness from the probe's own snapshot of the state table, not from the results code",
    "aggregates are integer-valued (len, pandas sums of small integers): float64 arithmetic is exact on them",
    "stratification names are interned in lexicographic order so that Z order = Python string order (sorted())",
    "the order of rows and of index levels of a results frame is not constrained by the property: tables are compared as "
    "maps from {stratification name -> category} to value",
]
LEVEL_NOTE = ""
TRUSTED = [
    "C16: mapper outputs, pandas `query` verdicts, aggregator weights and to_observe verdicts are computed by the harness "
    "from its own snapshot of the state table (public get_population) and fed to the model as data",
    "C16: no private attribute is read by name: registered observation / stratification objects are found BY TYPE under "
    "the ResultsManager and read through their public dataclass fields (cross-check skipped when not found); the unit "
    "streams set a bare ResultsManager up through its public setup(builder) with a stub builder and register through the "
    "public register_* methods (skip-and-count when that is no longer possible)",
    "C16: Results.v transcribes results/{manager,context,stratification,observation}.py incl. pandas groupby(observed="
    "False)/dropna/reindex/pd.cut(right=False) semantics - validated on the explored cases only",
]
CLAIM = {
    "technique": "Coq proof over a Gallina model + sampled model/implementation correspondence",
    "text": "Theorems (all registries, snapshots, event histories): per event the increments partition the eligible "
            "simulants (each counted in exactly one stratum, ineligible/excluded in none), reported totals are the sums of "
            "the accepted events' increments, the key set is the full product of non-excluded categories from post_setup "
            "on, an unknown category stops the run without changing totals, concatenating observations collect exactly the "
            "filtered rows in order, and the stratification tuple is independent of set iteration order.  The model is "
            "tied to /repo/src by running generated programs on real SimulationContexts (probe snapshots around the "
            "results manager's listener) and letting Coq compare its prediction with get_results() after post_setup and "
            "at the end; a python oracle recomputes every table after every event.",
    "note": "Aggregates are integer-valued (len, pandas sums of integers); mapper/query/to_observe behaviour is input data; "
            "sampled correspondence (not exhaustive); aggregators are len, sums, sums of squares and conditional counts "
            "(additive ones: a mean or a maximum is outside the property); stratification sources are columns and a value "
            "pipeline; user-supplied formatters and degenerate two-equal-edge bins are outside the model.",
}

PHASES = ["time_step__prepare", "time_step", "time_step__cleanup", "collect_metrics"]
FILTERS = ["tracked==True", "", "age >= 10", "tracked==True and sex == 'F'", "w1 > 2 or color == 'red'",
           "tracked==False", "age < 0"]
FILTER_COLS = [[], [], ["age"], ["sex"], ["w1", "color"], [], ["age"]]
NF, NW, NP = len(FILTERS), 6, 3
WCOLS = ["w1", "w2"]
SCORE = "c16_score"          # a value pipeline (2 * age + w2) used as a stratification source


def weights_of(rec):
    """the model's weight columns of a row: w1, w2 (pandas sums), their squares (sum of squares aggregator) and the
    indicators w > 2 (conditional count aggregator)"""
    w = [int(rec[c]) for c in WCOLS]
    return w + [x * x for x in w] + [1 if x > 2 else 0 for x in w]


def weight_index(o):
    return {"sum": 0, "sumdf": 0, "sumsq": 2, "countif": 4}[o["kind"]] + o["wcol"]


def score_of(rec):
    return 2 * int(rec["age"]) + int(rec["w2"])
PCOLS = ["ident", "age", "w1"]
COLORS = ["red", "green", "blue", "pink"]
EPOCH = None


def _epoch():
    global EPOCH
    if EPOCH is None:
        import pandas as pd
        EPOCH = pd.Timestamp("2005-01-01")
    return EPOCH


def secs(ts):
    import pandas as pd
    return int((pd.Timestamp(ts) - _epoch()) // pd.Timedelta(seconds=1))


# to_observe predicates on the event (time): plain functions, used by the code under test and by the harness
def _to_observe_fns():
    return [lambda e: True,
            lambda e: False,
            lambda e: e.time.day % 2 == 0,
            lambda e: e.time.day >= 4,
            lambda e: e.time.day % 3 != 0]


# ----------------------------------------------------------------------------------------------------------------
# mapper library: name -> (sources, universe, row function on a dict, vectorised function on a frame)
# ----------------------------------------------------------------------------------------------------------------
def f_agegrp(d):
    return "young" if d["age"] < 10 else ("mid" if d["age"] < 25 else "old")


def f_warm(d):
    if d["color"] not in COLORS:
        return d["sex"] + "_odd"
    return d["sex"] + ("_warm" if d["color"] in ("red", "pink") else "_cold")


def f_parity(d):
    return "even" if d["w1"] % 2 == 0 else "odd"


def f_nanny(d):
    if d["age"] >= 38:
        return None
    return "lo" if d["age"] < 20 else "hi"


def f_score(d):
    return "low" if d[SCORE] < 30 else ("mid" if d[SCORE] < 60 else "high")


def _vector_fns():
    import numpy as np
    import pandas as pd

    def v_agegrp(df):
        a = df["age"]
        return pd.Series(np.where(a < 10, "young", np.where(a < 25, "mid", "old")), index=df.index)

    def v_warm(df):
        known = df["color"].isin(COLORS)
        warm = df["color"].isin(["red", "pink"])
        suffix = pd.Series(np.where(~known, "_odd", np.where(warm, "_warm", "_cold")), index=df.index)
        return df["sex"].astype(object) + suffix.astype(object)

    def v_parity(df):
        return (df["w1"] % 2).map({0: "even", 1: "odd"})

    def v_nanny(df):
        a = df["age"]
        out = pd.Series(np.where(a < 20, "lo", "hi"), index=df.index).astype(object)
        out[a >= 38] = np.nan
        return out

    def v_score(df):
        x = df[SCORE]
        return pd.Series(np.where(x < 30, "low", np.where(x < 60, "mid", "high")), index=df.index)

    return {"agegrp": v_agegrp, "warm": v_warm, "parity": v_parity, "nanny": v_nanny, "score": v_score}


MAPPERS = {
    "agegrp": (["age"], ["young", "mid", "old"], f_agegrp),
    "warm": (["sex", "color"], ["F_warm", "F_cold", "M_warm", "M_cold"], f_warm),
    "parity": (["w1"], ["even", "odd"], f_parity),
    "nanny": (["age"], ["lo", "hi"], f_nanny),
    "score": ([SCORE], ["low", "mid", "high"], f_score),          # sourced from a VALUE pipeline (requires_values)
}
VALUE_SOURCED = {"score", "score_bin"}
DEFAULTS = {"color": COLORS, "sex": ["F", "M"]}
BINNED = {"age_bin": "age", "w1_bin": "w1", "score_bin": SCORE}
ALL_STRAT_NAMES = sorted(list(MAPPERS) + list(DEFAULTS) + list(BINNED) + ["ghost_strat"])
NAME_ID = {n: i for i, n in enumerate(ALL_STRAT_NAMES)}         # lexicographic order = id order


class Interner:
    def __init__(self):
        self.ids = {}

    def __call__(self, s):
        if s not in self.ids:
            self.ids[s] = len(self.ids) + 1
        return self.ids[s]


def z(n):
    n = int(n)
    return f"({n})" if n < 0 else str(n)


def zl(ns):
    return clist(z(n) for n in ns)


def nat(n):
    return f"{int(n)}%nat"


def oz(x):
    return "None" if x is None else f"(Some {z(x)})"


# ----------------------------------------------------------------------------------------------------------------
# generator of programs
# ----------------------------------------------------------------------------------------------------------------
def gen_strat(rng, name=None, bad=1.0):
    """bad: scale of the probability of each malformed registration (refused ones are the `strat` stream's subject)"""
    name = name or rng.choice(list(MAPPERS) + list(DEFAULTS) * 2 + list(BINNED) * 2)
    s = {"name": name}
    if name in MAPPERS:
        s["kind"] = rng.choice(["vector", "row"])
        universe = list(MAPPERS[name][1])
    elif name in DEFAULTS:
        s["kind"] = "default"
        universe = list(DEFAULTS[name])
    else:
        s["kind"] = "binned"
        col = BINNED[name]
        r = rng.random()
        if col == "age":
            edges = rng.choice([[0, 10, 25, 60], [0, 5, 60], [0, 60], [0, 10, 20, 30, 60], [0, 10, 25, 38], [5, 10, 60]])
        elif col == SCORE:
            edges = rng.choice([[0, 30, 60, 200], [0, 200], [0, 21, 200], [0, 40, 80], [10, 50, 200]])
        else:
            edges = rng.choice([[-5, 0, 5, 12], [-5, 12], [-5, 2, 3, 12], [-5, 0, 4], [0, 3, 12]])
        if r < 0.04 * bad:
            edges = edges[:-1] + [edges[0] - 1]      # not increasing (pd.cut refuses it on every call)
        if r > 1 - 0.03 * bad:
            edges = edges + [edges[-1] + 7]          # one edge too many
        s["edges"] = edges
        universe = [f"{name[0]}{i}" for i in range(len(edges) - 1)] if r <= 1 - 0.03 * bad else [f"{name[0]}{i}" for i in range(len(edges) - 2)]
        if 0.9 < r <= 0.9 + 0.03 * bad and len(universe) > 1:
            universe = universe[:-1]                 # one label too few
    cats = list(universe)
    if s["kind"] != "binned":
        r = rng.random()
        if r < 0.25:
            rng.shuffle(cats)
        if r < 0.08 and len(cats) > 1:
            cats.pop(rng.randrange(len(cats)))       # a value the mapper produces is missing -> unknown at run time
        elif r > 0.85:
            cats.insert(rng.randrange(len(cats) + 1), "ghost")    # never produced: stays zero
        elif 0.80 < r <= 0.83 and name == "color":
            cats.append("purple")
        elif 0.83 < r <= 0.85 and name == "warm":
            cats += ["F_odd", "M_odd"]
    if rng.random() < 0.03 * bad and cats:
        cats.append(rng.choice(cats))                # duplicate category -> refused
    s["cats"] = cats
    r = rng.random()
    if r < 0.60:
        s["excl"] = None
    elif r < 0.66:
        s["excl"] = []
    elif r < 1 - 0.06 * bad:
        k = rng.choice([1, 1, 2])
        s["excl"] = rng.sample(cats, min(k, max(len(set(cats)) - 1, 0)))     # leaves at least one category
    elif r < 1 - 0.03 * bad:
        s["excl"] = ["nonsense"]                     # unknown exclusion -> refused
    else:
        s["excl"] = list(dict.fromkeys(cats))        # everything excluded -> refused (empty categories)
    return s


def gen_people(rng, n):
    return [[rng.choice(COLORS), rng.choice("FM"), rng.choice([0, 5, 9, 10, 11, 14, 15, 19, 20, 24, 25, 29, 30, 37, rng.randint(0, 37)]),
             rng.randint(-4, 9), rng.randint(0, 5)] for _ in range(n)]


def gen_program(rng, single=False):
    nstr = rng.choice([0, 1, 1, 2, 2, 2, 3, 3, 4])
    # mostly distinct names (a repeated name is refused, which would starve the 3-4 stratification cases)
    pool_names = list(MAPPERS) + list(DEFAULTS) + list(BINNED)
    rng.shuffle(pool_names)
    strats = [gen_strat(rng, pool_names[i] if rng.random() < 0.9 else None, bad=0.35) for i in range(nstr)]
    if single and not any(s["kind"] == "binned" for s in strats):
        strats.append(gen_strat(rng, rng.choice(list(BINNED)), bad=0.35))
    if rng.random() < 0.03 and strats:
        strats.append(gen_strat(rng, strats[0]["name"]))          # duplicate name -> refused
    names = [s["name"] for s in strats]
    has_binned = any(s["kind"] == "binned" for s in strats)
    cfg_excl = {}
    for s in strats:
        if rng.random() < 0.3:
            cs = list(dict.fromkeys(s["cats"]))
            cfg_excl[s["name"]] = rng.sample(cs, min(max(len(cs) - 1, 0), rng.choice([1, 1, 2]))) if rng.random() < 0.97 else ["zzz"]
    defaults = [n for n in dict.fromkeys(names) if rng.random() < 0.3]
    obs = []
    for i in range(rng.randint(1, 5)):
        kind = rng.choice(["count", "count", "sum", "sumdf", "sumsq", "countif", "concat"])
        o = {"name": f"o{i}" if rng.random() > 0.04 or i == 0 else "o0", "kind": kind,
             "filter": rng.choice([0, 0, 0, 1, 1, 2, 3, 4, 5, 6]) if rng.random() < 0.9 else None,   # None = default
             "when": rng.choice([0, 1, 2, 3, 3, 3]) if rng.random() < 0.9 else None,
             "to_observe": rng.choice([0, 0, 0, 1, 2, 3, 4]),
             "wcol": rng.randrange(len(WCOLS)),
             "cols": sorted(rng.sample(range(NP), rng.randint(0, NP))),
             "add": [n for n in names if rng.random() < 0.45], "excl": [n for n in names if rng.random() < 0.12]}
        if kind == "concat":
            # the filter's columns must be among the observation's required columns (the user's duty)
            if o["filter"] not in (None, 0, 1, 2, 5, 6):
                o["filter"] = rng.choice([0, 1, 2, 5, 6])
            if o["filter"] in (2, 6) and 1 not in o["cols"]:
                o["cols"] = sorted(o["cols"] + [1])
        if rng.random() < 0.05:
            o["add"] = o["add"] + o["add"][:1]                     # repeated name
        if rng.random() < 0.025:
            o["add"].append("ghost_strat")                         # never registered -> post_setup refuses
        rng.shuffle(o["add"])
        obs.append(o)
    if single:
        n0 = rng.choice([1, 1, 1, 0])
    else:
        n0 = rng.choice([0, 1, 2, 3, 4, 5, 6, 9])
    steps = rng.randint(1, 4)
    script = []
    born = 0
    for st in range(steps):
        for ph in range(4):
            for prio in ("before", "after"):
                if rng.random() < 0.22:
                    r = rng.random()
                    if single:
                        if n0 == 0 and born == 0 and r < 0.6:
                            script.append([st, ph, prio, "birth", 1]); born += 1
                        elif r < 0.8:
                            script.append([st, ph, prio, "age", rng.choice([1, 5])])
                        continue
                    if r < 0.22:
                        k = rng.choice([1, 2, 3])
                        script.append([st, ph, prio, "birth", k]); born += k
                    elif r < 0.45:
                        script.append([st, ph, prio, "untrack", [rng.randrange(0, n0 + born + 1) for _ in range(rng.randint(1, 3))]])
                    elif r < 0.52:
                        script.append([st, ph, prio, "retrack", [rng.randrange(0, n0 + born + 1)]])
                    elif r < 0.68:
                        script.append([st, ph, prio, "age", rng.choice([1, 1, 5, 10])])
                    elif r < 0.82:
                        script.append([st, ph, prio, "color", rng.randrange(0, n0 + born + 1),
                                       rng.choice(COLORS + (["purple"] if rng.random() < 0.35 else []))])
                    elif r < 0.92:
                        script.append([st, ph, prio, "w1", rng.randrange(0, n0 + born + 1), rng.randint(-4, 11)])
                    else:
                        script.append([st, ph, prio, "sex", rng.randrange(0, n0 + born + 1), rng.choice("FM")])
    return {"n0": n0, "steps": steps, "step_size": rng.choice([1, 1, 1, 2]), "strats": strats, "cfg_excl": cfg_excl,
            "defaults": defaults, "obs": obs, "script": script, "people": gen_people(rng, n0 + born + 1)}


def gen_sim(rng):
    return gen_program(rng, single=False)


def gen_single(rng):
    return gen_program(rng, single=True)


# ----------------------------------------------------------------------------------------------------------------
# probe components
# ----------------------------------------------------------------------------------------------------------------
def make_components(case, log):
    import numpy as np
    import pandas as pd
    from vivarium import Component

    people = case["people"]
    vecs = _vector_fns()
    to_obs = _to_observe_fns()

    def person(i):
        return people[i] if i < len(people) else people[-1]

    class C16Pop(Component):
        """Creates the columns; executes the script (births, untracking, attribute changes) before (priority 2) and
        after (priority 8) the results manager's listener (priority 5)."""

        @property
        def columns_created(self):
            return ["ident", "color", "sex", "age", "w1", "w2"]

        @property
        def columns_required(self):
            return ["tracked"]

        def setup(self, builder):
            self.creator = builder.population.get_simulant_creator()
            self.step = -1
            builder.value.register_value_producer(SCORE, source=self._score, requires_columns=["age", "w2"])
            for ph_i, ph in enumerate(PHASES):
                builder.event.register_listener(ph, self._mk(ph_i, "before"), priority=2)
                builder.event.register_listener(ph, self._mk(ph_i, "after"), priority=8)

        def _score(self, index):
            pop = self.population_view.get(index)          # this view has `tracked` among its columns: nobody is filtered
            return (2 * pop["age"] + pop["w2"]).astype("int64")

        def on_initialize_simulants(self, pop_data):
            idx = pop_data.index
            rows = [person(int(i)) for i in idx]
            df = pd.DataFrame({"ident": [int(i) for i in idx], "color": [r[0] for r in rows], "sex": [r[1] for r in rows],
                               "age": [int(r[2]) for r in rows], "w1": [int(r[3]) for r in rows],
                               "w2": [int(r[4]) for r in rows]}, index=idx)
            df["ident"] = df["ident"].astype("int64"); df["age"] = df["age"].astype("int64")
            df["w1"] = df["w1"].astype("int64"); df["w2"] = df["w2"].astype("int64")
            df["color"] = df["color"].astype("str"); df["sex"] = df["sex"].astype("str")
            self.population_view.update(df)

        def _mk(self, ph_i, prio):
            def listen(event):
                if ph_i == 0 and prio == "before":
                    self.step += 1
                for st, ph, pr, act, *args in case["script"]:
                    if st == self.step and ph == ph_i and pr == prio:
                        self._act(act, args)
            listen.__name__ = f"c16pop_{ph_i}_{prio}"
            return listen

        def _act(self, act, args):
            table = log["table"]()
            if act == "birth":
                self.creator(int(args[0]), {"sim_state": "time_step"})
                return
            if act == "age":
                if len(table):
                    self.population_view.subview(["age"]).update((table["age"] + int(args[0])).astype("int64"))
                return
            if act in ("untrack", "retrack"):
                labs = [l for l in dict.fromkeys(args[0]) if l in table.index]
                if labs:
                    self.population_view.subview(["tracked"]).update(
                        pd.Series([act == "retrack"] * len(labs), index=pd.Index(labs), name="tracked"))
                return
            lab, val = args
            if lab not in table.index:
                return
            if act in ("color", "sex"):
                self.population_view.subview([act]).update(pd.Series([val], index=pd.Index([lab]), name=act, dtype="str"))
            else:
                self.population_view.subview([act]).update(pd.Series([int(val)], index=pd.Index([lab]), name=act, dtype="int64"))

    class C16Obs(Component):
        """Registers the stratifications and observations of the program (each attempt in try/except: the outcome
        class is part of the observation) and snapshots the event population around the results manager."""

        def setup(self, builder):
            log["strat_codes"] = []
            for s in case["strats"]:
                try:
                    self._register_strat(builder, s)
                    log["strat_codes"].append(0)
                except ValueError as e:
                    log["strat_codes"].append(1)
                    log["errors"].append(f"strat {s['name']}: {e}")
            log["obs_codes"] = []
            for o in case["obs"]:
                try:
                    self._register_obs(builder, o)
                    log["obs_codes"].append(0)
                except ValueError as e:
                    log["obs_codes"].append(1)
                    log["errors"].append(f"obs {o['name']}: {e}")
            for ph_i, ph in enumerate(PHASES):
                builder.event.register_listener(ph, self._snap(ph_i, "pre"), priority=4)
                builder.event.register_listener(ph, self._snap(ph_i, "post"), priority=6)

        def _register_strat(self, builder, s):
            name, kind = s["name"], s["kind"]
            if kind == "binned":
                builder.results.register_binned_stratification(BINNED[name], name, list(s["edges"]), list(s["cats"]),
                                                               excluded_categories=s["excl"],
                                                               target_type="value" if name in VALUE_SOURCED else "column")
            elif kind == "default":
                builder.results.register_stratification(name, list(s["cats"]), excluded_categories=s["excl"],
                                                        requires_columns=[name])
            else:
                sources, _, frow = MAPPERS[name]
                src = {"requires_values": list(sources)} if name in VALUE_SOURCED else {"requires_columns": list(sources)}
                if kind == "vector":
                    builder.results.register_stratification(name, list(s["cats"]), excluded_categories=s["excl"],
                                                            mapper=vecs[name], is_vectorized=True, **src)
                else:
                    builder.results.register_stratification(name, list(s["cats"]), excluded_categories=s["excl"],
                                                            mapper=lambda row, f=frow: f(row), is_vectorized=False, **src)

        def _register_obs(self, builder, o):
            kw = {}
            if o["filter"] is not None:
                kw["pop_filter"] = FILTERS[o["filter"]]
            if o["when"] is not None:
                kw["when"] = PHASES[o["when"]]
            kw["to_observe"] = to_obs[o["to_observe"]]
            fcols = FILTER_COLS[o["filter"]] if o["filter"] is not None else []
            if o["kind"] == "concat":
                builder.results.register_concatenating_observation(o["name"], requires_columns=[PCOLS[c] for c in o["cols"]], **kw)
                return
            kw["additional_stratifications"] = list(o["add"])
            kw["excluded_stratifications"] = list(o["excl"])
            if o["kind"] == "sum":
                col = WCOLS[o["wcol"]]
                kw.update(aggregator_sources=[col], aggregator=lambda df, c=col: df[c].sum(),
                          requires_columns=list(dict.fromkeys([col] + fcols)))
            elif o["kind"] == "sumdf":
                col = WCOLS[o["wcol"]]
                kw.update(aggregator_sources=[col], aggregator=pd.DataFrame.sum,
                          requires_columns=list(dict.fromkeys([col] + fcols)))
            elif o["kind"] == "sumsq":                       # sum of squares
                col = WCOLS[o["wcol"]]
                kw.update(aggregator_sources=[col], aggregator=lambda df, c=col: (df[c] ** 2).sum(),
                          requires_columns=list(dict.fromkeys([col] + fcols)))
            elif o["kind"] == "countif":                     # conditional count
                col = WCOLS[o["wcol"]]
                kw.update(aggregator_sources=[col], aggregator=lambda df, c=col: int((df[c] > 2).sum()),
                          requires_columns=list(dict.fromkeys([col] + fcols)))
            else:
                kw.update(requires_columns=list(fcols))
            builder.results.register_adding_observation(o["name"], **kw)

        def _snap(self, ph_i, tag):
            def listen(event):
                table = log["table"]()
                snap = table.loc[event.index].copy()
                if tag == "pre":
                    log["events"].append({"phase": ph_i, "time": event.time, "snap": snap, "event": event,
                                          "post": None, "raw_after": None})
                else:
                    ev = log["events"][-1]
                    ev["post"] = snap
                    ev["raw_after"] = log["raw_results"]()
            listen.__name__ = f"c16snap_{ph_i}_{tag}"
            return listen

    return C16Pop(), C16Obs()


# ----------------------------------------------------------------------------------------------------------------
# running a program on the real code
# ----------------------------------------------------------------------------------------------------------------
def frame_to_table(df, tuple_names, intern):
    """adding-observation frame (index or columns = stratification names, + value) -> {key tuple: number}"""
    df = df.reset_index() if df.index.names != [None] else df
    out = {}
    extra = [c for c in df.columns if c not in tuple_names and c not in ("value", "stratification", "index")]
    if extra:
        raise AssertionError(f"unexpected columns {extra}")
    for rec in df.to_dict("records"):
        if tuple_names:
            key = tuple(intern(rec[n]) for n in tuple_names)
        else:
            if rec.get("stratification") != "all":
                raise AssertionError(f"unstratified row is not `all`: {rec}")
            key = ()
        if key in out:
            raise AssertionError(f"duplicate stratum {key}")
        v = rec["value"]
        out[key] = v
    return out


def frame_to_rows(df, cols):
    if df.shape[1] == 0:
        return []
    rows = []
    for rec in df.to_dict("records"):
        rows.append([secs(rec["event_time"])] + [int(rec[PCOLS[c]]) for c in cols])
    return rows


def execute(case):
    import pandas as pd
    from vivarium.framework.engine import SimulationContext
    boot.reset_contexts()
    log = {"events": [], "errors": []}
    pop, obsc = make_components(case, log)
    cfg = {"population": {"population_size": case["n0"]},
           "time": {"start": {"year": 2005, "month": 7, "day": 1}, "end": {"year": 2005, "month": 8, "day": 30},
                    "step_size": case["step_size"]},
           "stratification": {"default": list(case["defaults"]), "excluded_categories": dict(case["cfg_excl"])}}
    sim = SimulationContext(components=[pop, obsc], configuration=cfg, logging_verbosity=0)
    boot.quiet_logging()
    log["table"] = lambda: sim.get_population(untracked=True)          # public API only
    log["raw_results"] = lambda: sim.get_results()
    out = {"log": log, "sim": sim, "post_error": None, "run_error": None, "initial": None, "final": None}
    try:
        sim.setup()
    except ValueError as e:
        out["post_error"] = e
        return out
    out["initial"] = sim.get_results()
    sim.initialize_simulants()
    try:
        for _ in range(case["steps"]):
            sim.step()
    except Exception as e:
        out["run_error"] = e
    out["final"] = sim.get_results()
    return out


def _walk(obj, cls, depth=8, _seen=None):
    """instances of `cls` reachable from `obj` through containers and the attributes of vivarium objects (bounded): the
    harness finds internal objects BY TYPE, so that renaming a private attribute or turning a list into a dict is not a
    change it can see"""
    _seen = set() if _seen is None else _seen
    if id(obj) in _seen or depth < 0:
        return []
    _seen.add(id(obj))
    out = []
    if isinstance(obj, cls):
        out.append(obj)
    if isinstance(obj, dict):
        items = list(obj.keys()) + list(obj.values())
    elif isinstance(obj, (list, tuple, set, frozenset)):
        items = list(obj)
    elif type(obj).__module__.startswith("vivarium") and hasattr(obj, "__dict__"):
        items = list(vars(obj).values())
    else:
        items = []
    for x in items:
        out += _walk(x, cls, depth - 1, _seen)
    return out


def _results_manager(sim):
    from vivarium.framework.results.manager import ResultsManager
    found = [v for v in vars(sim).values() if isinstance(v, ResultsManager)]
    return found[0] if found else None


def real_observations(sim):
    """name -> (when, pop_filter, stratification tuple) of the registered observation objects (public dataclass fields),
    found by type; None if unreadable: the registration cross-check is then skipped, the results themselves still decide"""
    try:
        from vivarium.framework.results.observation import BaseObservation
        mgr = _results_manager(sim)
        if mgr is None:
            return None
        return {o.name: (o.when, o.pop_filter, o.stratifications, o) for o in _walk(mgr, BaseObservation)}
    except Exception:
        return None


def real_stratifications(sim):
    try:
        from vivarium.framework.results.stratification import Stratification
        mgr = _results_manager(sim)
        if mgr is None:
            return None
        return {st.name: st for st in _walk(mgr, Stratification)}
    except Exception:
        return None


class _Inert:
    """stands for every service of a builder the unit-level streams do not need"""
    def __getattr__(self, name):
        return _Inert()

    def __call__(self, *a, **k):
        return _Inert()


def bare_manager(defaults, excluded):
    """A ResultsManager set up through its PUBLIC setup(builder) with a stub builder that only carries the stratification
    configuration (no simulation).  Returns (manager, context) or None when this cannot be done any more (skip-and-count)."""
    from vivarium.framework.results.context import ResultsContext
    from vivarium.framework.results.manager import ResultsManager

    class _Excl:
        @staticmethod
        def to_dict():
            return {k: list(v) for k, v in excluded.items()}

    class _Strat:
        default = list(defaults)
        excluded_categories = _Excl

    class _Cfg(_Inert):
        stratification = _Strat

    class _Builder(_Inert):
        configuration = _Cfg()

    try:
        mgr = ResultsManager()
        mgr.setup(_Builder())
        ctxs = _walk(mgr, ResultsContext)
        if not ctxs:
            return None
        return mgr, ctxs[0]
    except Exception:
        return None


def run_sim(case, expect_single=False):
    import pandas as pd
    intern = Interner()
    r = execute(case)
    log, sim = r["log"], r["sim"]
    ok, msgs = True, []

    def fail(m):
        nonlocal ok
        ok = False
        if len(msgs) < 6:
            msgs.append(m)

    # ---- registrations, as accepted by the implementation ----
    strat_codes = log.get("strat_codes", [])
    obs_codes = log.get("obs_codes", [])
    if len(strat_codes) != len(case["strats"]) or len(obs_codes) != len(case["obs"]):
        return Result(ok=False, msg=f"harness: set-up did not reach all registrations: {r['post_error']!r} {log['errors']}")
    regs = []            # accepted stratifications: dicts with cats (non-excluded), excl
    real_strats = real_stratifications(sim)
    for s, code in zip(case["strats"], strat_codes):
        # oracle for the registration outcome (the documented refusals)
        cats = s["cats"]
        to_ex = s["excl"] if s["excl"] is not None else case["cfg_excl"].get(s["name"], [])
        bad = (any(x["name"] == s["name"] for x in regs) or len(set(cats)) != len(cats) or bool(set(to_ex) - set(cats))
               or not [c for c in cats if c not in to_ex]
               or (s["kind"] == "binned" and len(s["edges"]) != len(cats) + 1))
        if bad != (code == 1):
            fail(f"registration of {s['name']} {'refused' if code else 'accepted'} but expected the opposite")
        if code == 0:
            regs.append({"name": s["name"], "kind": s["kind"], "cats": [c for c in cats if c not in to_ex],
                         "excl": list(to_ex), "all": list(cats), "edges": s.get("edges")})
            rs = real_strats.get(s["name"]) if real_strats is not None else None
            if real_strats is not None and (rs is None or list(rs.categories) != regs[-1]["cats"] or list(rs.excluded_categories) != regs[-1]["excl"]):
                fail(f"registered stratification {s['name']} has categories {rs and rs.categories} / excluded "
                     f"{rs and rs.excluded_categories}")
    reg_names = [g["name"] for g in regs]
    robs = real_observations(sim)
    accepted_obs = []
    seen = set()
    for o, code in zip(case["obs"], obs_codes):
        if (o["name"] in seen) != (code == 1):
            fail(f"registration of observation {o['name']} code {code}")
        if code == 0:
            seen.add(o["name"])
            accepted_obs.append(o)
    # ---- Coq: requests ----
    def q_coq(s):
        kind = {"default": "QDefault", "vector": "QMapper", "row": "QMapper"}.get(s["kind"]) or f"(QBinned {zl(s['edges'])})"
        nsrc = 1 if s["kind"] in ("default", "binned") else len(MAPPERS[s["name"]][0])
        excl = "None" if s["excl"] is None else f"(Some {zl(intern(c) for c in s['excl'])})"
        return (f"{{| q_name := {z(NAME_ID[s['name']])}; q_cats := {zl(intern(c) for c in s['cats'])}; q_excl := {excl}; "
                f"q_kind := {kind}; q_sources := {nat(nsrc)} |}}")
    cfg_coq = clist(cpair(z(NAME_ID[n]), zl(intern(c) for c in cs)) for n, cs in case["cfg_excl"].items())
    qs_coq = clist(cpair(q_coq(s), z(c)) for s, c in zip(case["strats"], strat_codes))
    oreqs = []
    expected_tuple = {}
    for o, code in zip(case["obs"], obs_codes):
        flt = 0 if o["filter"] is None else o["filter"]
        when = 3 if o["when"] is None else o["when"]
        if o["kind"] == "concat":
            kind = f"(OConcat {clist(nat(c) for c in o['cols'])})"
            d, a, e, it, tup = [], [], [], [], []
        else:
            kind = "OCount" if o["kind"] == "count" else f"(OSum {nat(weight_index(o))})"
            d, a, e = list(case["defaults"]), list(o["add"]), list(o["excl"])
            it = list(set(d + [] + a) - set(e))                      # the expression of manager.py 382-389
            spec = tuple(sorted(set(d + a) - set(e)))
            tup = list(spec)
            if code == 0:
                expected_tuple[o["name"]] = spec
                real = robs.get(o["name"]) if robs is not None else None
                if robs is None:
                    pass
                elif real is None:
                    fail(f"observation {o['name']} not found in the results context")
                else:
                    tup = list(real[2]) if real[2] is not None else []
                    if tuple(tup) != spec:
                        fail(f"observation {o['name']}: stratifications {tup} != sort(dedup(default+additional)-excluded) {spec}")
                    if real[0] != PHASES[when] or real[1] != FILTERS[flt]:
                        fail(f"observation {o['name']}: registered with when={real[0]} filter={real[1]!r}")
        ids = lambda ns: zl(NAME_ID[n] for n in ns)
        oreqs.append(cpair(z(int(o["name"][1:])), z(when), nat(flt), kind, cpair(ids(d), ids(a), ids(e)), ids(it), z(code), ids(tup)))
    # ---- post_setup ----
    missing = any(o["kind"] != "concat" and (set(expected_tuple[o["name"]]) - set(reg_names)) for o in accepted_obs)
    post_code = 1 if r["post_error"] is not None else 0
    if missing != (post_code == 1):
        fail(f"post_setup {'refused' if post_code else 'accepted'}; unregistered stratification requested: {missing}")

    def results_coq(res):
        items = []
        for o in accepted_obs:
            n = z(int(o["name"][1:]))
            if o["kind"] == "concat":
                rows = frame_to_rows(res[o["name"]], o["cols"])
                items.append(cpair(n, "OCat " + clist(cpair(z(t[0]), zl(t[1:])) for t in rows)))
            else:
                tbl = frame_to_table(res[o["name"]], expected_tuple[o["name"]], intern)
                ent = []
                for k, v in sorted(tbl.items()):
                    if v != v or v != math.floor(v):
                        fail(f"non-integer value {v} in {o['name']} {k}")
                        v = -999999
                    ent.append(cpair(zl(k), z(int(v))))
                items.append(cpair(n, "OAdd " + clist(ent)))
        return clist(items)

    tags = [f"strats{len(regs)}", f"obs{len(accepted_obs)}", f"n0_{min(case['n0'], 9)}"]
    for g in regs:
        tags.append("kind_" + g["kind"])
        if g["name"] in VALUE_SOURCED:
            tags.append("value_sourced")
    tags += sorted({"agg_" + o["kind"] for o in accepted_obs})
    if post_code == 1:
        coq = "(" + cpair(cfg_coq, qs_coq, clist(oreqs), cpair(nat(NF), nat(NW), nat(NP)), z(1), "[]", "[]",
                          cpair(z(0), z(0)), "[]") + " : sim_case)"
        return Result(ok=ok, msg="; ".join(msgs), coq=coq, key=None, obs={"post_setup": repr(r["post_error"])[:200]},
                      tags=tuple(tags + ["post_setup_refused"]))
    try:
        initial_coq = results_coq(r["initial"])
    except (AssertionError, KeyError) as e:
        return Result(ok=False, msg=f"initial results malformed: {e}")
    # ---- oracle state: zero tables on the full product (the property's statement of the key set) ----
    def product(lists):
        out = [()]
        for l in lists:
            out = [k + (c,) for k in out for c in l]
        return out
    by_name = {g["name"]: g for g in regs}
    expect = {}
    for o in accepted_obs:
        if o["kind"] == "concat":
            expect[o["name"]] = []
        else:
            keys = product([[intern(c) for c in by_name[n]["cats"]] for n in expected_tuple[o["name"]]])
            expect[o["name"]] = {k: 0 for k in keys}
    def compare(res, where, raw=False):
        for o in accepted_obs:
            try:
                if o["kind"] == "concat":
                    got = frame_to_rows(res[o["name"]], o["cols"])
                    if got != expect[o["name"]]:
                        fail(f"{where}: concatenated rows of {o['name']} = {got[:8]}.. expected {expect[o['name']][:8]}..")
                else:
                    got = frame_to_table(res[o["name"]], expected_tuple[o["name"]], intern)
                    if got != expect[o["name"]]:
                        diff = {k: (got.get(k), expect[o["name"]].get(k)) for k in set(got) | set(expect[o["name"]])
                                if got.get(k) != expect[o["name"]].get(k)}
                        fail(f"{where}: {o['name']} differs from the recomputation (got, expected) {dict(list(diff.items())[:5])}")
            except (AssertionError, KeyError) as e:
                fail(f"{where}: results of {o['name']} malformed: {e}")
    compare(r["initial"], "after post_setup")
    # ---- events ----
    tobs = _to_observe_fns()
    ev_coq = []
    expected_stop = None
    n_nonempty = 0
    one_row_binned = False
    for ei, ev in enumerate(log["events"]):
        snap = ev["snap"]
        recs = snap.to_dict("records")
        for rec in recs:
            rec[SCORE] = score_of(rec)                  # the pipeline's value, recomputed from the snapshot
        labels = [int(i) for i in snap.index]
        for rec, lab in zip(recs, labels):
            if int(rec["ident"]) != lab:
                fail(f"harness: ident column {rec['ident']} != label {lab}")
        if ev["post"] is not None and not ev["post"].equals(snap):
            fail(f"harness: state table changed between priorities 4 and 6 at event {ei}")
        passes = []
        for f in FILTERS:
            idx = set(snap.query(f).index) if (f and len(snap)) else set(snap.index)
            passes.append([lab in idx for lab in labels])
        # mapper outputs (the user's functions on the probe's snapshot)
        raws = {}
        for g in regs:
            if g["kind"] == "binned":
                raws[g["name"]] = [int(rec[BINNED[g["name"]]]) for rec in recs]
            elif g["kind"] == "default":
                raws[g["name"]] = [rec[g["name"]] for rec in recs]
            else:
                raws[g["name"]] = [MAPPERS[g["name"]][2](rec) for rec in recs]
        # oracle: categories per row per stratification
        cats = {}
        unknown = None
        for g in regs:
            col = []
            for v in raws[g["name"]]:
                if g["kind"] == "binned":
                    e = g["edges"]
                    lab = None
                    if all(a < b for a, b in zip(e, e[1:])):
                        for i in range(len(e) - 1):
                            if e[i] <= v < e[i + 1]:
                                lab = g["all"][i]
                    else:
                        unknown = unknown or (g["name"], "bins not increasing")
                    v = lab
                if v is None:
                    unknown = unknown or (g["name"], "NaN")
                    col.append(None)
                elif v in g["cats"]:
                    col.append(v)
                elif v in g["excl"]:
                    col.append(None)
                else:
                    unknown = unknown or (g["name"], v)
                    col.append(None)
            cats[g["name"]] = col
        if not recs:
            unknown = None                      # an empty event population is not looked at
        else:
            n_nonempty += 1
        is_last = ei == len(log["events"]) - 1
        raised_here = is_last and r["run_error"] is not None and ev["post"] is None
        if bool(recs) and len(recs) == 1 and any(g["kind"] == "binned" for g in regs) and unknown is None:
            one_row_binned = True
        if raised_here:
            if unknown is None:
                fail(f"event {ei} ({PHASES[ev['phase']]}): simulation stopped with {r['run_error']!r} although "
                     f"every mapped value is a known category")
        elif unknown is not None:
            fail(f"event {ei} ({PHASES[ev['phase']]}): stratification {unknown[0]} mapped a simulant to {unknown[1]!r} "
                 f"(not a category) but the simulation went on" )
        # expected update of every observation (plain loops)
        before = {k: (dict(v) if isinstance(v, dict) else list(v)) for k, v in expect.items()}
        observed_names = []
        for o in accepted_obs:
            flt = 0 if o["filter"] is None else o["filter"]
            when = 3 if o["when"] is None else o["when"]
            verdict = bool(tobs[o["to_observe"]](ev["event"]))
            if verdict:
                observed_names.append(int(o["name"][1:]))
            if when != ev["phase"] or not verdict or raised_here or unknown is not None:
                continue
            if o["kind"] == "concat":
                for j, rec in enumerate(recs):
                    if passes[flt][j]:
                        expect[o["name"]].append([secs(ev["time"])] + [int(rec[PCOLS[c]]) for c in o["cols"]])
            else:
                eligible_total = 0
                for j, rec in enumerate(recs):
                    if not passes[flt][j]:
                        continue
                    key = tuple(cats[n][j] for n in expected_tuple[o["name"]])
                    if any(c is None for c in key):
                        continue                               # excluded category: not counted anywhere
                    w = 1 if o["kind"] == "count" else weights_of(rec)[weight_index(o)]
                    eligible_total += w
                    k = tuple(intern(c) for c in key)
                    if k not in expect[o["name"]]:
                        fail(f"harness oracle: key {key} not in the product for {o['name']}")
                        continue
                    expect[o["name"]][k] += w
        if ev["raw_after"] is not None:
            compare(ev["raw_after"], f"after event {ei} ({PHASES[ev['phase']]}, {ev['time']})")
            # conservation law on the implementation's increments
            prev = log["events"][ei - 1]["raw_after"] if ei > 0 else None
            for o in accepted_obs:
                if o["kind"] == "concat":
                    continue
                try:
                    now = frame_to_table(ev["raw_after"][o["name"]], expected_tuple[o["name"]], intern)
                    was = frame_to_table(prev[o["name"]], expected_tuple[o["name"]], intern) if prev else {k: 0 for k in now}
                except (AssertionError, KeyError) as e:
                    fail(f"after event {ei}: {e}")
                    continue
                inc_total = sum(now.values()) - sum(was.values())
                exp_total = sum(expect[o["name"]].values()) - sum(before[o["name"]].values())
                if inc_total != exp_total:
                    fail(f"conservation: event {ei} {o['name']}: increments over all strata add up to {inc_total}, "
                         f"the aggregate over the eligible simulants is {exp_total}")
        # Coq rows
        rows_coq = []
        for j, (rec, lab) in enumerate(zip(recs, labels)):
            raw_items = []
            for g in regs:
                v = raws[g["name"]][j]
                if g["kind"] != "binned":
                    v = None if v is None else intern(v)
                raw_items.append(cpair(z(NAME_ID[g["name"]]), oz(v)))
            rows_coq.append(f"{{| r_label := {z(lab)}; r_raw := {clist(raw_items)}; r_pass := {clist(cbool(p[j]) for p in passes)}; "
                            f"r_w := {zl(weights_of(rec))}; r_pay := {zl(int(rec[c]) for c in PCOLS)} |}}")
        ev_coq.append(f"{{| e_phase := {z(ev['phase'])}; e_time := {z(secs(ev['time']))}; e_rows := {clist(rows_coq)}; "
                      f"e_obs := {zl(observed_names)} |}}")
        if raised_here:
            tags.append("stopped")
    if r["run_error"] is not None and (not log["events"] or log["events"][-1]["post"] is not None):
        fail(f"simulation raised outside the results manager's listener: {r['run_error']!r}")
    compare(r["final"], "final get_results()")
    fcode = 1 if r["run_error"] is not None else 0
    nacc = len(log["events"]) - (1 if fcode else 0)
    try:
        final_coq = results_coq(r["final"])
    except (AssertionError, KeyError) as e:
        return Result(ok=False, msg="; ".join(msgs + [f"final results malformed: {e}"]))
    coq = "(" + cpair(cfg_coq, qs_coq, clist(oreqs), cpair(nat(NF), nat(NW), nat(NP)), z(0), initial_coq,
                      clist("\n    " + e for e in ev_coq), cpair(z(fcode), z(nacc)), final_coq) + " : sim_case)"
    tags.append(f"events{min(len(log['events']) // 4 * 4, 16)}")
    if one_row_binned:
        tags.append("one_row_binned")
    maxrows = max([len(e["snap"]) for e in log["events"]] + [0])
    tags.append(f"maxrows{min(maxrows, 12) // 3 * 3}")
    nontrivial = bool(accepted_obs) and n_nonempty > 0
    obs_json = {"strat_codes": strat_codes, "obs_codes": obs_codes, "events": len(log["events"]),
                "run_error": repr(r["run_error"])[:200] if r["run_error"] else None,
                "final": {k: (v.to_dict("records")[:12]) for k, v in r["final"].items()}}
    return Result(ok=ok, msg="; ".join(msgs), coq=coq, key=case if nontrivial else None, obs=obs_json, tags=tuple(tags))


# ----------------------------------------------------------------------------------------------------------------
# stream `strat`: add_stratification + stratify on values
# ----------------------------------------------------------------------------------------------------------------
def gen_strat_case(rng):
    s = gen_strat(rng)
    cfg = {}
    if rng.random() < 0.4:
        cs = list(dict.fromkeys(s["cats"]))
        cfg[s["name"]] = rng.sample(cs, min(len(cs), rng.choice([1, 2]))) if rng.random() < 0.9 else ["zzz"]
    if rng.random() < 0.05:
        s["sources_override"] = rng.choice([0, 2])
    vals = []
    n = rng.randint(0, 12)
    if s["kind"] == "binned":
        e = s["edges"]
        pool = sorted(set(e + [x - 1 for x in e] + [x + 1 for x in e]))
        vals = [rng.choice(pool) if rng.random() < 0.8 else rng.randint(min(e) - 3, max(e) + 3) for _ in range(n)]
    else:
        universe = list(MAPPERS[s["name"]][1]) if s["name"] in MAPPERS else list(DEFAULTS[s["name"]])
        pool = universe + s["cats"] + ["purple", "ghost", None]
        vals = [rng.choice(pool) for _ in range(n)]
    return {"strat": s, "cfg": cfg, "vals": vals, "frame_rows": rng.choice([1, 2, 2, 3])}


def run_strat(case):
    import numpy as np
    import pandas as pd
    from vivarium.framework.results.stratification import Stratification
    intern = Interner()
    s, cfg = case["strat"], case["cfg"]
    bare = bare_manager([], cfg)
    if bare is None:
        return Result(ok=True, coq=None, key=None, obs={"skipped": "no bare ResultsManager"}, tags=("unobservable_skipped",))
    mgr, ctx = bare
    if s["kind"] in ("default", "binned"):
        nsrc = 1
        sources = ["x"]
    else:
        nsrc = len(MAPPERS[s["name"]][0])
        sources = [f"x{i}" for i in range(nsrc)]
    if "sources_override" in s and s["kind"] != "binned":
        nsrc = s["sources_override"]
        sources = [f"x{i}" for i in range(nsrc)]
    code = 0
    try:
        if s["kind"] == "binned":
            mgr.register_binned_stratification("x", s["name"], list(s["edges"]), list(s["cats"]), s["excl"], "column")
        else:
            # the mapper reads its output from column x0 (the harness supplies the outputs directly)
            mapper = None if s["kind"] == "default" else (
                (lambda df: df.iloc[:, 0]) if s["kind"] == "vector" else (lambda row: row.iloc[0]))
            mgr.register_stratification(s["name"], list(s["cats"]), s["excl"], mapper, s["kind"] == "vector",
                                        requires_columns=sources)
    except ValueError:
        code = 1
    ok, msg = True, ""
    cats = s["cats"]
    to_ex = s["excl"] if s["excl"] is not None else cfg.get(s["name"], [])
    bad = (len(set(cats)) != len(cats) or bool(set(to_ex) - set(cats)) or not [c for c in cats if c not in to_ex]
           or (s["kind"] == "binned" and len(s["edges"]) != len(cats) + 1) or nsrc == 0
           or (s["kind"] == "default" and nsrc != 1))
    if bad != (code == 1):
        ok, msg = False, f"registration {'refused' if code else 'accepted'}, expected the opposite"
    kind = {"default": "QDefault", "vector": "QMapper", "row": "QMapper"}.get(s["kind"]) or f"(QBinned {zl(s['edges'])})"
    excl = "None" if s["excl"] is None else f"(Some {zl(intern(c) for c in s['excl'])})"
    q = (f"{{| q_name := {z(NAME_ID[s['name']])}; q_cats := {zl(intern(c) for c in s['cats'])}; q_excl := {excl}; "
         f"q_kind := {kind}; q_sources := {nat(nsrc)} |}}")
    cfg_coq = clist(cpair(z(NAME_ID[n]), zl(intern(c) for c in cs)) for n, cs in cfg.items())
    vals_coq = []
    trace = []
    increasing = s["kind"] != "binned" or all(a < b for a, b in zip(s["edges"], s["edges"][1:]))
    registered = _walk(mgr, Stratification)
    if code == 0 and len(registered) != 1:
        return Result(ok=True, coq=None, key=None, obs={"skipped": "registered stratification not found"},
                      tags=("unobservable_skipped",))
    if code == 0:
        st = registered[0]
        keep = [c for c in cats if c not in to_ex]
        for v in case["vals"]:
            # a frame of `frame_rows` rows: the value under test first, then valid filler values
            if s["kind"] == "binned":
                filler = s["edges"][0]
                col = [v] + [filler] * (case["frame_rows"] - 1)
                df = pd.DataFrame({"x": pd.Series(col, dtype="int64")})
            else:
                filler = keep[0]
                col = [v] + [filler] * (case["frame_rows"] - 1)
                df = pd.DataFrame({sources[0]: pd.Series(col, dtype=object)})
                for extra in sources[1:]:
                    df[extra] = 0
            try:
                out = st.stratify(df)
                got = out.iloc[0]
                o = (1, 0) if pd.isna(got) else (0, intern(got))
                if list(out.cat.categories) != keep or not out.cat.ordered:
                    ok, msg = False, f"mapped column is not the ordered categorical of the non-excluded categories: {out.dtype}"
            except ValueError as e:
                o = (2, 0)
            # direct oracle
            if s["kind"] == "binned":
                e = s["edges"]
                lab = None
                if increasing:
                    for i in range(len(e) - 1):
                        if e[i] <= v < e[i + 1]:
                            lab = cats[i]
                exp = (2, 0) if lab is None else ((0, intern(lab)) if lab in keep else (1, 0))
                raw = v
            else:
                exp = (2, 0) if v is None or v not in cats else ((0, intern(v)) if v in keep else (1, 0))
                raw = None if v is None else intern(v)
            if o != exp:
                ok, msg = False, f"value {v!r}: stratify gave {o}, the property says {exp}"
            vals_coq.append(cpair(oz(raw), cpair(z(o[0]), z(o[1]))))
            trace.append([v, list(o)])
    coq = "(" + cpair(cfg_coq, q, z(code), clist(vals_coq)) + " : strat_case)"
    if code == 0 and not increasing:
        coq = None     # accepted registration whose bins pd.cut refuses on every call: covered by the `sim` stream
    return Result(ok=ok, msg=msg, coq=coq, key=(case if code == 0 and case["vals"] else None), obs={"code": code, "trace": trace},
                  tags=(f"code{code}", "kind_" + s["kind"]) + tuple({f"out{t[1][0]}" for t in trace}))


# ----------------------------------------------------------------------------------------------------------------
# stream `resolve`: _get_stratifications
# ----------------------------------------------------------------------------------------------------------------
def gen_resolve(rng):
    pool = ALL_STRAT_NAMES
    pick = lambda p: [rng.choice(pool) for _ in range(rng.choice([0, 0, 1, 2, 3, 5]))] if rng.random() < p else []
    return {"d": pick(0.7), "r": pick(0.4), "a": pick(0.8), "e": pick(0.6)}


def run_resolve(case):
    """the stratification tuple of an adding observation registered through the manager's PUBLIC register_observation
    (default list from the configuration, requested / additional / excluded lists as arguments), read off the registered
    observation object"""
    from vivarium.framework.results.observation import AddingObservation, BaseObservation
    bare = bare_manager(case["d"], {})
    got = None
    if bare is not None:
        mgr, ctx = bare
        try:
            mgr.register_observation(observation_type=AddingObservation, is_stratified=True, name="o", pop_filter="",
                                     when="collect_metrics", requires_columns=[], requires_values=[],
                                     results_formatter=lambda measure, results: results,
                                     stratifications=list(case["r"]), additional_stratifications=list(case["a"]),
                                     excluded_stratifications=list(case["e"]), aggregator_sources=None, aggregator=len,
                                     to_observe=lambda event: True)
            obs = [o for o in _walk(mgr, BaseObservation) if o.name == "o"]
            got = obs[0].stratifications if len(obs) == 1 else None
        except Exception:
            got = None
    if got is None:
        return Result(ok=True, coq=None, key=None, obs={"skipped": "registration path not available"}, tags=("unobservable_skipped",))
    it = list(set(case["d"] + case["r"] + case["a"]) - set(case["e"]))
    spec = tuple(sorted((set(case["d"]) | set(case["r"]) | set(case["a"])) - set(case["e"])))
    ok = tuple(got) == spec and isinstance(got, tuple)
    ids = lambda ns: zl(NAME_ID[n] for n in ns)
    coq = "(" + cpair(ids(case["d"]), ids(case["r"]), ids(case["a"]), ids(case["e"]), ids(it), ids(got)) + " : resolve_case)"
    nontrivial = any(case[k] for k in "drae")
    return Result(ok=ok, msg="" if ok else f"the observation's stratifications are {got}, expected {spec}", coq=coq,
                  key=case if nontrivial else None, obs={"tuple": list(got)}, tags=(f"len{min(len(got), 6)}",))


# ----------------------------------------------------------------------------------------------------------------
def shrink_sim(case):
    """smaller programs: fewer steps, observations, stratifications, script operations, simulants, configuration"""
    import copy
    if case["steps"] > 1:
        c = copy.deepcopy(case); c["steps"] -= 1
        c["script"] = [op for op in c["script"] if op[0] < c["steps"]]; yield c
    for i in range(len(case["obs"])):
        if len(case["obs"]) > 1:
            c = copy.deepcopy(case); del c["obs"][i]; yield c
    for i, st in enumerate(case["strats"]):
        c = copy.deepcopy(case); del c["strats"][i]
        if not any(x["name"] == st["name"] for x in c["strats"]):
            for o in c["obs"]:
                o["add"] = [n for n in o["add"] if n != st["name"]]
                o["excl"] = [n for n in o["excl"] if n != st["name"]]
            c["defaults"] = [n for n in c["defaults"] if n != st["name"]]
            c["cfg_excl"].pop(st["name"], None)
        yield c
    for i in range(len(case["script"])):
        c = copy.deepcopy(case); del c["script"][i]; yield c
    if case["n0"] > 1:
        c = copy.deepcopy(case); c["n0"] -= 1; yield c
        c = copy.deepcopy(case); c["n0"] = max(1, case["n0"] // 2); yield c
    if case["defaults"]:
        c = copy.deepcopy(case); c["defaults"] = []; yield c
    for k in list(case["cfg_excl"]):
        c = copy.deepcopy(case); del c["cfg_excl"][k]; yield c
    for i, o in enumerate(case["obs"]):
        for key in ("add", "excl"):
            for j in range(len(o[key])):
                c = copy.deepcopy(case); del c["obs"][i][key][j]; yield c
        if o["to_observe"] != 0:
            c = copy.deepcopy(case); c["obs"][i]["to_observe"] = 0; yield c
        if o["filter"] not in (None, 1):
            c = copy.deepcopy(case); c["obs"][i]["filter"] = 1; yield c
    for i, st in enumerate(case["strats"]):
        if st["excl"]:
            c = copy.deepcopy(case); c["strats"][i]["excl"] = []; yield c


def shrink_strat(case):
    import copy
    for i in range(len(case["vals"])):
        c = copy.deepcopy(case); del c["vals"][i]; yield c
    if case["cfg"]:
        c = copy.deepcopy(case); c["cfg"] = {}; yield c
    if case["frame_rows"] > 1:
        c = copy.deepcopy(case); c["frame_rows"] = 1; yield c


def shrink_resolve(case):
    import copy
    for k in "drae":
        for i in range(len(case[k])):
            c = copy.deepcopy(case); del c[k][i]; yield c


def _corpus(name):
    import json
    import os
    d = os.path.join(os.path.dirname(os.path.dirname(os.path.dirname(os.path.abspath(__file__)))), "corpus", "C16")
    out = []
    if os.path.isdir(d):
        for f in sorted(os.listdir(d)):
            if f.startswith(name + "_") and f.endswith(".json"):
                out.append(json.load(open(os.path.join(d, f)))["case"])
    return out


def streams(tier):
    imp = "From Viv Require Import Common Results."
    return [
        Stream(name="sim", imports=imp, check="check_sim", gen=gen_sim, run=run_sim, n_quick=100, n_thorough=1200,
               corpus=lambda: _corpus("sim"), shrink=shrink_sim,
               doc="whole simulations: probe snapshots -> model -> get_results()"),
        Stream(name="single", imports=imp, check="check_sim", gen=gen_single, run=run_sim, n_quick=12, n_thorough=60,
               corpus=lambda: _corpus("single"), shrink=shrink_sim,
               doc="one-simulant populations with a binned stratification (was finding F-R, fixed)"),
        Stream(name="strat", imports=imp, check="check_strat", gen=gen_strat_case, run=run_strat, n_quick=400,
               n_thorough=6000, corpus=lambda: _corpus("strat"), shrink=shrink_strat),
        Stream(name="resolve", imports=imp, check="check_resolve", gen=gen_resolve, run=run_resolve, n_quick=400,
               n_thorough=6000, corpus=lambda: _corpus("resolve"), shrink=shrink_resolve),
    ]
