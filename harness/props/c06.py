"""C06 - The lifecycle only ever advances in the legal order (DESIGN.md section 5, C06).

Tie to the code:
  tables():  the engine's life cycle (phases, states, loop flags) read off a live LifeCycleManager and the script
             (set_state declarations + emissions) of every context method recorded from a real run; the theorems of
             EngineProofs.v are instantiated on them in generated/EngineTable_C06.v (re-proved every run).
  stream `cells` (exhaustive): every life-cycle state x every context method on a real context.
  stream `lc`   (generated):   stand-alone LifeCycleManagers with random life cycles and request sequences.
"""
import math
import random

import boot
from core import Result, Stream, cbool, clist, cpair, cz, czlist

PROPERTY = "C06"
RULE = ("cells: the complete 10 states x 13 context methods table on real contexts (exhaustive for the abstraction "
        "'behaviour depends on the life-cycle state'); lc: random life cycles (1-5 phases x 0-4 states, loop flags, "
        "duplicate names) with 0-40 set_state requests mixing legal, illegal and unknown names. distinct = distinct "
        "(life cycle, request sequence) / distinct cell; trivial = no request or no phase")
ASSUMPTIONS = [
    "a context method's effect on the life cycle is the sequence of set_state declarations and emissions it makes "
    "(recorded from the live code each run); behaviour of a context call depends on the life-cycle state only "
    "(plus clock < stop for run-like methods, whose step count is read from the clock)",
]

STATES = ["initialization", "setup", "post_setup", "population_creation", "time_step__prepare", "time_step",
          "time_step__cleanup", "collect_metrics", "simulation_end", "report"]
SID = {s: i for i, s in enumerate(STATES)}
EVENTS = ["post_setup", "time_step__prepare", "time_step", "time_step__cleanup", "collect_metrics", "simulation_end",
          "report"]
CONFIG = {"population": {"population_size": 3},
          "time": {"start": {"year": 2005, "month": 7, "day": 1}, "end": {"year": 2005, "month": 7, "day": 3},
                   "step_size": 1}}


def sid(name):
    return SID.get(name, 1000 + (sum(map(ord, name)) % 1000))


# ----------------------------------------------------------------------------------------------------------------
# probe component + recording
# ----------------------------------------------------------------------------------------------------------------
def make_probe():
    from vivarium import Component

    class StateProbe(Component):
        """Logs every emission it hears (with the life-cycle state at that moment) and runs an armed callback the first
        time component code runs in a given state."""

        def __init__(self):
            super().__init__()
            self.log = []          # ("emit", event, state) entries, in order
            self.armed = {}        # state -> callable, run once
            self.sim = None

        def _fire(self, state):
            cb = self.armed.pop(state, None)
            if cb is not None:
                cb()

        def setup(self, builder):
            self._state = builder.lifecycle.current_state()
            for ev in EVENTS:
                builder.event.register_listener(ev, self._listener(ev), 0)
            builder.population.initializes_simulants(self.on_init)
            self._fire("setup")

        def _listener(self, ev):
            def listen(event):
                st = self._state()
                self.log.append(("emit", ev, st))
                self._fire(st)
            listen.__name__ = f"probe_{ev}"
            return listen

        def on_init(self, pop_data):
            self._fire(self._state())

    return StateProbe()


class Recorder:
    """Wraps LifeCycleManager.set_state (class level, harness process only) to record requests; restores on exit."""

    def __init__(self, log):
        self.log = log

    def __enter__(self):
        from vivarium.framework.lifecycle import LifeCycleManager
        self.cls = LifeCycleManager
        self.orig = LifeCycleManager.set_state
        log, orig = self.log, self.orig

        def set_state(mgr, state):
            try:
                orig(mgr, state)
            except Exception as e:
                log.append(("set_refused", state, type(e).__name__))
                raise
            log.append(("set", state, mgr.current_state))

        LifeCycleManager.set_state = set_state
        return self

    def __exit__(self, *a):
        self.cls.set_state = self.orig


def _find_by_type(obj, cls, preferred):
    """The context keeps its managers in private attributes; look the object up by TYPE so that a renamed attribute is
    not mistaken for a broken property (fall back to the conventional name first, it is cheaper)."""
    x = getattr(obj, preferred, None)
    if isinstance(x, cls):
        return x
    for v in vars(obj).values():
        if isinstance(v, cls):
            return v
    raise AttributeError(f"no {cls.__name__} found on {type(obj).__name__}")


def _lcm(sim):
    from vivarium.framework.lifecycle import LifeCycleManager
    return _find_by_type(sim, LifeCycleManager, "_lifecycle")


def _clk(sim):
    from vivarium.framework.time import SimulationClock
    return _find_by_type(sim, SimulationClock, "_clock")


def recorded_phases(interactive=False):
    """(name, [state names], loop) of every phase of the engine's life cycle, in order, recorded from the PUBLIC method
    LifeCycle.add_phase while a real context is being constructed (no private attribute of LifeCycle is read)."""
    from vivarium.framework.lifecycle import LifeCycle
    rec = []
    orig = LifeCycle.add_phase

    def spy(self, phase_name, states, loop):
        out = orig(self, phase_name, states, loop)
        rec.append((str(phase_name), [str(x) for x in states], bool(loop)))
        return out
    LifeCycle.add_phase = spy
    try:
        sim, probe = new_context(interactive)
    finally:
        LifeCycle.add_phase = orig
    return sim, probe, rec


def new_context(interactive):
    from vivarium.framework.engine import SimulationContext
    from vivarium.interface.interactive import InteractiveContext
    boot.reset_contexts()
    probe = make_probe()
    if interactive:
        sim = InteractiveContext(components=[probe], configuration=CONFIG, setup=False, logging_verbosity=0)
    else:
        sim = SimulationContext(components=[probe], configuration=CONFIG, logging_verbosity=0)
    probe.sim = sim
    boot.quiet_logging()
    return sim, probe


def steps_remaining(sim):
    clock = _clk(sim)
    try:
        n = math.ceil((clock.stop_time - clock.time) / clock.step_size)
    except Exception:
        # clock not set up yet (state `initialization`): run()'s loop condition itself raises before anything is
        # declared.  Modelled as one attempted step (refused at its first declaration: nothing legal follows
        # initialization except setup) - same observable: an error, inert.
        return 1
    return max(0, int(n))


# method name -> (interactive?, callable(sim))
def methods():
    import pandas as pd
    return {
        "setup": (False, lambda sim: sim.setup()),
        "initialize_simulants": (False, lambda sim: sim.initialize_simulants()),
        "step": (False, lambda sim: sim.step()),
        "run": (False, lambda sim: sim.run()),
        "finalize": (False, lambda sim: sim.finalize()),
        "report": (False, lambda sim: sim.report(print_results=False)),
        "run_simulation": (False, lambda sim: sim.run_simulation()),
        "i_setup": (True, lambda sim: sim.setup()),
        "i_step": (True, lambda sim: sim.step()),
        "i_take_steps": (True, lambda sim: sim.take_steps(2, with_logging=False)),
        "i_run_for": (True, lambda sim: sim.run_for(pd.Timedelta(days=2), with_logging=False)),
        "i_run_until": (True, lambda sim: sim.run_until(_clk(sim).time + pd.Timedelta(days=2), with_logging=False)),
        "i_run": (True, lambda sim: sim.run(with_logging=False)),
    }


METHOD_IDS = {m: i for i, m in enumerate(["setup", "initialize_simulants", "step", "run", "finalize", "report",
                                          "run_simulation", "i_setup", "i_step", "i_take_steps", "i_run_for",
                                          "i_run_until", "i_run"])}
# methods whose script is "step" repeated a clock-dependent number of times (+ prefix/suffix)
STEP_MULT = {"run": "clock", "i_run": "clock", "i_take_steps": 2, "i_run_for": 2, "i_run_until": 2,
             "run_simulation": "clock"}


def drive_to(sim, probe, state, then):
    """Bring a fresh context into `state` and run `then()` there (re-entrantly for states in which only component
    code runs).  Returns after the enclosing legal call sequence has completed."""
    interactive = hasattr(sim, "take_steps")
    def outer_setup():
        from vivarium.framework.engine import SimulationContext
        SimulationContext.setup(sim)     # plain setup (InteractiveContext.setup also creates the population)
    if state == "initialization":
        then()
        return
    probe.armed[state] = then
    outer_setup()                                # fires "setup" / "post_setup"
    if state in ("setup", "post_setup"):
        return
    if _lcm(sim).current_state == "post_setup":
        sim.initialize_simulants()               # fires "population_creation"
    if state == "population_creation":
        return
    if _lcm(sim).current_state in ("population_creation", "collect_metrics") and state in STATES[4:8]:
        from vivarium.framework.engine import SimulationContext
        SimulationContext.step(sim)              # fires the four loop states
        return
    if state in ("simulation_end", "report"):
        from vivarium.framework.engine import SimulationContext
        while _clk(sim).time < _clk(sim).stop_time:      # population_creation -> simulation_end is not a legal move
            SimulationContext.step(sim)
        sim.finalize()
        if state == "report":
            sim.report(print_results=False)


def continue_to_end(sim):
    """The legal continuation from wherever the context now is; returns the final state name or the error."""
    from vivarium.framework.engine import SimulationContext
    try:
        st = _lcm(sim).current_state
        if st == "initialization":
            SimulationContext.setup(sim)
            st = _lcm(sim).current_state
        if st == "post_setup":
            sim.initialize_simulants()
            st = _lcm(sim).current_state
        if st in ("population_creation", "collect_metrics"):
            while _clk(sim).time < _clk(sim).stop_time:
                SimulationContext.step(sim)
            sim.finalize()
            st = _lcm(sim).current_state
        if st == "simulation_end":
            sim.report(print_results=False)
        return _lcm(sim).current_state
    except Exception as e:
        return f"error:{type(e).__name__}:{e}"


def classify(e):
    from vivarium.framework.lifecycle import InvalidTransitionError, LifeCycleError
    if e is None:
        return 0
    if isinstance(e, InvalidTransitionError):
        return 1
    if isinstance(e, LifeCycleError):
        return 2
    return 3


def script_of(entries):
    out = []
    for kind, a, b in entries:
        if kind == "set":
            out.append(("S", a))
        elif kind == "emit":
            out.append(("E", a))
    return out


def record_scripts():
    """Script of every context method, recorded where the method is legal."""
    from vivarium.framework.engine import SimulationContext
    legal_at = {"setup": "initialization", "initialize_simulants": "post_setup", "step": "population_creation",
                "run": "population_creation", "finalize": "collect_metrics", "report": "simulation_end",
                "run_simulation": "initialization", "i_setup": "initialization", "i_step": "population_creation",
                "i_take_steps": "population_creation", "i_run_for": "population_creation",
                "i_run_until": "population_creation", "i_run": "population_creation"}
    scripts = {}
    for name, (interactive, call) in methods().items():
        sim, probe = new_context(interactive)
        log = probe.log
        with Recorder(log):
            # reach the legal state with outer calls only
            target = legal_at[name]
            if target != "initialization":
                SimulationContext.setup(sim)
            if target in ("population_creation", "collect_metrics", "simulation_end"):
                sim.initialize_simulants()
            if target in ("collect_metrics", "simulation_end"):
                while _clk(sim).time < _clk(sim).stop_time:
                    SimulationContext.step(sim)
            if target == "simulation_end":
                sim.finalize()
            n = steps_remaining(sim)
            del log[:]
            call(sim)
            scripts[name] = (script_of(log), n)
    return scripts


def coq_script(sc):
    return clist((f"SetState {cz(sid(a))}" if k == "S" else f"Emit {cz(sid(a))}") for k, a in sc)


_SCRIPTS = {}


def tables(run):
    from vivarium.framework.lifecycle import LifeCycleManager
    sim, probe, rec = recorded_phases(False)
    phases = [(i, sts, lp) for i, (_, sts, lp) in enumerate(rec)]
    scripts = record_scripts()
    _SCRIPTS.update(scripts)
    step_sc, _ = scripts["step"]
    lines = ["(* GENERATED on every run by harness/props/c06.py from the live code - do not edit *)",
             "From Viv Require Import Common Lifecycle LifecycleProofs Engine EngineProofs.",
             "Local Open Scope Z_scope.", "",
             "(* phases / states / loop flags read off LifeCycleManager.lifecycle of a real SimulationContext *)",
             "Definition engine_phases : list (Z * list sid * bool) := " +
             clist(cpair(cz(i), czlist(sid(s) for s in sts), cbool(lp)) for i, sts, lp in phases[1:]) + ".",
             "Definition engine_lc : lifecycle := build_phases engine_phases (init_lc %s %s)." % (cz(0), cz(sid(phases[0][1][0]))),
             "Definition documented_phases : list phase :=",
             "  [([0], false); ([1; 2; 3], false); ([4; 5; 6; 7], true); ([8; 9], false)].",
             "(* the life cycle the engine builds today IS the documented order: initialization, setup, post_setup,",
             "   population_creation, (time_step__prepare, time_step, time_step__cleanup, collect_metrics)*, simulation_end, report *)",
             "Theorem C06_engine_lifecycle_documented : phs engine_lc = documented_phases.",
             "Proof. vm_compute. reflexivity. Qed.",
             "Lemma engine_reachable : reachable_lc engine_lc.",
             "Proof. apply build_phases_reachable. apply init_lc_reachable. Qed.",
             ""]
    names = list(METHOD_IDS)
    for name in names:
        sc, n = scripts[name]
        lines.append(f"Definition script_{name} : script := {coq_script(sc)}.   (* recorded; {n} steps remained *)")
    lines += ["Definition scripts : list script := " + clist(f"script_{n}" for n in names) + ".", "",
              "(* every context method, from every state: refused at its first declaration or accepted entirely *)",
              "Theorem C06_engine_call_atomic : forall m sc, lc m = engine_lc -> In (cur m) (states_of engine_lc) ->",
              "  In sc scripts -> atomic m sc.",
              "Proof. apply atomic_table_sound. vm_compute. reflexivity. Qed.",
              "(* run = step^n is atomic for EVERY n *)",
              "Theorem C06_engine_run_atomic : forall n m, lc m = engine_lc -> In (cur m) (states_of engine_lc) ->",
              "  atomic m (repeat_script script_step n).",
              "Proof. apply repeat_atomic; vm_compute; reflexivity. Qed.",
              "Theorem C06_engine_emit_in_own_state : forall m sc, lc m = engine_lc -> In (cur m) (states_of engine_lc) ->",
              "  In sc scripts -> forall e st, In (e, st) (snd (run_script m sc [])) -> e = st.",
              "Proof. apply own_state_table_sound. vm_compute. reflexivity. Qed.",
              "(* any sequence of context calls whatsoever enters states along the documented order only *)",
              "Theorem C06_engine_trace_legal : forall scs m, lc m = engine_lc -> extends m (do_calls m scs).",
              "Proof. intros scs m H. apply calls_trace_legal. rewrite H. apply engine_reachable. Qed.",
              "(* the run-like methods are the step script repeated (as recorded today) *)"]
    for name, mult in STEP_MULT.items():
        sc, n = scripts[name]
        k = n if mult == "clock" else mult
        if name == "run_simulation":
            k = 2   # CONFIG: 2 days, 1-day step (the clock is not set up yet when run_simulation is called)
            lines.append(f"Example script_{name}_shape : script_{name} = script_setup ++ script_initialize_simulants ++ "
                         f"repeat_script script_step {k} ++ script_finalize ++ script_report. Proof. vm_compute. reflexivity. Qed.")
        else:
            lines.append(f"Example script_{name}_shape : script_{name} = repeat_script script_step {k}. Proof. vm_compute. reflexivity. Qed.")
    lines += ["Example script_step_shape : script_step = [SetState 4; Emit 4; SetState 5; Emit 5; SetState 6; Emit 6; SetState 7; Emit 7].",
              "Proof. vm_compute. reflexivity. Qed.",
              "Print Assumptions C06_engine_call_atomic.", "Print Assumptions C06_engine_run_atomic.",
              "Print Assumptions C06_engine_emit_in_own_state.", "Print Assumptions C06_engine_trace_legal.", ""]
    return [("EngineTable_C06.v", "\n".join(lines))]


# ----------------------------------------------------------------------------------------------------------------
# stream 1: exhaustive state x method cells
# ----------------------------------------------------------------------------------------------------------------
def all_cells():
    return [{"state": s, "method": m} for s in STATES for m in METHOD_IDS]


def run_cell(case):
    state, mname = case["state"], case["method"]
    interactive, call = methods()[mname]
    sim, probe = new_context(interactive)
    rec = {}

    def then():
        before = _lcm(sim).current_state
        n = steps_remaining(sim)
        mark = len(probe.log)
        err = None
        try:
            call(sim)
        except Exception as e:
            err = e
        rec.update(before=before, n=n, err=err, after=_lcm(sim).current_state,
                   entries=list(probe.log[mark:]))

    with Recorder(probe.log):
        try:
            drive_to(sim, probe, state, then)
            drive_err = None
        except Exception as e:
            drive_err = e
        final = continue_to_end(sim)
    if not rec:
        return Result(ok=False, msg=f"harness could not reach state {state}: {drive_err}")
    code = classify(rec["err"])
    emitted = [a for k, a, b in rec["entries"] if k == "emit"]
    entered = [a for k, a, b in rec["entries"] if k == "set"]
    obs = {"before": rec["before"], "code": code, "error": repr(rec["err"])[:200] if rec["err"] else None,
           "after": rec["after"], "emitted": emitted, "entered": entered, "steps_remaining": rec["n"],
           "enclosing_error": repr(drive_err)[:200] if drive_err else None, "continuation_final": final}
    # ---- direct oracle: the property statement on this cell ----
    ok, msg = True, ""
    path = [rec["before"]] + entered
    for a, b in zip(path, path[1:]):
        ia, ib = SID[a], SID[b]
        legal = (ib == ia + 1) or (ia == 7 and ib == 4)
        if not legal:
            ok, msg = False, f"illegal transition {a} -> {b} was performed"
    if rec["before"] != state:
        ok, msg = False, f"harness reached {rec['before']} instead of {state}"
    # is the call legal here, by the documented order?  (first state the documented method declares)
    first = {"setup": "setup", "initialize_simulants": "population_creation", "finalize": "simulation_end",
             "report": "report", "run_simulation": "setup", "i_setup": "setup"}.get(mname, "time_step__prepare")
    ia, ib = SID[state], SID[first]
    call_legal = (ib == ia + 1) or (ia == 7 and ib == 4)
    noop = (mname in ("run", "i_run") and rec["n"] == 0)
    if code != 0:
        if rec["after"] != rec["before"] or emitted or entered:
            ok, msg = False, (f"refused call changed state ({rec['before']}->{rec['after']}), entered {entered} "
                              f"or ran listeners {emitted}")
        if call_legal or noop:
            ok, msg = False, f"legal call {mname} in {state} raised {rec['err']!r}"
    else:
        if not (call_legal or noop):
            ok, msg = False, f"call {mname} in {state} would break the order but raised no error"
    for k, a, b in rec["entries"]:
        if k == "emit" and a != b:
            ok, msg = False, f"event {a} emitted while in state {b}"
    if final != "report":
        ok, msg = False, f"legal continuation after the call did not reach report: {final}"
    if drive_err is not None and ok:
        ok, msg = False, f"enclosing legal call failed after the probe call: {drive_err!r}"
    # ---- Coq cell: the method's script (recorded at its legal place) run from this state ----
    sc, n_rec = _SCRIPTS[mname]
    if mname in STEP_MULT and STEP_MULT[mname] == "clock":
        step_sc = _SCRIPTS["step"][0]
        if mname == "run_simulation":
            sc = _SCRIPTS["setup"][0] + _SCRIPTS["initialize_simulants"][0] + step_sc * 2 + _SCRIPTS["finalize"][0] + _SCRIPTS["report"][0]
        else:
            sc = step_sc * rec["n"]
    coq = cpair(cz(SID[state]), coq_script(sc), cz(0 if code == 0 else 1), cz(sid(rec["after"])), czlist(sid(e) for e in emitted))
    return Result(ok=ok, msg=msg, coq=coq, key=(state, mname), obs=obs,
                  tags=(f"code{code}",))


# ----------------------------------------------------------------------------------------------------------------
# stream 2: stand-alone managers, random life cycles and request sequences
# ----------------------------------------------------------------------------------------------------------------
def shrink_lc(case):
    """Smaller variants of a life-cycle case: drop one request, drop the last phase, drop one state of a phase."""
    import copy
    for key in list(case):
        v = case[key]
        if isinstance(v, list):
            for i in range(len(v)):
                c = copy.deepcopy(case); del c[key][i]; yield c
            for i, item in enumerate(v):           # phases are [name, states, loop]
                if isinstance(item, list) and len(item) == 3 and isinstance(item[1], list):
                    for j in range(len(item[1])):
                        c = copy.deepcopy(case); del c[key][i][1][j]; yield c


def gen_lc(rng: random.Random):
    pool = [f"s{i}" for i in range(1, 14)]
    pnames = [f"p{i}" for i in range(1, 7)]
    phases = []
    used = []
    for _ in range(rng.randint(0, 5)):
        k = rng.choice([0, 1, 1, 2, 3, 4]) if rng.random() < 0.15 else rng.randint(1, 4)
        sts = []
        for _ in range(k):
            r = rng.random()
            if r < 0.08 and used:
                sts.append(rng.choice(used))                      # duplicate of an existing state
            elif r < 0.12 and sts:
                sts.append(rng.choice(sts))                       # duplicate inside the phase
            elif r < 0.14:
                sts.append("initialization")
            else:
                fresh = [s for s in pool if s not in used and s not in sts]
                sts.append(rng.choice(fresh) if fresh else rng.choice(pool))
        name = rng.choice(pnames) if rng.random() < 0.85 else rng.choice([p[0] for p in phases] + ["initialization"])
        phases.append([name, sts, rng.random() < 0.4])
        used += sts
    reqs = []
    known = ["initialization"] + used
    # a request walk biased towards legal moves (so that deep states are reached), mixed with illegal / unknown names
    flat = ["initialization"]
    seen_p = {"initialization"}
    accepted_phases = []
    st_seen = {"initialization"}
    for name, sts, lp in phases:
        if name in seen_p or len(set(sts)) != len(sts) or st_seen & set(sts) or not sts:
            continue
        seen_p.add(name); st_seen |= set(sts); accepted_phases.append((sts, lp)); flat += sts
    cur = "initialization"
    for _ in range(rng.randint(0, 40)):
        r = rng.random()
        succ = []
        if cur in flat:
            i = flat.index(cur)
            if i + 1 < len(flat):
                succ.append(flat[i + 1])
            for sts, lp in accepted_phases:
                if lp and sts[-1] == cur:
                    succ.append(sts[0])
        if r < 0.6 and succ:
            s = rng.choice(succ); cur = s
        elif r < 0.9:
            s = rng.choice(known + pool[:3])
            if s in succ:
                cur = s
        else:
            s = rng.choice(["nope", "zzz", "setup"])
        reqs.append(s)
    return {"phases": phases, "requests": reqs, "scribble": rng.random() < 0.5}


def run_lc(case):
    from vivarium.framework.lifecycle import InvalidTransitionError, LifeCycleError, LifeCycleManager
    mgr = LifeCycleManager()
    ids = {"initialization": 0}

    def st_id(s):
        if s not in ids:
            ids[s] = len(ids)
        return ids[s]
    pids = {"initialization": 0}

    def ph_id(s):
        if s not in pids:
            pids[s] = len(pids)
        return pids[s]
    ok, msg = True, ""
    attempts = []
    flat = ["initialization"]
    loops = []
    for name, sts, lp in case["phases"]:
        before = (str(mgr), mgr.current_state)
        try:
            arg = list(sts)
            mgr.add_phase(name, arg, lp)
            code = 0
            if case.get("scribble"):
                # the life cycle must not keep living in the CALLER's list: reuse it as a scratch list afterwards
                arg.clear(); arg.extend(["scratch_" + str(len(attempts))]); arg.reverse()
            flat += sts
            if lp:
                loops.append((sts[-1], sts[0]))
        except Exception as e:
            code = classify(e)
            if (str(mgr), mgr.current_state) != before:
                ok, msg = False, f"rejected add_phase({name},{sts}) changed the life cycle"
        attempts.append(cpair(cz(ph_id(name)), czlist(st_id(s) for s in sts), cbool(lp), cz(code)))
    reqs = []
    trace = []
    for s in case["requests"]:
        before = mgr.current_state
        counts_before = {n: mgr.lifecycle.get_state(n).entrance_count for n in flat}
        try:
            mgr.set_state(s)
            code = 0
        except Exception as e:
            code = classify(e)
        after = mgr.current_state
        counts_after = {n: mgr.lifecycle.get_state(n).entrance_count for n in flat}
        # direct oracle
        legal = s in flat and before in flat and (
            (flat.index(before) + 1 < len(flat) and flat[flat.index(before) + 1] == s) or (before, s) in loops)
        if legal != (code == 0):
            ok, msg = False, f"request {before}->{s}: legal={legal} but outcome code {code}"
        if code != 0 and (after != before or counts_after != counts_before):
            ok, msg = False, f"refused request {before}->{s} changed state or entrance counts"
        if code == 0 and (after != s or counts_after[s] != counts_before[s] + 1):
            ok, msg = False, f"accepted request {before}->{s} left state {after} / count {counts_after[s]}"
        reqs.append(cpair(cz(st_id(s)), cz(code), cz(st_id(after)), cz(counts_after[after])))
        trace.append([s, code, after])
    nontrivial = bool(case["requests"]) and bool(case["phases"])
    return Result(ok=ok, msg=msg, coq=cpair(clist(attempts), clist(reqs)),
                  key=(case["phases"], case["requests"]) if nontrivial else None,
                  obs={"trace": trace[:60]},
                  tags=tuple({f"req_code{t[1]}" for t in trace}) + (f"phases{min(len(case['phases']), 5)}",))


def streams(tier):
    return [
        Stream(name="cells", imports="From Viv Require Import Common Lifecycle Engine.\nFrom VivGen Require Import EngineTable_C06.",
               check="(check_cell engine_lc)", gen=None, run=run_cell, exhaustive=all_cells,
               doc="every life-cycle state x every context method, on real contexts"),
        Stream(name="lc", imports="From Viv Require Import Common Lifecycle.", check="check_lc", gen=gen_lc, run=run_lc,
               n_quick=300, n_thorough=6000, shrink=shrink_lc),
    ]
