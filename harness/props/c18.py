"""C18 - Resuming from a backup continues the same simulation (DESIGN.md section 5 C18; PARTIAL by design, section 9).

The theorems (coq/props/C18.v over coq/theories/Sim.v) are thin: the model's step function reads nothing but the
schedule state, so run n (run k s) = run (k+n) s, also through any codec with dec(enc s) = s, also for the run() loop.
Whether dill IS such a codec for a real SimulationContext is runtime behaviour; it is decided here, on the implementation:

 stream `resume`: for a generated program (harness/probes.py; the library contains on purpose a component that keeps the
   RESIDUAL_CHOICE sentinel in its own state - finding F-M -, closures over the clock, per-simulant step modifiers, a
   state machine, CRN registration, observers, components with private counters) and EVERY step boundary k = 0..n of its
   run:   sub-process A (PYTHONHASHSEED a): uninterrupted reference run; then the same run again calling
          SimulationContext.write_backup (engine.py) at every boundary  [writing a backup must not disturb the run];
          sub-process B_k (FRESH interpreter, PYTHONHASHSEED != a, global RNGs polluted, no prior context):
          dill.load(k.pkl), continue to the end - alternately through run() and through manual step() calls -,
          finalize, report.
   Direct oracle: the restored table equals the table at boundary k, the SHA-1 digests of the state table after every
   remaining step, the number of steps, the final table and the results equal those of the uninterrupted run.
   Coq: for every k, starting from the schedule state observed at boundary k in the backup-writing run, Sim.v must predict
   the resumed run's remaining steps (their numbering by the pickled step counter, event times, event indexes, clock and
   per-simulant clock table), so a resumed run that re-emits, skips or re-times an event is localised.
"""
import concurrent.futures
import json
import os
import shutil
import tempfile

import boot  # noqa: F401
import probes
from core import VERIF, Result, Stream

PROPERTY = "C18"
CLAIM = {
    "technique": "exhaustive interruption-point differential through dill in fresh sub-processes; thin Coq resume theorem",
    "text": "PARTIAL - proved in Coq (Sim.v): the schedule model's step function has no memory outside its state, so stopping "
            "after k steps and continuing - also through any faithful codec, also for the run() loop - is the uninterrupted run. "
            "Checked on the implementation each run: for generated programs and EVERY step boundary, a backup written by "
            "write_backup and loaded by a fresh interpreter with a different hash seed continues to the same per-step state-table "
            "digests, step count, final table and results as the uninterrupted run, and the stitched schedule satisfies the model.",
    "note": "PARTIAL - that dill round-trips everything the step function reads (closures, re-bound constrained methods, cached "
            "graphs, sentinels, component state) is runtime behaviour of dill/CPython and is observed on sampled programs, not "
            "proved; interruption points are exhaustive per program, programs are sampled; trusted: probe components, "
            "canonicaliser, sub-process orchestration",
}
RULE = ("resume: corpus first (a rich program and the repository's example models disease_model and boids); then generated programs (2-6 minimum steps quick / 2-12 thorough; every third one forced to contain the "
        "RESIDUAL_CHOICE keeper + triggered state machine + CRN + observers, every third one per-simulant clocks + births + "
        "snoozing + mortality, every third one mortality + observers + lookup tables + state machine + births) x ALL step boundaries k = 0..n, each resumed in "
        "its own fresh interpreter; distinct = distinct (program, k); one evaluation = one program with all its boundaries")
ASSUMPTIONS = [
    "schedule cases are emitted relative to their first clock value and in units of the gcd of their durations (Sim.v is "
    "invariant under this affine change of time units: it only adds, subtracts, compares and takes minima of times)",
    "a backup is what SimulationContext.write_backup writes between two whole steps (the only place run() writes one)",
    "the restored context is continued either by run() or by step() calls until the clock reaches the stop time, then "
    "finalize() and report()",
]
TRUSTED = [
    "probe component library harness/probes.py (importable by module path, so dill pickles the classes by reference) and "
    "the worker harness/probes_worker.py",
    "component instances of a restored context are looked up by capability (any attribute of the context offering the "
    "public list_components()), never by a private attribute name, and only to fetch the probes' logs (when none is found "
    "the schedule correspondence is skipped, the digests still decide); per-step observation under run() uses an instance attribute `step` set by the harness",
]
LEVEL_NOTE = ("PARTIAL: the verdict rests on the exhaustive-per-program interruption differential (programs sampled); the Coq "
              "theorems only pin down WHAT must survive pickling (the schedule state) and that nothing else is read by the "
              "model's step function.")

_INNER = concurrent.futures.ThreadPoolExecutor(max_workers=int(os.environ.get("VERIF_WORKERS", "10")))
_OUTER = concurrent.futures.ThreadPoolExecutor(max_workers=3)
_PENDING = {}
_COUNTER = [0]
_LAST_FAIL = {}          # program -> first failing interruption point (guides shrink)
POLLUTE = ["none", "seed", "consume", "both"]


def gen_case_factory(tier):
    def gen(rng):
        i = _COUNTER[0]
        _COUNTER[0] += 1
        # every program: births at EVERY step (somebody is born - and every initializer must run - after each interruption
        # point) and the PrivateState component (per-simulant state in plain attributes, column-less initializer)
        force = [{"residual", "condition", "triggered", "crn", "obs"}, {"stepmod", "snoozer", "mortality"},
                 {"mortality", "obs", "tables", "condition"}][i % 3] | {"births", "births_every", "private"}
        program = probes.gen_program(rng, max_steps=6 if tier == "quick" else 12, force=force)
        case = {"program": program, "hashseed": rng.choice([0, 1, 7, rng.randint(2, 100000)]),
                "pollute": rng.choice(POLLUTE)}
        _PENDING[_key(case)] = _OUTER.submit(execute, case)
        return case
    return gen


def _key(case):
    return json.dumps(case, sort_keys=True)


def execute(case):
    """Run sub-process A, then one fresh sub-process per boundary; returns (A result, [resume results])."""
    tmp = tempfile.mkdtemp(prefix="verif_c18_")
    try:
        a = probes.spawn_worker({"mode": "backup", "program": case["program"], "dir": tmp}, case["hashseed"])
        if "reference" not in a:
            return a, []
        n = len(a["reference"]["digests"])
        futs = []
        for k in range(n + 1):
            if case.get("only_k") is not None and k not in case["only_k"]:
                futs.append(None)              # a minimised replay: only the named interruption points
                continue
            env = {"driver": "run" if k % 2 == 0 else "manual", "pollute": case.get("pollute", "none"),
                   "churn": (k % 3) + 1}            # heap churn in the resuming process (none in the reference run)
            job = {"mode": "resume", "program": case["program"], "path": os.path.join(tmp, f"{k}.pkl"), "env": env}
            futs.append(_INNER.submit(probes.spawn_worker, job, case["hashseed"] + 1 + k))
        return a, [f.result() if f is not None else None for f in futs]
    finally:
        shutil.rmtree(tmp, ignore_errors=True)


def run_case(case):
    fut = _PENDING.pop(_key(case), None)
    a, resumed = fut.result() if fut is not None else execute(case)
    program = case["program"]
    if "reference" not in a:
        return Result(ok=False, msg=f"reference sub-process failed: {a.get('error')}\n{a.get('tb', '')[-1200:]}")
    ref, wb = a["reference"], a["with_backups"]
    n = len(ref["digests"])
    ok, msg = True, ""
    obs = {"steps": n, "boundaries": n + 1, "results": ref["results"]}

    def fail(k, why):
        nonlocal ok, msg
        if ok:
            ok = False
            msg = f"interruption point k={k}: {why}"
            obs.update(k=k, why=why)
            _LAST_FAIL[json.dumps(program, sort_keys=True)] = k

    if (wb["digests"], wb["final"], wb["results"]) != (ref["digests"], ref["final"], ref["results"]):
        fail(-1, "the run that writes backups differs from the run that does not (write_backup disturbs the simulation)")
    boundary = [ref["init"]] + ref["digests"]
    lits = []
    for k, r in enumerate(resumed):
        if r is None:
            continue
        if "out" not in r:
            fail(k, f"restoring/continuing raised {r.get('error')} {r.get('tb', '')[-700:]}")
            continue
        o = r["out"]
        if o["init"] != boundary[k]:
            fail(k, "the restored state table differs from the table at the boundary")
        want = ref["digests"][k:]
        if o["digests"] != want:
            d = next((i for i, (x, y) in enumerate(zip(o["digests"], want)) if x != y), None)
            fail(k, (f"state table differs after step {k + d + 1} (step {d + 1} after the restore)" if d is not None else
                     f"resumed run takes {len(o['digests'])} more steps, the uninterrupted run {len(want)}"))
        elif o["final"] != ref["final"]:
            fail(k, "final state table differs")
        elif o["results"] != ref["results"]:
            fail(k, "results differ")
        # schedule for Coq: from the state OBSERVED AT THE BOUNDARY in the backup-writing run (clock, global step,
        # per-simulant table after step k) the model must predict the resumed run's steps k+1.. - their numbering (the
        # Recorder's pickled step counter), event times, indexes and clock tables
        if wb.get("clock0") and o.get("trace") is not None and k <= len(wb["rows"]):
            clock_k = wb["clock0"] if k == 0 else wb["clocks"][k - 1]
            rows_k = wb["rows0"] if k == 0 else wb["rows"][k - 1]
            lit, why_not = probes.sched_case(program, 0, clock_k, rows_k, o["trace"], o["actions"], o["rows"], o["clocks"],
                                             first_step=k, with_init=(k == 0))
            if lit is not None:
                lits.append(lit)
            else:
                obs["outside_model"] = why_not
    coq = "[" + ";\n   ".join(lits) + "]" if lits else None
    tags = probes.program_tags(program) + (f"boundaries:{min(n + 1, 13)}",)
    return Result(ok=ok, msg=msg, coq=coq, key=[_key(program), n + 1] if n else None, obs=obs, tags=tags)


def shrink_case(case):
    """Variants for core's greedy minimiser: only the failing interruption point; no pollution; then the smaller programs of
    props.c01.shrink_program (fewer steps - but not below the failing boundary -, fewer simulants, fewer components)."""
    import copy
    from props.c01 import shrink_program
    k = _LAST_FAIL.get(json.dumps(case["program"], sort_keys=True))
    if k is not None and k >= 0 and case.get("only_k") is None:
        yield dict(copy.deepcopy(case), only_k=[k])
    if case.get("pollute", "none") != "none":
        yield dict(copy.deepcopy(case), pollute="none")
    for q in shrink_program(case["program"]):
        c = dict(copy.deepcopy(case), program=q)
        c.pop("only_k", None)                  # boundaries move when the program changes: search them all again
        yield c


def corpus():
    d = os.path.join(VERIF, "corpus", "C18")
    out = []
    if os.path.isdir(d):
        for f in sorted(os.listdir(d)):
            if f.startswith("case_") and f.endswith(".json"):
                out.append(json.load(open(os.path.join(d, f))))
    for c in out:
        _PENDING[_key(c)] = _OUTER.submit(execute, c)
    return out


def streams(tier):
    return [Stream(name="resume", imports="From Viv Require Import Common Sim.", check="check_scheds",
                   gen=gen_case_factory(tier), run=run_case, n_quick=4, n_thorough=36, corpus=corpus, shrink=shrink_case,
                   doc="every step boundary: backup, fresh interpreter, continue, compare")]
