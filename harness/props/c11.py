"""C11 - A view update writes exactly what it was given, or nothing (DESIGN.md section 5, C11).

Tie to the code (model: coq/theories/Population.v, lemmas: PopulationProofs.v, theorems: coq/props/C11.v):
  stream `hist`  generated *programs* (harness/props/popdrv.py) run on real InteractiveContexts: 1-3 probe components
                 create 1-6 columns over {bool, int64, float64, str, datetime64[us]} for 0-12 simulants, hold views over
                 column subsets (with/without tracked, with queries, the full view, sub-views made on the spot), and issue
                 histories of 1-15 operations: valid updates (Series named/unnamed, DataFrame; any row subset in any
                 order, empty, repeated labels; any column subset), untracking, reads, and injected faults (extra
                 column, unknown row, new column, wrong dtype in one of several columns, unnamed series on a
                 multi-column view, no columns, repeated column, non-pandas object, refused sub-views); creations of
                 0-5 simulants from outside and from listeners of the four time-step events, whose initializers fill,
                 partially fill, re-fill, contradict, touch old rows, add columns, use wrong dtypes (finding F-L) or let
                 an exception escape.  After EVERY operation the full state table (labels, dtypes, cells) is recorded
                 and Coq compares it with the model's.
Direct oracle (independent of the model): after every update "rejected => table identical" / "accepted => the update
was admissible and every cell is the supplied value or the old one, dtypes, rows and columns unchanged"; frames handed
out by earlier reads are compared with deep copies taken when they were handed out, after every later operation.
"""
import os

import boot
from core import Result, Stream, is_open_finding
import props.popdrv as popdrv

PROPERTY = "C11"
RULE = ("hist: generated programs (see module doc) on real InteractiveContexts; corpus of hand-written programs first "
        "(the F-D and F-L witnesses, repeated labels, unnamed series, untracked rows through filtering views, each "
        "structural fault, sub-views).  distinct = distinct program; trivial = program in which no update was attempted")
ASSUMPTIONS = [
    "cells are bool, int64 (mostly small; the boundary +-2^53; beyond it at low density: finding F-Z), float64 multiples "
    "of 0.5 (or NaN), strings from a fixed pool, whole-day "
    "datetime64[us] (or NaT); updates have an int64 index; categoricals, None inside object columns and other extension "
    "dtypes are outside the model (kept out of the generator)",
    "the iteration order of the Python sets of column names is an arbitrary list in the model (theorems quantify over "
    "it); the harness passes the order it reads off the same expression, shuffled in 30% of the updates",
    "which of two values supplied for a repeated label is kept is decided by the array type (numpy: last; Arrow-backed "
    "str: first, measured on pandas 3.0.6 / pyarrow 25 for the small updates generated here); the oracle accepts either",
    "tables are compared up to column order (the property does not constrain it; it depends on set iteration order "
    "during the initial creation)",
]
TRUSTED = [
    "C11: Population.v transcribes population_view.py (update, _format_update_and_check_preconditions, "
    "_coerce_to_dataframe, _ensure_coherent_initialization, _update_column_and_ensure_dtype) and manager.py "
    "(_create_simulants, on_initialize_simulants) incl. pandas reindex promotion (bool->object, int64->float64), "
    "Series.equals, numpy/Arrow setitem and astype semantics inside {bool,int64,float64,object} - validated on the "
    "explored cases only",
    "C11: no private name of /repo/src is read: the population manager is looked up BY TYPE among the context's "
    "attributes to cross-check its public flags (skipped if not found); everything else goes through public interfaces (Component hooks, "
    "builder.population.get_view/get_simulant_creator, PopulationView.update/get/subview, "
    "InteractiveContext.get_population/step)",
    "C11: copy semantics (frames handed out earlier are unaffected; writing into a returned frame does not reach the "
    "table) are TESTED by the driver on every case, not proved (aliasing cannot be exhibited by a Gallina model)",
]
CLAIM = {
    "technique": "Coq proof over a Gallina model + sampled model/implementation correspondence on real contexts",
    "text": "Theorems (all tables, views, flags, updates and EVERY iteration order of the column set): a successful "
            "update leaves rows, column set and dtypes unchanged and every cell equal to the supplied value where one was "
            "supplied and to the old cell elsewhere (steady state: unguarded; while simulants are added: under the "
            "lossless-cast guard that excludes exactly finding F-L, with a refutation witness without it; initial "
            "creation: exactly the new columns are added); the result is independent of the set iteration order; every "
            "rejection - extra column, unknown row, new column, wrong dtype, unnamed series, no columns, non-pandas, "
            "conflicting initial data - returns the table unchanged (full strength after the F-D repair); over all "
            "histories the table is the fold of the successful updates and creations.  The model is tied to /repo/src by "
            "running generated histories on real InteractiveContexts with probe components and letting Coq compare the "
            "full state table cell by cell (labels, dtypes, values) after every operation; a python oracle evaluates the "
            "property directly and checks that frames returned by earlier reads never change.",
    "note": "Sampled correspondence (not exhaustive); copy/aliasing semantics tested, not proved; categoricals and "
            "None-in-object cells outside the model; while simulants are added, casts that stringify cells or turn numbers "
            "into epoch offsets are Unmodelled (kept out of the generator); the open known findings F-L (whole-column cast "
            "at birth) and F-Z (births round int64 beyond 2^53) are reproduced on every run and reported as KNOWN-FINDING; "
            "the model follows the implementation on both.",
}
LEVEL_NOTE = ""


def _corpus():
    c = popdrv.corpus_updates() + popdrv.corpus_creations()
    c += popdrv.corpus_bigint()             # finding F-Z (open)
    return c


def streams(tier):
    return [
        Stream(name="hist", imports="From Viv Require Import Common Population.", check="check_pop",
               gen=lambda rng: popdrv.gen_program(rng, "update"), run=popdrv.run_program, corpus=_corpus,
               n_quick=230, n_thorough=2400, finding_of=popdrv.finding_of, shrink=popdrv.shrink_program,
               doc="update histories on real contexts, full-table comparison after every operation"),
    ]


def extra(run):
    popdrv.second_hash_seed(run, PROPERTY)
