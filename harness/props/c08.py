"""C08 - Each step emits its four events once, in order, to every listener by priority (DESIGN.md section 5, C08).

Tie to the code (no generated table: the models are small and fixed; everything is correspondence):
  `chan`   stand-alone EventManagers (event.py only): random registration sequences over several channels - priorities
           0..9, omitted (default 5), negative (python indexing from the end) and out of range (IndexError), the same
           callable registered several times - then every channel is emitted; the listeners called, in call order, and the
           Event fields are compared with Events.emit_tagged / check_chan.
  `sim`    real contexts: 1-6 probe components whose classes override random subsets of the 7 component hooks with random
           *_priority properties and whose setup() registers further listeners by hand (any channel incl. post_setup and
           report, any priority, callables registered more than once); both clock plugins (DateTimeClock with fractional-day
           steps, SimpleClock with integer and dyadic steps); ends that are / are not a multiple of the step, zero-length
           and negative-length runs; drivers: SimulationContext explicit sequence, run_simulation(), InteractiveContext.run,
           InteractiveContext stepping by hand.  The probe log (channel, listener, clock, event.time, event.step_size,
           life-cycle state), the SimulantData seen by initializers, the final clock and the number of step() calls are
           compared with Stepper.check_sim.
  `var`    per-simulant step sizes (a step-size modifier): the stepping loop around a changing global step, interactive
           sessions (run_until / run_for to arbitrary end times) included; the step sizes are read into a table (C10's).
  `raise`  one listener raises from a chosen step on: the step is abandoned on the spot (Stepper.check_raise).
  `grid`   the same check on light contexts (one listener) over a boundary-rich grid of (start, end, step).
Times are integers: nanoseconds for DateTimeClock (the Timedelta the clock actually built from the float configuration is
READ - the float -> Timedelta conversion is glue outside the model and is reported), quarter units for SimpleClock.
Within one priority the property promises no order: Coq compares up to a permutation inside each bucket; whether the
registration order is also kept is reported as information only.
"""
import random
from fractions import Fraction

import boot
from core import Result, Stream, cbool, clist, cnat, cpair, cz, czlist, is_open_finding

PROPERTY = "C08"
CLAIM = {
    "technique": "Coq model of EventChannel buckets + engine stepper, theorems by induction, probe-log correspondence",
    "text": "Machine-checked: for all registration sequences an emission calls exactly the registered listeners (with "
            "multiplicity) in non-decreasing priority, registration order within a priority; one step = the four channels "
            "once each in order with event.time = clock + step and the clock advanced by the step; run() makes exactly "
            "ceil((stop-start)/step) steps for every start, stop and positive step (fuel-independent, OutOfFuel explicit) "
            "and ends on the first grid point >= stop; creation happens at start - step with the clock restored; "
            "InteractiveContext.run agrees with run(). Tied to /repo/src by probe logs of real contexts (both clock "
            "plugins, fractional steps, non-divisible and zero-length runs, 1-6 components, hand-registered listeners) "
            "and of stand-alone EventManagers, compared by Coq.",
    "note": "Fixed-step clocks only in the run-count theorem (per-simulant step sizes are C10; the step-trace and fencepost "
            "theorems hold for any step-size rule). The float -> Timedelta conversion of fractional steps is read, not "
            "modelled. Order inside one priority is compared up to permutation. Trusted: probe components, the class-level "
            "counter around SimulationContext.step, the integer conversion of Timestamps/Timedeltas.",
}
RULE = ("chan: 0-40 registrations over 1-4 channels (priority 0-9 70%, default 10%, negative 10%, out of range 10%; 1-8 "
        "callables, repeats) then every channel emitted; sim: clock plugin x driver x (start, end, step) x 1-6 components "
        "(each hook overridden with prob. 1/2, priorities 0-9 or default, 0-4 hand registrations); grid: start/end/step from "
        "a boundary-rich grid (end - start an exact multiple of the step, one unit more / less, zero, negative), one "
        "listener.  distinct = distinct canonical case; trivial = no listener was ever called")
ASSUMPTIONS = [
    "clock arithmetic is exact integer arithmetic (Timestamp/Timedelta are int64 nanosecond counts; SimpleClock values "
    "used here are multiples of 1/4, exact in binary64); |t| < 2^63",
    "listeners and initializers do not call back into the context (re-entrancy is C06's subject); initializers do not "
    "raise; a LISTENER that raises is modelled (step_r / run_simulation_r) and exercised by the stream `raise` with the "
    "raising listener alone in its bucket (inside one bucket the call order, hence who ran before it, is unspecified)",
    "priorities outside 0..9 are outside the property: a channel that accepted one is left out of the comparison",
]

LEVEL_NOTE = ("full for fixed-step clocks (both plugins); C08_simulation_trace carries the guard start < stop: a run of length "
              "zero makes 0 steps but cannot be finalized (InvalidTransitionError, new finding F-V, theorem "
              "C08_zero_length_run_cannot_finish); per-simulant step sizes are C10's (step trace and fencepost hold for any "
              "step-size rule)")

CH = {"post_setup": 2, "population_creation": 3, "time_step__prepare": 4, "time_step": 5, "time_step__cleanup": 6,
      "collect_metrics": 7, "simulation_end": 8, "report": 9}
STATE_ID = dict(CH, initialization=0, setup=1)
HOOK_METHOD = {2: "on_post_setup", 3: "on_initialize_simulants", 4: "on_time_step_prepare", 5: "on_time_step",
               6: "on_time_step_cleanup", 7: "on_collect_metrics", 8: "on_simulation_end"}
HOOK_PRIO = {2: "post_setup_priority", 4: "time_step_prepare_priority", 5: "time_step_priority",
             6: "time_step_cleanup_priority", 7: "collect_metrics_priority", 8: "simulation_end_priority"}
HOOK_ORDER = [2, 4, 5, 6, 7, 8]
LISTEN_CHANNELS = ["post_setup", "time_step__prepare", "time_step", "time_step__cleanup", "collect_metrics",
                   "simulation_end", "report"]
NAME_OF = {v: k for k, v in CH.items()}


def bucket_of(p):
    """python list indexing on 10 buckets (None = the default priority 5)"""
    if p is None:
        return 5
    if 0 <= p < 10:
        return p
    if -10 <= p < 0:
        return p + 10
    return None


# ----------------------------------------------------------------------------------------------------------------
# stream `chan`: stand-alone EventManager
# ----------------------------------------------------------------------------------------------------------------
def gen_prio(rng, wild=True):
    r = rng.random()
    if r < 0.70 or not wild:
        return rng.randint(0, 9) if r < 0.9 else None
    if r < 0.80:
        return None
    if r < 0.90:
        return rng.randint(-10, -1)
    return rng.choice([10, 11, 13, -11, -12, 100])


def gen_chan(rng: random.Random):
    nch = rng.randint(1, 4)
    ncall = rng.randint(1, 8)
    regs = []
    for _ in range(rng.choice([0, 1, 2, 3, 5, 8, 13, 20, 30, 40])):
        regs.append([rng.randrange(nch), gen_prio(rng), rng.randrange(ncall)])
    if rng.random() < 0.2:          # many listeners in few buckets: within-bucket order and multiplicity
        p = rng.randint(0, 9)
        regs += [[0, rng.choice([p, p, (p + 1) % 10]), rng.randrange(ncall)] for _ in range(rng.randint(3, 12))]
    return {"nch": nch, "regs": regs, "clock": rng.randint(-50, 10**6), "step": rng.choice([1, 2, 3, 7, 30, 86400]),
            "stamps": rng.random() < 0.3}


class _Anything:
    """permissive stand-in: any attribute, any call"""

    def __getattr__(self, name):
        return _Anything()

    def __call__(self, *a, **k):
        return _Anything()


class _FakeBuilder(_Anything):
    def __init__(self, mgr, clock, step):
        self.time = _Anything()
        self.time.clock = lambda: clock
        self.time.step_size = lambda: step
        self.event = _Anything()
        self.event.register_listener = lambda *a, **k: mgr.register_listener(*a, **k)
        self.event.get_emitter = lambda *a, **k: mgr.get_emitter(*a, **k)
        self.lifecycle = _Anything()
        self.lifecycle.add_constraint = lambda *a, **k: None
        self.lifecycle.add_handlers = lambda *a, **k: None


def run_chan(case):
    import pandas as pd
    from vivarium.framework.event import EventManager
    mgr = EventManager()
    if case["stamps"]:
        t0 = pd.Timestamp(2005, 7, 2) + pd.Timedelta(seconds=case["clock"])
        st = pd.Timedelta(seconds=case["step"])
        clock_i, step_i = t0.value, st.value
        conv = lambda x: x.value
    else:
        t0, st = case["clock"], case["step"]
        clock_i, step_i = t0, st
        conv = int
    # the manager is set up through its PUBLIC setup(builder) with a stand-in builder that supplies the clock and the step
    # size (nothing of the manager's internals is touched; any other builder service it may ask for is a permissive dummy)
    mgr.setup(_FakeBuilder(mgr, lambda: t0, lambda: st))
    log = []

    def make(lid):
        def listener(event):
            log.append((lid, event))
        listener.__name__ = f"listener_{lid}"
        return listener
    callables = {}
    names = [f"channel_{i}" for i in range(case["nch"])]
    atts = []
    expected = {n: [] for n in names}      # python oracle: accepted (bucket, seq, lid)
    ok, msg = True, ""
    tainted = set()       # channels holding a listener registered with a priority outside 0..9 (outside the property)
    for seq, (c, p, k) in enumerate(case["regs"]):
        lid = k + 1
        fn = callables.setdefault(lid, make(lid))
        try:
            if p is None:
                mgr.register_listener(names[c], fn)
            else:
                mgr.register_listener(names[c], fn, p)
            code = 0
        except Exception as e:
            code = 1
        if p is not None and not (0 <= p <= 9):
            # the property speaks of priorities 0-9: whether another priority is refused or lands somewhere is not
            # specified; a channel that accepted one is left out of the comparison, a refused one changes nothing
            if code == 0:
                tainted.add(names[c])
                if bucket_of(p) is not None:
                    expected[names[c]].append((bucket_of(p), seq, lid))
            python_indexing = (bucket_of(p) is None) == (code == 1)
            continue
        b = bucket_of(p)
        if code == 1:
            ok, msg = False, f"register_listener(priority={p}) raised"
        else:
            expected[names[c]].append((b, seq, lid))
        atts.append(cpair(cpair(cz(c), cz(5 if p is None else p), cz(lid)), cz(code)))
    ems = []
    ncalled = 0
    exact = True
    for c, name in enumerate(names):
        if name in tainted:
            continue
        del log[:]
        index = pd.Index([1, 2, 3])
        ev = mgr.get_emitter(name)(index, {"k": c})
        called = [lid for lid, _ in log]
        ncalled += len(called)
        # ---- direct oracle: exactly the registered listeners (multiplicity), non-decreasing priority, event fields ----
        exp = sorted(expected[name])
        want = [lid for _, _, lid in exp]
        if sorted(called) != sorted(want):
            ok, msg = False, f"channel {name}: called {called}, registered {want}"
        else:
            # bucket-wise comparison (within a bucket any order)
            pos = 0
            for b in range(10):
                grp = sorted(lid for bb, _, lid in exp if bb == b)
                got = sorted(called[pos:pos + len(grp)])
                if grp != got:
                    ok, msg = False, (f"channel {name}: calls {called} are not in non-decreasing priority order "
                                      f"(expected buckets {[(bb, lid) for bb, _, lid in exp]})")
                    break
                pos += len(grp)
            if called != want:
                exact = False
        for lid, e in log:
            if e.time != t0 + st or e.step_size != st or e.index is not index or e.user_data != {"k": c}:
                ok, msg = False, f"channel {name}: listener {lid} saw {e!r}, expected time {t0 + st}, step {st}"
        if log and any(e is not log[0][1] for _, e in log):
            ok, msg = False, f"channel {name}: listeners of one emission saw different Event objects"
        ems.append(cpair(cz(c), czlist(called), cz(conv(ev.time)), cz(conv(ev.step_size))))
    coq = "(" + cpair(clist(atts), cz(clock_i), cz(step_i), clist(ems)) + " : chan_case)"
    nreg = len(case["regs"])
    return Result(ok=ok, msg=msg, coq=coq, key=(case["nch"], case["regs"], case["clock"], case["step"]) if ncalled else None,
                  obs={"called": ncalled, "exact_registration_order": exact},
                  tags=(f"regs{min(nreg, 40) // 10 * 10}+", "within_bucket_order_kept" if exact else "within_bucket_order_differs",
                        "stamps" if case["stamps"] else "ints") + (("channel_with_priority_outside_0_9_skipped",) if tainted else ()))


# ----------------------------------------------------------------------------------------------------------------
# stream `sim` / `grid`: real contexts
# ----------------------------------------------------------------------------------------------------------------
SIMPLE_PLUGINS = {"required": {"clock": {"controller": "vivarium.framework.time.SimpleClock",
                                         "builder_interface": "vivarium.framework.time.TimeInterface"}}}
DT_STEPS = [1, 1, 2, 3, 7, 10, 0.5, 0.25, 0.7, 1.25, 30.5, 0.1, 1.5, 0.3, 2.2, 14, 30]
SIMPLE_STEPS = [1, 1, 2, 3, 5, 7, 0.5, 0.25, 1.5, 2.75, 10]
MAX_STEPS = 60


def gen_comp(rng, i):
    hooks = {}
    for h in [2, 3, 4, 5, 6, 7, 8]:
        if rng.random() < 0.5:
            hooks[str(h)] = None if (h == 3 or rng.random() < 0.25) else rng.randint(0, 9)
    hand = []
    for _ in range(rng.choice([0, 0, 1, 2, 3, 4])):
        hand.append([rng.choice(LISTEN_CHANNELS), None if rng.random() < 0.2 else rng.randint(0, 9), rng.randrange(3)])
    if hand and rng.random() < 0.4:
        hand.append(list(rng.choice(hand)))                   # the same callable once more (same or other priority)
        if rng.random() < 0.5:
            hand[-1][1] = rng.randint(0, 9)
    return {"hooks": hooks, "hand": hand}


def gen_time(rng, clock, exact_bias=0.35, max_steps=MAX_STEPS):
    """(start, end, step) with n = ceil((end-start)/step) <= MAX_STEPS; a good share of exact multiples and near misses."""
    if clock == "datetime":
        step = rng.choice(DT_STEPS)
        y, m, d = rng.choice([2000, 2004, 2005, 2019, 2020]), rng.randint(1, 12), rng.randint(1, 28)
        r = rng.random()
        if r < exact_bias:
            k = rng.randint(1, 12)
            days = max(1, int(round(step * k)))                # an exact multiple whenever step*k is whole
        elif r < exact_bias + 0.1:
            days = 0
        elif r < exact_bias + 0.15:
            days = -rng.randint(1, 5)
        else:
            days = rng.randint(1, 40)
        days = min(days, int(step * max_steps))
        return {"start": [y, m, d], "days": days, "step": step}
    step = rng.choice(SIMPLE_STEPS)
    start = rng.choice([0, 0, 1, -3, 5, 10, 0.5, 2.25])
    r = rng.random()
    if r < exact_bias:
        span = step * rng.randint(1, 12)
    elif r < exact_bias + 0.1:
        span = 0
    elif r < exact_bias + 0.15:
        span = -rng.choice([0.25, 1, 3])
    elif r < exact_bias + 0.35:
        span = step * rng.randint(1, 12) + rng.choice([-0.25, 0.25])        # one quarter unit short / long
    else:
        span = rng.randint(1, 40) * rng.choice([1, 0.25, 0.5])
    span = min(span, step * max_steps)
    return {"start": start, "end": start + span, "step": step}


def zero_length(t):
    return t["days"] <= 0 if "days" in t else t["end"] <= t["start"]


def pick_driver(rng, t, choices):
    """drivers: 0 SimulationContext setup/initialize_simulants/run/finalize/report, 2 run_simulation(), 1 InteractiveContext
    setup/run/finalize/report, 3 InteractiveContext stepping by hand, 4 / 5: as 0 / 1 but stopping after run(),
    6 InteractiveContext session: setup, then run_until / run_for to arbitrary end times (case["ends"], offsets from start).
    A run of length zero cannot be finalized (finding F-V): it is driven up to run() only, unless the finding is listed as
    open, in which case the full drivers are exercised too and reported as KNOWN-FINDING."""
    d = rng.choice(choices)
    neg = (t["days"] < 0) if "days" in t else (t["end"] < t["start"])
    if zero_length(t):
        if not (is_open_finding(PROPERTY, "F-V") and rng.random() < 0.5):
            d = 5 if d in (1, 3) else 4
    return d


def add_session(rng, case):
    """turn a case into an InteractiveContext session: run_until / run_for to 1-4 arbitrary end times (offsets from the
    start: on and off the step grid, zero, in the past, not monotone)"""
    t = case["time"]
    step = t["step"]
    ends = []
    for _ in range(rng.randint(1, 4)):
        k = rng.randint(0, 6)
        r = rng.random()
        if case["clock"] == "datetime":
            base = int(round(step * 24 * k))                                  # hours
            off = base if r < 0.35 else base + rng.choice([-1, 1, 5]) if r < 0.6 else rng.randint(-30, int(step * 24 * 7) + 1)
        else:
            # plain numbers of either python type, whatever the types of start / step (since /repo af5a6c59 the interactive
            # drivers accept any pair of plain numbers; before, mixing int and float raised ValueError: F-AE)
            unit = rng.choice([1, 0.25])
            base = step * k
            off = base if r < 0.35 else base + rng.choice([-unit, unit]) if r < 0.6 else rng.randint(-4, 28) * unit
            off = int(off) if (float(off).is_integer() and rng.random() < 0.6) else float(off)
        ends.append(off)
    ops = [[rng.choice(["until", "for"]), off] for off in ends]
    # plain steps, and calls REFUSED by their argument checks in between (they must leave the stepping state alone)
    for _ in range(rng.choice([0, 0, 1, 2])):
        ops.insert(rng.randint(0, len(ops)), rng.choice([["step"], ["take", rng.randint(0, 3)]]))
    for _ in range(rng.choice([0, 1, 1, 2, 3])):
        ops.insert(rng.randint(0, len(ops)), ["bad", rng.choice(BAD_KINDS)])
    case["driver"] = 6
    case["ops"] = ops
    return case


BAD_KINDS = ["step_size", "step_str", "take_size", "take_float", "until_type", "for_type"]


def ops_of(case):
    if "ops" in case:
        return case["ops"]
    return [[via, off] for off, via in zip(case.get("ends", []), case.get("via", []))]


def gen_var(rng: random.Random):
    """per-simulant step sizes (a step-size modifier): the global step changes from step to step; drivers: the interactive
    ones and SimulationContext.run.  The step sizes themselves are C10's: the model takes them from a table read off the
    run; what is checked here is the stepping loop around them."""
    if rng.random() < 0.85:
        mods = rng.sample([1, 2, 3, 4, 5, 7], rng.randint(2, 4))          # distinct: the global step really changes
    else:
        mods = [rng.choice([1, 2, 3]) for _ in range(rng.randint(1, 3))]
    y, m, d = rng.choice([2005, 2020]), rng.randint(1, 12), rng.randint(1, 28)
    case = {"clock": "datetime", "time": {"start": [y, m, d], "days": rng.randint(1, 16), "step": 1},
            "driver": rng.choice([1, 5, 5, 4, 0]), "pop": len(mods), "mods": mods,
            "comps": [{"hooks": {"4": None, "7": None, "3": None}, "hand": []}] + [gen_comp(rng, i) for i in range(rng.randint(0, 2))]}
    if rng.random() < 0.5:
        add_session(rng, case)
    return case


def var_corpus():
    # F-AB (fixed by 98b7435f): one simulant with steps 1/2/3 days, 3-day run: run() makes 2 steps
    return [{"clock": "datetime", "time": {"start": [2005, 7, 1], "days": 12, "step": 1}, "driver": 5, "pop": 2,
             "mods": [2, 3], "comps": [{"hooks": {"4": None, "7": None, "3": None}, "hand": []}]},
            {"clock": "datetime", "time": {"start": [2005, 7, 1], "days": 12, "step": 1}, "driver": 6, "pop": 2,
             "mods": [2, 3], "ops": [["bad", "step_size"], ["until", 72], ["for", 73], ["bad", "until_type"], ["step"],
                                     ["until", 24], ["bad", "take_float"], ["for", 200]],
             "comps": [{"hooks": {"4": None, "7": None, "3": None}, "hand": []}]}]


def gen_sim(rng: random.Random):
    clock = rng.choice(["datetime", "simple"])
    t = gen_time(rng, clock, max_steps=16)
    d = pick_driver(rng, t, [0, 0, 1, 2, 3])
    case = {"clock": clock, "time": t, "driver": d, "pop": rng.randint(1, 4),
            "comps": [gen_comp(rng, i) for i in range(rng.randint(1, 6))]}
    if rng.random() < 0.2:
        add_session(rng, case)
    return case


def gen_grid(rng: random.Random):
    clock = rng.choice(["datetime", "simple", "simple"])
    t = gen_time(rng, clock, exact_bias=0.5)
    h = rng.choice([4, 5, 6, 7])
    d = pick_driver(rng, t, [0, 1, 3])
    case = {"clock": clock, "time": t, "driver": d, "pop": 1,
            "comps": [{"hooks": {str(h): None, "3": None}, "hand": []}]}
    if rng.random() < 0.3:
        add_session(rng, case)
    return case


def grid_corpus():
    mk = lambda clock, t, driver=0: {"clock": clock, "time": t, "driver": driver, "pop": 1,
                                      "comps": [{"hooks": {"7": 3, "3": None}, "hand": [["simulation_end", 0, 0]]}]}
    return [
        mk("datetime", {"start": [2005, 7, 1], "days": 3, "step": 1}),                 # exact multiple
        mk("datetime", {"start": [2005, 7, 1], "days": 7, "step": 0.7}),               # 0.7 d is 1 ns short: 11 steps
        mk("datetime", {"start": [2005, 7, 1], "days": 7, "step": 0.7}, 1),
        mk("datetime", {"start": [2005, 7, 1], "days": 61, "step": 30.5}),
        mk("datetime", {"start": [2005, 7, 1], "days": 5, "step": 2}, 1),              # not a multiple
        mk("datetime", {"start": [2005, 7, 1], "days": 0, "step": 1}, 4),              # zero length (up to run())
        mk("datetime", {"start": [2005, 7, 1], "days": 0, "step": 1}, 5),
        mk("datetime", {"start": [2005, 7, 3], "days": -2, "step": 1}, 4),             # end before start
        mk("simple", {"start": 0, "end": 6, "step": 2}), mk("simple", {"start": 0, "end": 6, "step": 2}, 1),
        mk("simple", {"start": 0, "end": 6.25, "step": 2}), mk("simple", {"start": 0, "end": 5.75, "step": 2}, 3),
        mk("simple", {"start": 1, "end": 1, "step": 0.5}, 4), mk("simple", {"start": -3, "end": 0.25, "step": 0.25}),
        # F-AE (fixed by /repo af5a6c59): int start/end with a fractional step under the interactive drivers
        mk("simple", {"start": 0, "end": 4, "step": 0.5}, 1), mk("simple", {"start": 0, "end": 4, "step": 0.5}, 5),
        dict(mk("simple", {"start": 0, "end": 9, "step": 1.5}, 6), ends=[3, 3.25, 0, 7], via=["until", "for", "until", "for"]),
        dict(mk("simple", {"start": 0.5, "end": 9, "step": 2}, 6), ends=[4, 5.0], via=["for", "until"]),
    ] + ([mk("datetime", {"start": [2005, 7, 1], "days": 0, "step": 1}, 0), mk("simple", {"start": 1, "end": 1, "step": 1}, 2)]
         if is_open_finding(PROPERTY, "F-V") else [])


class ProbeError(Exception):
    """what a raising probe listener raises"""


def build_components(case, log, ilog, setup_seen):
    import pandas as pd
    from vivarium import Component
    comps = []
    for i, spec in enumerate(case["comps"]):
        base = (i + 1) * 1000
        attrs = {}
        hooks = {int(h): p for h, p in spec["hooks"].items()}

        def mk_listener(channel, lid):
            def listen(self_or_event, event=None):
                ev = event if event is not None else self_or_event
                comp = self_or_event if event is not None else None
                env = listen.env
                now = env["clock"]()
                log.append((channel, lid, now, ev.time, ev.step_size, env["state"](),
                            None if ev.index is None else len(ev.index)))
                if listen.raise_at is not None and now >= listen.raise_at:
                    raise ProbeError(f"listener {lid} raises at clock {now}")
            listen.env = None
            listen.raise_at = None
            return listen
        listeners = []
        for h in HOOK_ORDER:
            if h in hooks:
                fn = mk_listener(NAME_OF[h], base + h)
                listeners.append(fn)
                attrs[HOOK_METHOD[h]] = (lambda f: (lambda self, event: f(self, event)))(fn)
                if hooks[h] is not None:
                    attrs[HOOK_PRIO[h]] = property((lambda p: (lambda self: p))(hooks[h]))
        col = f"c08_col_{i}"
        if 3 in hooks:
            attrs["columns_created"] = property((lambda c: (lambda self: [c]))(col))

            def on_init(self, pop_data, _lid=base + 3, _col=col):
                env = self._env
                ilog.append((_lid, pop_data.creation_time, pop_data.creation_window, env["clock"](), len(pop_data.index)))
                self.population_view.update(pd.Series(0.0, index=pop_data.index, name=_col))
            attrs["on_initialize_simulants"] = on_init
        hand_callables = {}
        for ch, p, k in spec["hand"]:
            if k not in hand_callables:
                # one callable per (component, k); the channel it logs is looked up at call time from the event manager's
                # point of view: a callable registered on two channels must report the right one, so one wrapper per channel
                hand_callables[k] = {}

        def setup(self, builder, _spec=spec, _base=base, _listeners=listeners, _hc=hand_callables):
            env = {"clock": builder.time.clock(), "state": builder.lifecycle.current_state(),
                   "step": builder.time.step_size()}
            self._env = env
            for fn in _listeners:
                fn.env = env
            setup_seen.append((env["clock"](), env["step"]()))
            for ch, p, k in _spec["hand"]:
                per_channel = _hc[k]
                if ch not in per_channel:
                    fn = mk_listener(ch, _base + 100 + k)
                    fn.env = env
                    rz = case.get("raiser")
                    if rz and rz["lid"] == _base + 100 + k:
                        fn.raise_at = env["clock"]() + rz["from"] * env["step"]()
                    per_channel[ch] = fn
                fn = per_channel[ch]
                if p is None:
                    builder.event.register_listener(ch, fn)
                else:
                    builder.event.register_listener(ch, fn, p)
        attrs["setup"] = setup
        cls = type(f"C08Probe{i}", (Component,), attrs)
        comps.append(cls())
    return comps


class StepCounter:
    """Counts SimulationContext.step calls (class-level wrapper, harness process only)."""

    def __enter__(self):
        from vivarium.framework.engine import SimulationContext
        self.cls, self.orig, self.n, self.attempts = SimulationContext, SimulationContext.step, 0, 0
        me = self

        def step(sim, *a, **k):
            me.attempts += 1
            r = me.orig(sim, *a, **k)
            me.n += 1                      # completed steps only
            return r
        SimulationContext.step = step
        return self

    def __exit__(self, *a):
        self.cls.step = self.orig


def expected_regs(case):
    """channel name -> list of (bucket, seq, lid) as the case registers them (setup() first, then the hooks in the
    component's fixed order): the python oracle's own reading of the case, independent of the Coq model."""
    out = {}
    seq = 0
    for i, spec in enumerate(case["comps"]):
        base = (i + 1) * 1000
        for ch, p, k in spec["hand"]:
            out.setdefault(ch, []).append((bucket_of(p), seq, base + 100 + k))
            seq += 1
        for h in HOOK_ORDER:
            if str(h) in spec["hooks"]:
                out.setdefault(NAME_OF[h], []).append((bucket_of(spec["hooks"][str(h)]), seq, base + h))
                seq += 1
    return out


def coq_comps(case):
    cs = []
    for i, spec in enumerate(case["comps"]):
        base = (i + 1) * 1000
        hand = clist(cpair(cz(CH[ch]), cz(5 if p is None else p), cz(base + 100 + k)) for ch, p, k in spec["hand"])
        hooks = clist(cpair(cz(int(h)), cz(5 if p is None else p)) for h, p in sorted(spec["hooks"].items()))
        cs.append(cpair(hand, hooks, cz(base)))
    return clist(cs)


def run_sim(case):
    import pandas as pd
    from vivarium.framework.engine import SimulationContext
    from vivarium.interface.interactive import InteractiveContext
    boot.reset_contexts()
    t = case["time"]
    dt = case["clock"] == "datetime"
    if dt:
        y, m, d = t["start"]
        start_ts = pd.Timestamp(y, m, d)
        end_ts = start_ts + pd.Timedelta(days=t["days"])
        conf_time = {"start": {"year": y, "month": m, "day": d},
                     "end": {"year": end_ts.year, "month": end_ts.month, "day": end_ts.day}, "step_size": t["step"]}
        conv = lambda x: int(x.value)
        start_i, stop_i = conv(start_ts), conv(end_ts)
        stop_val = end_ts
        plugins = None
    else:
        conf_time = {"start": t["start"], "end": t["end"], "step_size": t["step"]}

        def conv(x):
            f = Fraction(x) * 4
            if f.denominator != 1:
                raise ValueError(f"not a multiple of 1/4: {x}")
            return int(f)
        start_i, stop_i = conv(t["start"]), conv(t["end"])
        stop_val = t["end"]
        plugins = SIMPLE_PLUGINS
    log, ilog, setup_seen = [], [], []
    comps = build_components(case, log, ilog, setup_seen)
    mods = case.get("mods")
    if mods:
        from vivarium import Component

        class C08StepMod(Component):
            def setup(self, builder):
                builder.time.register_step_size_modifier(
                    lambda idx: pd.Series([pd.Timedelta(days=mods[i % len(mods)]) for i in idx], index=idx))
        comps = [C08StepMod()] + comps
    config = {"population": {"population_size": case["pop"]}, "time": conf_time}
    driver = case["driver"]
    kw = dict(components=comps, configuration=config, logging_verbosity=0)
    if plugins:
        kw["plugin_configuration"] = plugins
    err = None
    with StepCounter() as counter:
        rets, targets = [], []
        if driver in (1, 3, 5, 6):
            sim = InteractiveContext(setup=False, **kw)
        else:
            sim = SimulationContext(**kw)
        boot.quiet_logging()
        try:
            if driver == 0:
                sim.setup(); sim.initialize_simulants(); sim.run(); sim.finalize(); sim.report(print_results=False)
            elif driver == 2:
                sim.run_simulation()
            elif driver == 1:
                sim.setup(); sim.run(with_logging=False); sim.finalize(); sim.report(print_results=False)
            elif driver == 3:
                sim.setup()
                while sim.current_time < stop_val:
                    sim.step()
                sim.finalize(); sim.report(print_results=False)
            elif driver == 4:
                sim.setup(); sim.initialize_simulants(); sim.run()
            elif driver == 5:
                sim.setup(); sim.run(with_logging=False)
            else:
                sim.setup()
                env = next(c._env for c in comps if hasattr(c, "_env"))
                for op in ops_of(case):
                    before = counter.n
                    if op[0] in ("until", "for"):
                        e_val = (start_ts + pd.Timedelta(hours=op[1])) if dt else (t["start"] + op[1])
                        if op[0] == "for":
                            r = sim.run_for(e_val - sim.current_time, with_logging=False)
                        else:
                            r = sim.run_until(e_val, with_logging=False)
                        rets.append(("run", e_val, r, counter.n - before, sim.current_time))
                    elif op[0] in ("step", "take"):
                        k = 1 if op[0] == "step" else op[1]
                        sim.step() if op[0] == "step" else sim.take_steps(k, with_logging=False)
                        rets.append(("take", k, None, counter.n - before, sim.current_time))
                    else:
                        # a call with an argument of an incompatible type: must raise and change nothing
                        bad_step = (3 if dt else pd.Timedelta(days=1)) if op[1] != "step_str" else "x"
                        state0 = (len(log), sim.current_time, env["step"](), counter.attempts)
                        raised = None
                        try:
                            if op[1] in ("step_size", "step_str"):
                                sim.step(step_size=bad_step)
                            elif op[1] == "take_size":
                                sim.take_steps(1, step_size=bad_step, with_logging=False)
                            elif op[1] == "take_float":
                                sim.take_steps(1.5, with_logging=False)
                            elif op[1] == "until_type":
                                sim.run_until(5 if dt else pd.Timestamp(2005, 1, 1), with_logging=False)
                            else:
                                sim.run_for("three days", with_logging=False)
                        except Exception as e:
                            raised = e
                        state1 = (len(log), sim.current_time, env["step"](), counter.attempts)
                        rets.append(("bad", op[1], raised, state0, state1))
        except Exception as e:
            err = e
        nsteps = counter.n
    if not setup_seen:
        return Result(ok=False, msg=f"no probe was set up: {err!r}")
    step_val = setup_seen[0][1]
    try:
        step_i = conv(step_val)
        final_i = conv(sim.current_time)
        ocalls = [(CH[ch], lid, conv(c), conv(et), conv(es), STATE_ID.get(state, 99), n) for ch, lid, c, et, es, state, n in log]
        oinits = [(lid, conv(ct), conv(cw), conv(c), n) for lid, ct, cw, c, n in ilog]
        setup_clock = conv(setup_seen[0][0])
        rets_i, targets_i = [], []           # per op: python-side record, and the model's op (kind, argument)
        for rec in rets:
            if rec[0] == "run":
                rets_i.append(("run", conv(rec[1]), rec[2], rec[3], conv(rec[4])))
                targets_i.append((0, conv(rec[1])))
            elif rec[0] == "take":
                rets_i.append(("take", rec[1], None, rec[3], conv(rec[4])))
                targets_i.append((1, rec[1]))
            else:
                rets_i.append(rec)
                targets_i.append((2, 0))
    except ValueError as e:
        return Result(ok=True, msg=f"outside the model's domain: {e}", coq=None, tags=("outside_domain",))
    tags = [case["clock"], f"driver{driver}", f"comps{len(case['comps'])}"]
    # glue report: is the Timedelta the clock built the exact value of the configured float?
    if dt:
        exact_step = Fraction(t["step"]) * 86400 * 10**9
        tags.append("step_exact" if exact_step == step_i else "step_rounded_by_glue")
        glue_error = abs(exact_step - step_i)
    else:
        glue_error = abs(Fraction(t["step"]) * 4 - step_i)
    # ---- direct oracle (the property statement on the observation; integer arithmetic, independent of the Coq model) ----
    ok, msg = True, ""
    failures, fail_msgs = [], []
    expect_raise = bool(case.get("raiser"))

    def fail(m, cls=None):
        nonlocal ok, msg
        failures.append(cls)
        fail_msgs.append(m)
        if ok:
            ok, msg = False, m
    if err is not None and not expect_raise:
        from vivarium.framework.lifecycle import InvalidTransitionError
        if isinstance(err, InvalidTransitionError) and start_i >= stop_i and driver in (0, 1, 2, 3) and nsteps == 0:
            fail(f"a run of length zero cannot be finished: after 0 steps finalize raised {err!r}; simulation_end was "
                 f"not emitted", "F-V")
        else:
            fail(f"the run raised {err!r}")
    if step_i <= 0:
        fail(f"non-positive step {step_i}")
    if glue_error > 1000:      # the step the events carry must be the configured one (up to the float -> ns rounding)
        fail(f"configured step {t['step']} became {step_i} clock units (off by {float(glue_error)})")
    def ceil_steps(a, b):
        return 0 if (a >= b or step_i <= 0) else (b - a + step_i - 1) // step_i
    if mods:
        return finish_var(case, locals())
    if case.get("raiser"):
        return finish_raise(case, locals())
    if driver == 6:
        # run_until / run_for to arbitrary end times: each call makes ceil((end - clock)/step) steps (none if end <= clock),
        # returns that number, and leaves the clock on the first grid point at or after the end
        n_exp, c = 0, start_i
        for rec in rets_i:
            if rec[0] == "bad":
                check_refused(rec, fail)
                continue
            kind, arg, r, n, c_after = rec
            k = ceil_steps(c, arg) if kind == "run" else arg
            if n != k or (kind == "run" and r != k) or c_after != c + k * step_i:
                fail(f"{kind} {arg} from clock {c}: {n} steps (returned {r}), clock {c_after}; expected "
                     f"{k} steps and clock {c + k * step_i}")
            n_exp += k
            c = c_after
        if err is None and len(rets_i) != len(ops_of(case)):
            fail("harness: not every call of the session was made")
    else:
        n_exp = ceil_steps(start_i, stop_i)
    if setup_clock != start_i:
        fail(f"clock at setup {setup_clock} != configured start {start_i}")
    if err is None and driver != 6:
        if nsteps != n_exp:
            fail(f"{nsteps} steps taken, ceil((stop - start)/step) = {n_exp} (start {start_i}, stop {stop_i}, step {step_i})")
        if final_i != start_i + nsteps * step_i:
            fail(f"final clock {final_i} != start + steps*step = {start_i + nsteps * step_i}")
        if start_i < stop_i and not (stop_i <= final_i < stop_i + step_i):
            fail(f"final clock {final_i} not in [stop, stop + step) = [{stop_i}, {stop_i + step_i})")
    regs = expected_regs(case)
    # expected emission sequence (only emissions with at least one probe listener are visible)
    seq = [("post_setup", start_i)]
    for k in range(n_exp):
        for ch in LISTEN_CHANNELS[1:5]:
            seq.append((ch, start_i + k * step_i))
    if driver in (0, 1, 2, 3):
        seq += [("simulation_end", start_i + n_exp * step_i), ("report", start_i + n_exp * step_i)]
    visible = [(ch, c) for ch, c in seq if regs.get(ch)]
    groups = []
    for ch, lid, c, et, es, state, n in ocalls:
        if not groups or groups[-1][0] != (ch, c):
            groups.append(((ch, c), []))
        groups[-1][1].append(lid)
        if et != c + step_i or es != step_i:
            fail(f"event {NAME_OF.get(ch, ch)} at clock {c}: time {et}, step_size {es}; expected {c + step_i}, {step_i}")
        if state != ch:
            fail(f"listener of {NAME_OF.get(ch, ch)} ran in life-cycle state {state}")
        if ch != 2 and n != case["pop"]:
            fail(f"event {NAME_OF.get(ch, ch)} carried {n} simulants, population is {case['pop']}")
    got_keys = [(NAME_OF[k[0]], k[1]) for k, _ in groups]
    if err is None and got_keys != visible:
        i = next((j for j, (a, b) in enumerate(zip(got_keys, visible)) if a != b), min(len(got_keys), len(visible)))
        fail(f"emission sequence differs at #{i}: observed {got_keys[i:i + 3]}, expected {visible[i:i + 3]} "
             f"({len(got_keys)} vs {len(visible)} visible emissions)")
    exact = True
    for (chid, c), lids in groups:
        exp = sorted(regs.get(NAME_OF[chid], []))
        want = [lid for _, _, lid in exp]
        if sorted(lids) != sorted(want):
            fail(f"emission {NAME_OF[chid]}@{c}: called {lids}, registered {want} (each must be called exactly once "
                 f"per registration)")
            continue
        pos = 0
        for b in range(10):
            grp = sorted(lid for bb, _, lid in exp if bb == b)
            if grp != sorted(lids[pos:pos + len(grp)]):
                fail(f"emission {NAME_OF[chid]}@{c}: calls {lids} not in non-decreasing priority order "
                     f"{[(bb, lid) for bb, _, lid in exp]}")
                break
            pos += len(grp)
        if lids != want:
            exact = False
    want_inits = sorted((i + 1) * 1000 + 3 for i, spec in enumerate(case["comps"]) if "3" in spec["hooks"])
    if err is None and sorted(x[0] for x in oinits) != want_inits:
        fail(f"initializers called: {sorted(x[0] for x in oinits)}, registered {want_inits}")
    for lid, ct, cw, c, n in oinits:
        if ct != start_i - step_i or cw != step_i or c != start_i - step_i or n != case["pop"]:
            fail(f"initializer {lid}: creation_time {ct}, window {cw}, clock {c}, {n} simulants; expected "
                 f"{start_i - step_i}, {step_i}, {start_i - step_i}, {case['pop']}")
    tags.append("within_bucket_order_kept" if exact else "within_bucket_order_differs")
    tags.append("steps0" if n_exp == 0 else "exact_multiple" if (stop_i - start_i) % step_i == 0 else "not_multiple")
    coq_driver = {0: 0, 2: 0, 3: 0, 1: 1, 4: 2, 5: 3, 6: 4}[driver]
    if err is None:
        ocode = 0
    else:
        from vivarium.framework.lifecycle import InvalidTransitionError
        ocode = 1 if isinstance(err, InvalidTransitionError) else 2
    obs = cpair(clist(cpair(cz(ch), cz(lid), cz(c), cz(et), cz(es), cz(state)) for ch, lid, c, et, es, state, n in ocalls),
                clist(cpair(cz(lid), cz(ct), cz(cw), cz(c)) for lid, ct, cw, c, n in oinits),
                cz(final_i), cz(nsteps), cz(ocode))
    coq = "(" + cpair(cz(start_i), cz(stop_i), cz(step_i), cz(coq_driver), coq_ops(targets_i), "[]", coq_comps(case), obs) + " : sim_case)"
    if driver == 6:
        tags.append("session")
        tags += [("refused_" + rec[1]) if rec[0] == "bad" else "steps_taken" if rec[0] == "take" else
                 ("end_before_clock" if rec[3] == 0 else "end_reached") for rec in rets_i]
    return Result(ok=ok, msg=msg, coq=coq, key=(case["clock"], str(case["time"]), driver, str(case["comps"])) if ocalls else None,
                  obs={"steps": nsteps, "expected_steps": n_exp, "start": start_i, "stop": stop_i, "step": step_i,
                       "final": final_i, "calls": len(ocalls), "inits": len(oinits), "error": repr(err) if err else None, "finding_class": "F-V" if (failures and all(c == "F-V" for c in failures)) else None},
                  tags=tuple(tags))


def coq_ops(ops):
    return clist(cpair(cz(k), cz(a)) for k, a in ops)


def check_refused(rec, fail):
    """a driver call with an argument of an incompatible type: it must raise, emit nothing, and leave the clock and the
    step size exactly as they were (so that the following steps are those of the same session without it)"""
    _, kind, raised, before, after = rec
    if raised is None:
        fail(f"refused-call probe `{kind}`: the call with an incompatible argument did not raise")
    if before[0] != after[0]:
        fail(f"refused call `{kind}` ({raised!r}) still ran {after[0] - before[0]} listener calls")
    if before[1] != after[1]:
        fail(f"refused call `{kind}` ({raised!r}) moved the clock from {before[1]} to {after[1]}")
    if not (type(before[2]) is type(after[2]) and before[2] == after[2]):
        fail(f"refused call `{kind}` ({raised!r}) changed the clock's step size from {before[2]!r} to {after[2]!r}")


def finish_var(case, L):
    """cases with per-simulant step sizes: the direct oracle checks the stepping loop (not the step sizes, which are C10's):
    within a step all events carry the same step size and time = clock + step; the clock advances by exactly that step;
    every run / run_until ends with the clock at or after its end time and would not have needed its last step otherwise;
    returned iteration counts are the numbers of steps made."""
    ocalls, oinits, err, nsteps, driver = L["ocalls"], L["oinits"], L["err"], L["nsteps"], L["driver"]
    start_i, stop_i, step_i, final_i, fail = L["start_i"], L["stop_i"], L["step_i"], L["final_i"], L["fail"]
    targets_i, rets_i, tags = L["targets_i"], L["rets_i"], L["tags"]
    if err is not None and not L["failures"]:
        fail(f"the run raised {err!r}")
    steps = []                                  # (clock, step size) of each step, from the loop events
    for ch, lid, c, et, es, state, n in ocalls:
        if et != c + es:
            fail(f"event {NAME_OF.get(ch, ch)} at clock {c}: time {et} != clock + step_size {c + es}")
        if state != ch:
            fail(f"listener of {NAME_OF.get(ch, ch)} ran in life-cycle state {state}")
        if 4 <= ch <= 7:
            if not steps or steps[-1][0] != c:
                steps.append((c, es))
            elif steps[-1][1] != es:
                fail(f"events of the step at clock {c} carry different step sizes {steps[-1][1]} and {es}")
    for (c1, s1), (c2, _) in zip(steps, steps[1:]):
        if c2 != c1 + s1:
            fail(f"clock went from {c1} to {c2} after a step of size {s1}")
    if len(steps) != nsteps:
        fail(f"{nsteps} calls of step(), {len(steps)} steps seen by the listeners")
    if steps and steps[0][0] != start_i:
        fail(f"first step at clock {steps[0][0]}, start is {start_i}")
    if steps and final_i != steps[-1][0] + steps[-1][1]:
        fail(f"final clock {final_i} != last step's clock + step {steps[-1][0] + steps[-1][1]}")
    clocks = [c for c, _ in steps] + [final_i]

    def check_segment(c_from, target, n, what):
        # n steps were made from clock c_from towards target
        i = clocks.index(c_from) if c_from in clocks else None
        if i is None or i + n >= len(clocks):
            fail(f"{what}: cannot locate its steps")
            return c_from
        c_to = clocks[i + n]
        if c_to < target:
            fail(f"{what}: stopped at clock {c_to}, before the end time {target}")
        if n > 0 and clocks[i + n - 1] >= target:
            fail(f"{what}: made a step from clock {clocks[i + n - 1]}, which had already reached the end time {target}")
        if n == 0 and c_from < target:
            fail(f"{what}: no step although the clock {c_from} is before the end time {target}")
        return c_to
    if err is None:
        if driver == 6:
            c = start_i
            for rec in rets_i:
                if rec[0] == "bad":
                    check_refused(rec, fail)
                    continue
                kind, arg, r, n, c_after = rec
                if kind == "run":
                    if r != n:
                        fail(f"run_until/run_for to {arg} returned {r} after {n} steps")
                    c2 = check_segment(c, arg, n, f"run_until/run_for to {arg} from {c}")
                else:
                    if n != arg:
                        fail(f"take_steps({arg}) made {n} steps")
                    i = clocks.index(c) if c in clocks else None
                    c2 = clocks[i + n] if i is not None and i + n < len(clocks) else None
                if c2 != c_after:
                    fail(f"{kind} {arg}: clock {c_after} afterwards, steps lead to {c2}")
                c = c_after
        else:
            check_segment(start_i, stop_i, nsteps, "run")
    for lid, ct, cw, c, n in oinits:
        if ct != start_i - step_i or cw != step_i or c != start_i - step_i:
            fail(f"initializer {lid}: creation_time {ct}, window {cw}, clock {c}; expected {start_i - step_i}, {step_i}")
    tbl = {}
    for c, es in steps:
        tbl[c] = es
    for ch, lid, c, et, es, state, n in ocalls:
        if ch in (8, 9):
            tbl.setdefault(c, es)
    tags += ["variable_step", f"distinct_steps{min(len(set(es for _, es in steps)), 4)}"]
    if driver == 6:
        tags.append("session")
    from vivarium.framework.lifecycle import InvalidTransitionError
    ocode = 0 if err is None else 1 if isinstance(err, InvalidTransitionError) else 2
    coq_driver = {0: 0, 2: 0, 3: 0, 1: 1, 4: 2, 5: 3, 6: 4}[driver]
    obs = cpair(clist(cpair(cz(ch), cz(lid), cz(c), cz(et), cz(es), cz(state)) for ch, lid, c, et, es, state, n in ocalls),
                clist(cpair(cz(lid), cz(ct), cz(cw), cz(c)) for lid, ct, cw, c, n in oinits),
                cz(final_i), cz(nsteps), cz(ocode))
    coq = "(" + cpair(cz(start_i), cz(stop_i), cz(step_i), cz(coq_driver), coq_ops(targets_i),
                      clist(cpair(cz(c), cz(es)) for c, es in sorted(tbl.items())), coq_comps(case), obs) + " : sim_case)"
    return Result(ok=not L["failures"], msg=L["fail_msgs"][0] if L["fail_msgs"] else "", coq=coq,
                  key=(str(case["time"]), case["driver"], str(case["mods"]), str(ops_of(case)), str(case["comps"])),
                  obs={"steps": steps[:20], "nsteps": nsteps, "final": final_i, "session": [str(x)[:120] for x in rets_i],
                       "error": repr(err) if err else None, "finding_class": None},
                  tags=tuple(tags))


def gen_raise(rng: random.Random):
    """a fixed-step simulation of positive length in which one dedicated listener - alone in its bucket on its channel -
    raises from a chosen step on"""
    clock = rng.choice(["datetime", "simple"])
    for _ in range(50):
        t = gen_time(rng, clock, max_steps=10)
        if not zero_length(t):
            break
    case = {"clock": clock, "time": t, "driver": rng.choice([0, 2, 1]), "pop": rng.randint(1, 3),
            "comps": [gen_comp(rng, i) for i in range(rng.randint(1, 4))]}
    regs = expected_regs(case)
    ch = rng.choice(LISTEN_CHANNELS)
    used = {b for b, _, _ in regs.get(ch, [])}
    free = [b for b in range(10) if b not in used] or [0]
    if not [b for b in range(10) if b not in used]:
        for spec in case["comps"]:                         # (never in practice) make room: drop the channel's other listeners
            spec["hand"] = [h for h in spec["hand"] if h[0] != ch]
            spec["hooks"].pop(str(CH[ch]), None)
    i = rng.randrange(len(case["comps"]))
    case["comps"][i]["hand"].append([ch, rng.choice(free), 100])
    case["raiser"] = {"lid": (i + 1) * 1000 + 200, "channel": ch,
                      "from": 0 if ch in ("post_setup",) else rng.choice([0, 0, 1, 2, 3, 50])}
    return case


def finish_raise(case, L):
    """direct oracle for a run with a raising listener: everything before the raising call happened as in an ordinary run;
    the raiser was called once; NOTHING was called after it; the clock stands where that step began; the exception
    propagated; the number of completed steps is the number of steps before."""
    ocalls, oinits, err, nsteps, driver = L["ocalls"], L["oinits"], L["err"], L["nsteps"], L["driver"]
    start_i, stop_i, step_i, final_i, fail = L["start_i"], L["stop_i"], L["step_i"], L["final_i"], L["fail"]
    tags = L["tags"]
    rz = case["raiser"]
    regs = expected_regs(case)
    n_exp = L["ceil_steps"](start_i, stop_i)
    seq = [("post_setup", start_i)]
    for k in range(n_exp):
        for ch in LISTEN_CHANNELS[1:5]:
            seq.append((ch, start_i + k * step_i))
    seq += [("simulation_end", start_i + n_exp * step_i), ("report", start_i + n_exp * step_i)]
    raise_at = start_i + rz["from"] * step_i
    hit = next((j for j, (ch, c) in enumerate(seq) if ch == rz["channel"] and c >= raise_at), None)
    # expected visible groups: (channel, clock, listeners that must have been called (as a multiset per bucket), raiser last?)
    exp_groups = []
    for j, (ch, c) in enumerate(seq):
        if hit is not None and j > hit:
            break
        ls = sorted(regs.get(ch, []))
        if j == hit:
            rb = [b for b, _, lid in ls if lid == rz["lid"]][0]
            ls = [x for x in ls if x[0] < rb] + [x for x in ls if x[2] == rz["lid"]]
        if ls:
            exp_groups.append((ch, c, ls))
    groups = []
    for ch, lid, c, et, es, state, n in ocalls:
        if not groups or groups[-1][0] != (ch, c):
            groups.append(((ch, c), []))
        groups[-1][1].append(lid)
        if et != c + step_i or es != step_i:
            fail(f"event {NAME_OF.get(ch, ch)} at clock {c}: time {et}, step_size {es}")
    got = [(NAME_OF[k[0]], k[1]) for k, _ in groups]
    want = [(ch, c) for ch, c, _ in exp_groups]
    if got != want:
        i = next((j for j, (a, b) in enumerate(zip(got, want)) if a != b), min(len(got), len(want)))
        what = "after the raising listener " if len(got) > len(want) and got[:len(want)] == want else ""
        fail(f"emissions {what}differ at #{i}: observed {got[i:i + 3]}, expected {want[i:i + 3]} "
             f"({len(got)} vs {len(want)}; the raiser {rz['lid']} fires in emission {seq[hit] if hit is not None else None})")
    else:
        for ((chid, c), lids), (ch, _, ls) in zip(groups, exp_groups):
            if sorted(lids) != sorted(lid for _, _, lid in ls):
                fail(f"emission {ch}@{c}: called {lids}, expected {[lid for _, _, lid in ls]} "
                     f"(listeners after the raising one must not be called)")
            pos = 0
            for b in range(10):
                grp = sorted(lid for bb, _, lid in ls if bb == b)
                if grp != sorted(lids[pos:pos + len(grp)]):
                    fail(f"emission {ch}@{c}: calls {lids} not in priority order")
                    break
                pos += len(grp)
    if hit is None:
        if err is not None:
            fail(f"the run raised {err!r} although the raising listener is never due")
        exp_steps, exp_final, ocode_exp = n_exp, start_i + n_exp * step_i, 0
    else:
        if not isinstance(err, ProbeError):
            fail(f"the listener's exception did not propagate: outcome {err!r}")
        ch, c = seq[hit]
        exp_steps = (c - start_i) // step_i if ch in LISTEN_CHANNELS[1:5] else (0 if ch == "post_setup" else n_exp)
        exp_final, ocode_exp = c, 3
    if nsteps != exp_steps:
        fail(f"{nsteps} completed steps, expected {exp_steps}")
    if final_i != exp_final:
        fail(f"clock stands at {final_i} after the abandoned run, expected {exp_final} (the clock must not move)")
    if hit is None or seq[hit][0] != "post_setup":
        want_inits = sorted((i + 1) * 1000 + 3 for i, spec in enumerate(case["comps"]) if "3" in spec["hooks"])
        if sorted(x[0] for x in oinits) != want_inits:
            fail(f"initializers called: {sorted(x[0] for x in oinits)}, registered {want_inits}")
    elif oinits:
        fail("initializers ran although post_setup was abandoned")
    from vivarium.framework.lifecycle import InvalidTransitionError
    ocode = 0 if err is None else 3 if isinstance(err, ProbeError) else 1 if isinstance(err, InvalidTransitionError) else 2
    tags += ["raises_in_" + (seq[hit][0] if hit is not None else "never"), f"completed_steps{min(nsteps, 3)}"]
    obs = cpair(clist(cpair(cz(ch), cz(lid), cz(c), cz(et), cz(es), cz(state)) for ch, lid, c, et, es, state, n in ocalls),
                clist(cpair(cz(lid), cz(ct), cz(cw), cz(c)) for lid, ct, cw, c, n in oinits),
                cz(final_i), cz(nsteps), cz(ocode))
    coq = "(" + cpair(cz(start_i), cz(stop_i), cz(step_i), cz(rz["lid"]), cz(raise_at), coq_comps(case), obs) + " : raise_case)"
    return Result(ok=not L["failures"], msg=L["fail_msgs"][0] if L["fail_msgs"] else "", coq=coq,
                  key=(case["clock"], str(case["time"]), case["driver"], str(case["raiser"]), str(case["comps"])),
                  obs={"nsteps": nsteps, "final": final_i, "calls": len(ocalls), "error": repr(err) if err else None,
                       "raiser": rz, "finding_class": None},
                  tags=tuple(tags))


def raise_corpus():
    comps = [{"hooks": {"4": 0, "5": 5, "6": 5, "7": 5, "8": 5, "3": None}, "hand": [["time_step", 7, 0], ["time_step", 3, 100]]}]
    return [{"clock": "datetime", "time": {"start": [2005, 7, 1], "days": 4, "step": 1}, "driver": 0, "pop": 2, "comps": comps,
             "raiser": {"lid": 1200, "channel": "time_step", "from": 2}},
            {"clock": "simple", "time": {"start": 0, "end": 6, "step": 2}, "driver": 1, "pop": 1,
             "comps": [{"hooks": {"5": 2, "8": 9}, "hand": [["simulation_end", 0, 100]]}],
             "raiser": {"lid": 1200, "channel": "simulation_end", "from": 0}}]


# ---- shrinking (minimal replays) ----------------------------------------------------------------------------------
def shrink_chan(case):
    import copy
    regs = case["regs"]
    if len(regs) > 3:
        c = copy.deepcopy(case); c["regs"] = regs[:len(regs) // 2]; yield c
        c = copy.deepcopy(case); c["regs"] = regs[len(regs) // 2:]; yield c
    for i in range(len(regs)):
        c = copy.deepcopy(case); del c["regs"][i]; yield c
    if case["nch"] > 1 and all(r[0] < case["nch"] - 1 for r in regs):
        c = copy.deepcopy(case); c["nch"] -= 1; yield c
    if case["stamps"]:
        c = dict(case); c["stamps"] = False; yield c


def shrink_sim(case):
    import copy
    keep = case.get("raiser", {}).get("lid")
    for i in range(len(case["comps"])):
        if len(case["comps"]) > 1 and not (keep and keep // 1000 == i + 1) and i == len(case["comps"]) - 1:
            c = copy.deepcopy(case); del c["comps"][i]; yield c        # only the last one (listener ids are positional)
    for i, spec in enumerate(case["comps"]):
        for h in list(spec["hooks"]):
            c = copy.deepcopy(case); del c["comps"][i]["hooks"][h]; yield c
        for j, hd in enumerate(spec["hand"]):
            if not (keep and hd[2] == 100):
                c = copy.deepcopy(case); del c["comps"][i]["hand"][j]; yield c
        for h, p in spec["hooks"].items():
            if p is not None:
                c = copy.deepcopy(case); c["comps"][i]["hooks"][h] = None; yield c
    t = case["time"]
    if "days" in t and t["days"] > 1:
        for d in (1, t["days"] // 2, t["days"] - 1):
            if 0 < d < t["days"]:
                c = copy.deepcopy(case); c["time"]["days"] = d; yield c
    if "end" in t and t["end"] - t["start"] > t["step"]:
        c = copy.deepcopy(case); c["time"]["end"] = t["start"] + t["step"] * max(1, int((t["end"] - t["start"]) / t["step"] / 2)); yield c
    if case.get("driver") == 6:
        ops = ops_of(case)
        for i in range(len(ops)):
            if len(ops) > 1:
                c = copy.deepcopy(case); c["ops"] = [o for j, o in enumerate(ops) if j != i]
                c.pop("ends", None); c.pop("via", None); yield c
    if case.get("mods") and len(case["mods"]) > 1:
        c = copy.deepcopy(case); c["mods"] = case["mods"][:-1]; c["pop"] = len(c["mods"]); yield c
    if case["pop"] > 1 and not case.get("mods"):
        c = copy.deepcopy(case); c["pop"] = 1; yield c


def finding_sim(case, res):
    if isinstance(res.obs, dict) and res.obs.get("finding_class") == "F-V":
        return "F-V"
    return None


def streams(tier):
    imp = "From Viv Require Import Common Events Stepper."
    return [
        Stream(name="chan", imports="From Viv Require Import Common Events.", check="check_chan", gen=gen_chan, run=run_chan,
               n_quick=500, n_thorough=8000, shrink=shrink_chan),
        Stream(name="grid", imports=imp, check="check_sim", gen=gen_grid, run=run_sim, n_quick=60, n_thorough=900,
               corpus=grid_corpus, finding_of=finding_sim, shrink=shrink_sim),
        Stream(name="sim", imports=imp, check="check_sim", gen=gen_sim, run=run_sim, n_quick=60, n_thorough=600,
               finding_of=finding_sim, shrink=shrink_sim),
        Stream(name="var", imports=imp, check="check_sim", gen=gen_var, run=run_sim, n_quick=40, n_thorough=500,
               corpus=var_corpus, finding_of=finding_sim, shrink=shrink_sim),
        Stream(name="raise", imports=imp, check="check_raise", gen=gen_raise, run=run_sim, n_quick=40, n_thorough=500,
               corpus=raise_corpus, finding_of=finding_sim, shrink=shrink_sim),
    ]
