"""C20 - Every component is set up once; user configuration always wins (DESIGN.md section 5, C20).

Tie to the code (models: coq/theories/Components.v + Config.v, theorems: coq/props/C20.v):
  tables() : the configuration's layer list, the layer every writer uses (manager defaults, component defaults, model
             specification, keyword arguments - observed by wrapping LayeredConfigTree.update in the harness process
             while a real SimulationContext is built) and the managers' names / defaults (captured by wrapping
             ComponentManager.add_managers) -> generated/ConfigLayers_C20.v, where C20_layers_ok is re-proved and
             C20_user_wins is instantiated on today's table.
  stream `ctx` : a real SimulationContext built from a generated forest of probe components (depth <= 4, fan-out <= 4,
             nested lists / tuples anywhere, duplicate names planted at any depth, a component named like a manager),
             with defaults / model-specification values / keyword arguments over a pool of shared key paths (clashes,
             interior-vs-leaf conflicts, a manager's own key), then set up.  Observed: construction raised?, setup
             raised?, the set-up log (every manager's and every probe's set-up call), and the configuration as a probe
             sees it in its setup: reads of a pool of key paths by EVERY probe, modification attempts by the first probe
             to be set up (update / item assignment / deletion at several places) and again from outside after setup,
             with outcomes.  Components reach the context through the constructor, through add_components (nested lists),
             or through the `components` block of the model specification (parser plugin -> props.c20.SpecProbe; a tree or
             a YAML file; one section, a nested list or two sections; ' or " quotes; the SAME description listed twice, one
             name with different arguments, the rest of the forest supplied as instances: spec + constructor, spec +
             add_components) - the parser must yield one component per description, in document order.  When
             add_components refuses a batch on an existing context (duplicate name, defaults clash between two new
             components / with a registered one / with a manager, an object that is no component - one or two batches,
             the offender at any position), setup is called all the same: what stayed registered must be consistent (no
             component whose name or defaults were refused among it), the configuration read during that setup must be
             the one the registered components make (on the key paths no refused component may have touched), and in a
             second identical context a correct component of every unregistered name must be accepted afterwards.
  stream `cfg` : a stand-alone LayeredConfigTree driven by an operation sequence (the library model Config.v).
Direct oracle (python, independent of the Coq model): every manager is set up once and before every probe; every node
of the forest exactly once, after its parent; duplicate names and a manager's name are refused; a key path reads as
the keyword argument, else the model-specification value, else the one default; two defaults for one key are refused;
every update / assignment attempt during or after setup raises and changes nothing.  Deletion (`del cfg[k]`, delattr) on
the frozen configuration goes through - open finding F-AA (layered_config_tree does not guard __delitem__/__delattr__):
modelled faithfully (Config.delete_key, C20_frozen_deletion_refuted), reported as KNOWN-FINDING when it is the only thing
wrong with a case (finding_of_ctx).
"""
import copy
import json
import os
import random

import boot
from core import Result, Stream, cbool, clist, copt, cpair, cz, czlist

PROPERTY = "C20"
CLAIM = {
    "technique": "machine-checked proofs (Coq) over hand-written models of ComponentManager and the layered configuration, "
                 "a layer table regenerated from the live code each run, correspondence on real contexts",
    "text": "Proved for all forests / defaults / specification values / keyword arguments: the explicit-stack flatten loop "
            "is the pre-order traversal (every component once, parent first, siblings in order); duplicate names anywhere "
            "are rejected; the set-up order is managers then pre-order, duplicate-free; a key path reads as the keyword "
            "argument, else the model-specification value, else the one default, whatever the component order; two "
            "defaults for one key are rejected; after freeze every update is refused and reads are unchanged. The layer "
            "list and the layer each writer uses are read off a live context every run and the layer-order obligation "
            "C20_layers_ok is re-proved on them. Real contexts built from generated component forests are compared with "
            "the model (Coq decides agreement per batch).",
    "note": "Trusted: the transcription of ComponentManager / engine __init__ / setup and of layered_config_tree (library, "
            "validated by the `cfg` and `ctx` correspondences on the explored cases only); the harness's wrappers "
            "(LayeredConfigTree.update, ComponentManager.add_managers, each manager's setup - recording only) and the "
            "layer list recorded from the public `layers` argument of LayeredConfigTree(...) (the library's private _layers only as a "
            "fallback). Open finding F-AA: deletion on the frozen "
            "configuration succeeds (library); C20_frozen covers update / assignment only, C20_frozen_deletion_refuted is the "
            "witness. Not covered: the configuration's content after a REFUSED update of a "
            "partly frozen tree (library partial effects).",
}
RULE = ("ctx: forests of 0-14 probe components (depth <= 4, fan-out <= 4, nested lists / tuples at top level and inside "
        "sub_components, duplicates planted at any depth, manager names) supplied through the constructor, "
        "add_components, the model specification's components block (tree / YAML file, 3 layouts, quote variants, 40% with a "
        "description repeated or a name reused) or block + instances, x 1-3 modification attempts during setup and 0-3 "
        "after it (a quarter of the cases with deletions: open finding F-AA), x defaults / model-specification values / keyword arguments drawn from a pool of 9 key paths "
        "(shared prefixes, leaf-vs-interior conflicts, population.population_size owned by a manager). cfg: 1-5 layers, "
        "3-14 operations (update at a path / at the root with nested dicts, item assignment, freeze of a sub-tree or "
        "the root, reads, metadata) incl. unknown layers and duplicates. distinct = distinct case JSON; trivial = empty "
        "forest without configuration / no update")
ASSUMPTIONS = [
    "a component's behaviour towards the manager is its name, its configuration_defaults and its sub_components "
    "(probe components override exactly these three properties and setup)",
    "python dict keys are unique at every level of supplied configuration data (wf_data)",
    "HOME is pointed at a private temporary directory while a context is built (with or without a vivarium.yaml)",
]
TRUSTED = [
    "C20: class-level recording wrappers of LayeredConfigTree.update and ComponentManager.add_managers, instance-level "
    "wrappers of each manager's setup (record, then call through); the layer list is the `layers` argument recorded by a wrapper of the public "
    "LayeredConfigTree constructor; no private attribute of /repo/src is read",
]
LEVEL_NOTE = ("Full for flatten / duplicate rejection / set-up order / precedence / clash rejection / freeze over all inputs; "
              "the layer table is regenerated and re-proved each run.")


class Interner:
    def __init__(self, first=1):
        self.ids, self.next = {}, first

    def __call__(self, x):
        if x not in self.ids:
            self.ids[x] = self.next
            self.next += 1
        return self.ids[x]


NAMES = Interner(1)        # component / manager names and update sources (None = 0)
KEYS = Interner(1)         # configuration key names
VALS = Interner(1)         # configuration values (JSON text)
LAYERS = Interner(1)       # layer names
_TABLE = {}                # filled by ensure_table(): layers, writer layers, managers


def val_id(v):
    return VALS(json.dumps(v, sort_keys=True, default=str))


def src_id(s):
    return 0 if s is None else NAMES(str(s))


def cdata(d):
    """python value -> Coq `data`"""
    if isinstance(d, dict):
        return "(DDict " + clist(cpair(cz(KEYS(k)), cdata(v)) for k, v in d.items()) + ")"
    return f"(DVal {cz(val_id(d))})"


def cdict(d):
    return clist(cpair(cz(KEYS(k)), cdata(v)) for k, v in d.items())


def cpath(p):
    return czlist(KEYS(k) for k in p)


# ----------------------------------------------------------------------------------------------------------------
# recording wrappers (harness process only; they call through)
# ----------------------------------------------------------------------------------------------------------------
class Recording:
    def __init__(self):
        self.updates = []       # (data, layer, source) of every LayeredConfigTree.update call
        self.managers = []      # the objects handed to ComponentManager.add_managers
        self.layer_lists = []   # the `layers` argument of every LayeredConfigTree(...) built meanwhile

    def __enter__(self):
        from layered_config_tree import LayeredConfigTree
        from vivarium.framework.components.manager import ComponentManager
        self.LCT, self.CM = LayeredConfigTree, ComponentManager
        self.orig_update, self.orig_add = LayeredConfigTree.update, ComponentManager.add_managers
        self.orig_init = LayeredConfigTree.__init__
        rec = self

        def init(tree, data=None, layers=[], name="", *a, **k):  # noqa: B006 - mirrors the library's signature
            if layers:
                rec.layer_lists.append(list(layers))
            return rec.orig_init(tree, data, layers, name, *a, **k)

        def update(tree, data, layer=None, source=None):
            rec.updates.append((data, layer, source))
            return rec.orig_update(tree, data, layer=layer, source=source)

        def add_managers(cm, managers):
            managers = list(managers)
            rec.managers.extend(managers)
            return rec.orig_add(cm, managers)

        LayeredConfigTree.update = update
        LayeredConfigTree.__init__ = init
        ComponentManager.add_managers = add_managers
        return self

    def __exit__(self, *a):
        self.LCT.update = self.orig_update
        self.LCT.__init__ = self.orig_init
        self.CM.add_managers = self.orig_add


_HOME = [None]


def temp_home(user):
    """a private HOME for the context under construction: with a vivarium.yaml holding `user` (or none if empty) - the check
    no longer depends on the real home directory"""
    import atexit
    import shutil
    import tempfile
    import yaml
    if _HOME[0] is None:
        _HOME[0] = tempfile.mkdtemp(prefix="verif_c20_home_")
        atexit.register(lambda: shutil.rmtree(_HOME[0], ignore_errors=True))
    path = os.path.join(_HOME[0], "vivarium.yaml")
    if user:
        with open(path, "w") as fh:
            yaml.safe_dump(user, fh, sort_keys=False)
    elif os.path.exists(path):
        os.remove(path)
    return _HOME[0]


class Home:
    def __init__(self, user):
        self.user = user

    def __enter__(self):
        self.old = os.environ.get("HOME")
        os.environ["HOME"] = temp_home(self.user)

    def __exit__(self, *a):
        if self.old is None:
            os.environ.pop("HOME", None)
        else:
            os.environ["HOME"] = self.old


def is_user_yaml(data):
    from pathlib import Path
    return isinstance(data, (str, Path)) and str(data).endswith("vivarium.yaml")


def contains_key(data, key):
    if isinstance(data, dict):
        return key in data or any(contains_key(v, key) for v in data.values())
    try:
        from layered_config_tree import LayeredConfigTree
        if isinstance(data, LayeredConfigTree):
            return contains_key(data.to_dict(), key)
    except Exception:
        pass
    return False


def make_probe_class():
    from vivarium import Component

    class CfgProbe(Component):
        """Overrides exactly name / configuration_defaults / sub_components / setup."""

        def __init__(self, pname, defaults, subs, shared):
            super().__init__()
            self.vp_name, self.vp_defaults, self.vp_subs, self.shared = pname, defaults, subs, shared

        @property
        def name(self):
            return self.vp_name

        @property
        def configuration_defaults(self):
            return self.vp_defaults

        @property
        def sub_components(self):
            return self.vp_subs

        def setup(self, builder):
            sh = self.shared
            sh["log"].append(self.vp_name)
            cfg = builder.configuration
            sh["cfg"] = cfg
            sh["events"].append(("reads", self.vp_name, [read_path(cfg, p) for p in sh["paths"]]))
            if not sh["attempted"]:              # the FIRST probe to be set up tries to modify the configuration
                sh["attempted"] = True
                run_attempts(cfg, sh["paths"], sh["attempts"], sh["events"], "setup")

    return CfgProbe


_SPEC = {}       # what SpecProbe('<i>') builds: filled by run_ctx before a context with a `components` block is created


def SpecProbe(name, variant="v0"):
    """Named in a model specification's `components` block as props.c20.SpecProbe('<name>'[, '<variant>']): the parser plugin
    imports this module by path and calls it with the string arguments; it returns a NEW probe object for the top-level
    item of the current case registered under that description (the same description twice = two components of one name)."""
    return build_objects([_SPEC["by_desc"][(name, variant)]], _SPEC["Probe"], _SPEC["shared"])[0]


def spec_descriptions(items, quotes):
    """one description string per item, in order; identical items get the identical description (up to the quote
    character), items with one name but different content get different arguments"""
    by_desc, descs, seen = {}, [], []
    for i, it in enumerate(items):
        js = json.dumps(it, sort_keys=True)
        hit = [(n, v) for (n, v, j) in seen if j == js]
        if hit:
            name, variant = hit[0]
        else:
            name = it["c"]
            variant = "v%d" % sum(1 for (n, v, j) in seen if n == name)
            seen.append((name, variant, js))
            by_desc[(name, variant)] = it
        q = "'" if not quotes[i % len(quotes)] else '"'
        descs.append(f"SpecProbe({q}{name}{q})" if variant == "v0" else f"SpecProbe({q}{name}{q}, {q}{variant}{q})")
    return descs, by_desc


def arrange_descriptions(descs, nest):
    """the `components` block: one section, a nested list inside the section, or two sections naming the same module"""
    h = max(1, len(descs) // 2)
    if nest == "nested_list" and len(descs) > h:
        return {"props": {"c20": descs[:h] + [descs[h:]]}}
    if nest == "two_sections" and len(descs) > h:
        return {"props": {"c20": descs[:h]}, "props.c20": descs[h:]}
    return {"props": {"c20": list(descs)}}


def read_path(cfg, path):
    """(0, value) | (1, None) interior | (2, None) missing | (3, None) empty node  - through `in`, [] only"""
    from layered_config_tree import LayeredConfigTree
    node = cfg
    for i, k in enumerate(path):
        if not isinstance(node, LayeredConfigTree) or k not in node:
            return (2, None)
        try:
            node = node[k]
        except Exception:
            return (3, None)
    if isinstance(node, LayeredConfigTree):
        return (1, None)
    return (0, node)


def subtree(cfg, path):
    from layered_config_tree import LayeredConfigTree
    node = cfg
    for k in path:
        if not isinstance(node, LayeredConfigTree) or k not in node:
            return None
        node = node.get_tree(k) if isinstance(node.get(k), LayeredConfigTree) else None
        if node is None:
            return None
    return node


def classify_cfg_error(e):
    from layered_config_tree import ConfigurationError, ConfigurationKeyError, DuplicatedConfigurationError
    if isinstance(e, DuplicatedConfigurationError):
        return 1
    if isinstance(e, ConfigurationKeyError):
        return 4 if "No layer" in str(e) else 5
    if isinstance(e, ConfigurationError):
        return 3 if "Frozen" in str(e) else 2
    return 8


def run_attempts(cfg, paths, attempts, events, when):
    """each modification attempt (update / item assignment / deletion) followed by the reads; appended to `events`"""
    for at in attempts:
        kind, where = at["kind"], at["at"]
        tree = subtree(cfg, where)
        gone = None
        if tree is None:
            code = 9
        else:
            try:
                if kind == "update":
                    tree.update(at["data"], layer=at.get("layer"), source=at.get("source"))
                elif kind == "setitem":
                    tree[at["key"]] = at["value"]
                else:
                    before = at["key"] in tree
                    if kind == "del":
                        del tree[at["key"]]
                    else:
                        delattr(tree, at["key"])
                    gone = before and at["key"] not in tree
                code = 0
            except Exception as e:  # noqa: BLE001
                code = classify_cfg_error(e)
        events.append(("attempt", when, at, code, gone))
        events.append(("reads", when, [read_path(cfg, p) for p in paths]))


# ----------------------------------------------------------------------------------------------------------------
# the generated table
# ----------------------------------------------------------------------------------------------------------------
def ensure_table():
    if _TABLE:
        return _TABLE
    from layered_config_tree import LayeredConfigTree
    from vivarium.framework.engine import SimulationContext
    boot.reset_contexts()
    Probe = make_probe_class()
    shared = {"log": [], "events": [], "paths": [], "attempts": [], "attempted": True}
    probe = Probe("layer_probe", {"comp_marker_key": 3}, [], shared)
    ms = LayeredConfigTree({"configuration": {"spec_marker_key": 1}})       # built BEFORE recording starts
    with Home({"user_marker_key": 0}), Recording() as rec:
        sim = SimulationContext(model_specification=ms, components=[probe], configuration={"over_marker_key": 2},
                                logging_verbosity=0)
    boot.quiet_logging()
    # the layer list: the `layers` argument the context's configuration tree was constructed with (public constructor
    # argument, recorded); only if nothing was recorded, the library's private attribute
    multi = [l for l in rec.layer_lists if len(l) > 1]
    layers = multi[0] if multi else list(getattr(sim.configuration, "_layers", None) or [])
    if not layers:
        raise RuntimeError("could not observe the configuration's layer list")
    mgrs = [(m.name, dict(m.configuration_defaults)) for m in rec.managers]
    mnames = {n for n, _ in mgrs}

    def lay(l):
        return layers[-1] if l is None else l
    w = {"mgr": set(), "comp": set(), "spec": set(), "over": set(), "user": set()}
    for data, layer, source in rec.updates:
        if is_user_yaml(data):
            w["user"].add(lay(layer))
        if source in mnames and isinstance(data, dict) and data:
            w["mgr"].add(lay(layer))
        if source == "layer_probe" and contains_key(data, "comp_marker_key"):
            w["comp"].add(lay(layer))
        if contains_key(data, "spec_marker_key"):
            w["spec"].add(lay(layer))
        if contains_key(data, "over_marker_key"):
            w["over"].add(lay(layer))
    for k, v in w.items():
        if len(v) != 1:
            raise RuntimeError(f"writer `{k}` used the layers {sorted(v)} (expected exactly one) - updates seen: "
                               f"{[(l, s) for _, l, s in rec.updates][:12]}")
    _TABLE.update(layers=layers, l_mgr=w["mgr"].pop(), l_comp=w["comp"].pop(), l_spec=w["spec"].pop(),
                  l_over=w["over"].pop(), l_user=w["user"].pop(), managers=mgrs,
                  seen={"user": read_path(sim.configuration, ["user_marker_key"]),
                        "comp": read_path(sim.configuration, ["comp_marker_key"]),
                        "spec": read_path(sim.configuration, ["spec_marker_key"]),
                        "over": read_path(sim.configuration, ["over_marker_key"])})
    return _TABLE


def tables(run):
    t = ensure_table()
    lines = ["(* GENERATED on every run by harness/props/c20.py from a live SimulationContext - do not edit *)",
             "From Viv Require Import Common Config ConfigProofs Components ComponentsProofs.",
             "From VivProps Require Import C20.",
             "Local Open Scope Z_scope.", "",
             "(* the layer list the context's configuration tree was constructed with: " + ", ".join(f"{LAYERS(l)} = {l}" for l in t["layers"]) + " *)",
             "Definition cfg_layers : list Z := " + czlist(LAYERS(l) for l in t["layers"]) + ".",
             f"Definition l_user : Z := {cz(LAYERS(t['l_user']))}.   (* layer used for ~/vivarium.yaml: {t['l_user']} *)",
             f"Definition l_mgr : Z := {cz(LAYERS(t['l_mgr']))}.    (* layer used for manager defaults: {t['l_mgr']} *)",
             f"Definition l_comp : Z := {cz(LAYERS(t['l_comp']))}.   (* layer used for component defaults: {t['l_comp']} *)",
             f"Definition l_spec : Z := {cz(LAYERS(t['l_spec']))}.   (* layer used for the model specification: {t['l_spec']} *)",
             f"Definition l_over : Z := {cz(LAYERS(t['l_over']))}.   (* layer used for the configuration keyword argument: {t['l_over']} *)",
             "(* managers handed to ComponentManager.add_managers, in order, with their configuration_defaults *)",
             "Definition mgr_table : list centry := " + clist("\n  " + cpair(cz(NAMES(n)), cdict(d)) + f" (* {n} *)" for n, d in t["managers"]) + ".",
             "",
             "(* manager and component defaults, and ~/vivarium.yaml, are written strictly below BOTH user layers *)",
             "Theorem C20_layers_ok : layers_okb cfg_layers l_user l_mgr l_comp l_spec l_over = true.",
             "Proof. vm_compute. reflexivity. Qed.",
             "Lemma mgr_table_wf : wf_entries mgr_table.",
             "Proof. apply wf_entries_b_sound. vm_compute. reflexivity. Qed.",
             "(* ... hence, for the context as it is built TODAY: a key the user gave a value for reads as a user value, else the default *)",
             "Theorem C20_user_wins_today : forall user spec over is ctx p,",
             "  wf_data (DDict user) -> wf_data (DDict spec) -> wf_data (DDict over) -> wf_entries (pre_all is) ->",
             "  build_context cfg_layers l_user l_mgr l_comp l_spec l_over mgr_table user spec over is = Ok ctx ->",
             "  (forall v, dleaf (DDict over) p = Some v -> dleaf (DDict spec) p = None \\/ below cfg_layers l_spec l_over ->",
             "             get cfg_layers (c_cfg ctx) p = LVal v) /\\",
             "  (forall v, dleaf (DDict spec) p = Some v -> dleaf (DDict over) p = None \\/ below cfg_layers l_over l_spec ->",
             "             get cfg_layers (c_cfg ctx) p = LVal v) /\\",
             "  (forall vo vs, dleaf (DDict over) p = Some vo -> dleaf (DDict spec) p = Some vs ->",
             "             get cfg_layers (c_cfg ctx) p = LVal vo \\/ get cfg_layers (c_cfg ctx) p = LVal vs) /\\",
             "  (forall X d l n Y v, dleaf (DDict over) p = None -> dleaf (DDict spec) p = None ->",
             "     dleaf (DDict user) p = None \\/ below cfg_layers l_user l ->",
             "     default_updates l_mgr l_comp mgr_table is = X ++ (d, l, n) :: Y -> dleaf (DDict d) p = Some v ->",
             "     (forall d' l' n', In (d', l', n') (X ++ Y) -> dleaf (DDict d') p = None) ->",
             "     get cfg_layers (c_cfg ctx) p = LVal v) /\\",
             "  (forall v, dleaf (DDict over) p = None -> dleaf (DDict spec) p = None ->",
             "     (forall d' l' n', In (d', l', n') (default_updates l_mgr l_comp mgr_table is) -> dleaf (DDict d') p = None) ->",
             "     dleaf (DDict user) p = Some v -> get cfg_layers (c_cfg ctx) p = LVal v).",
             "Proof.",
             "  destruct (C20_layers_okb_sound _ _ _ _ _ _ C20_layers_ok) as [H1 [H2 [H3 [H4 [H5 [H8 H9]]]]]].",
             "  intros user spec over is ctx p W0 W1 W2 W3 Hb.",
             "  apply (C20_user_wins cfg_layers l_user l_mgr l_comp l_spec l_over H1 H8 H9 H2 H3 H4 H5 mgr_table user spec over is ctx p",
             "           W0 W1 W2 mgr_table_wf W3 Hb).",
             "Qed.",
             "(* the markers written while the table was recorded read back as the model says *)",
             "Example markers_read_back :",
             "  match build_context cfg_layers l_user l_mgr l_comp l_spec l_over mgr_table " +
             f"[({cz(KEYS('user_marker_key'))}, DVal {cz(val_id(0))})] " +
             f"[({cz(KEYS('spec_marker_key'))}, DVal {cz(val_id(1))})] [({cz(KEYS('over_marker_key'))}, DVal {cz(val_id(2))})] " +
             f"[Comp {cz(NAMES('layer_probe'))} [({cz(KEYS('comp_marker_key'))}, DVal {cz(val_id(3))})] []] with",
             "  | Ok ctx => (look_code (get cfg_layers (c_cfg ctx) " + cpath(["user_marker_key"]) + "), look_code (get cfg_layers (c_cfg ctx) " + cpath(["comp_marker_key"]) + "), look_code (get cfg_layers (c_cfg ctx) " +
             cpath(["spec_marker_key"]) + "), look_code (get cfg_layers (c_cfg ctx) " + cpath(["over_marker_key"]) + "))",
             "  | _ => ((9, 0), (9, 0), (9, 0), (9, 0))",
             "  end = (" + ", ".join(cpair(cz(c), cz(val_id(v) if c == 0 else 0)) for c, v in
                                     (t["seen"]["user"], t["seen"]["comp"], t["seen"]["spec"], t["seen"]["over"])) + ").",
             "Proof. vm_compute. reflexivity. Qed.",
             "Print Assumptions C20_layers_ok.", "Print Assumptions C20_user_wins_today.", ""]
    if max(t["layers"].index(t["l_user"]), 0) < min(t["layers"].index(t["l_mgr"]), t["layers"].index(t["l_comp"])):
        lines += ["(* as documented today: ~/vivarium.yaml lies below the defaults of managers and components *)",
                  "Example user_yaml_below_defaults : belowb cfg_layers l_user l_mgr && belowb cfg_layers l_user l_comp = true.",
                  "Proof. vm_compute. reflexivity. Qed.", ""]
    if t["layers"].index(t["l_spec"]) < t["layers"].index(t["l_over"]):
        lines += ["(* as documented today: the keyword arguments' layer lies above the model specification's *)",
                  "Example keyword_arguments_above_model_specification : belowb cfg_layers l_spec l_over = true.",
                  "Proof. vm_compute. reflexivity. Qed.", ""]
    return [("ConfigLayers_C20.v", "\n".join(lines))]


# ----------------------------------------------------------------------------------------------------------------
# stream `ctx`
# ----------------------------------------------------------------------------------------------------------------
PATHS = [["alpha"], ["alpha", "x"], ["alpha", "y"], ["alpha", "deep", "z"], ["beta"], ["beta", "x"], ["gamma"],
         ["population", "population_size"], ["delta", "w"]]
MANAGER_NAMES = ["population_manager", "datetime_clock", "randomness_manager", "results_manager"]


def nest(pairs):
    """[(path, value)] -> nested dict; a later pair that conflicts structurally with an earlier one is dropped"""
    out = {}
    for path, v in pairs:
        d, ok = out, True
        for k in path[:-1]:
            if k not in d:
                d[k] = {}
            if not isinstance(d[k], dict):
                ok = False
                break
            d = d[k]
        if ok and not isinstance(d.get(path[-1]), dict):
            d[path[-1]] = v
    return out


def gen_cfgdict(rng, p_each, allow_pop=True):
    pairs = []
    for path in PATHS:
        if path[0] == "population" and not allow_pop:
            continue
        if len(path) == 1 and path[0] in ("alpha", "beta") and rng.random() < 0.8:
            continue                          # a leaf where others have an interior node: kept rare
        if rng.random() < p_each:
            pairs.append((path, rng.randint(1, 3) if path[0] == "population" else rng.choice([0, 1, 2, 5, 7, "s", True, None, [1, 2]])))
    rng.shuffle(pairs)
    return nest(pairs)


def gen_forest(rng):
    budget = [rng.choice([0, 1, 2, 3, 4, 5, 6, 8, 10, 12, 14])]
    counter = [0]
    used = []
    p_default = rng.choice([0.0, 0.3, 0.6, 0.9])      # probability that a component has defaults at all
    p_clash = rng.choice([0.0, 0.0, 0.03, 0.1])       # probability that it may reuse a key path another one already defaults
    taken = []

    def gen_defaults():
        if rng.random() >= p_default:
            return {}
        pairs = []
        for path in rng.sample(PATHS, rng.randint(1, 2)):
            if path[0] == "population" and rng.random() < 0.85:
                continue                                  # a manager's own key: mostly left alone
            if path in taken and rng.random() >= p_clash:
                continue
            if len(path) == 1 and path[0] in ("alpha", "beta") and rng.random() < 0.8:
                continue
            taken.append(path)
            pairs.append((path, rng.choice([0, 1, 2, 5, 7, "s", True, None, [1, 2]]) if path[0] != "population" else rng.randint(1, 3)))
        return nest(pairs)
    p_dup = rng.choice([0.0, 0.0, 0.0, 0.04, 0.12])
    p_mgr = rng.choice([0.0, 0.0, 0.0, 0.05])

    def fresh_name():
        r = rng.random()
        if r < p_dup and used:
            return rng.choice(used)                       # duplicate, planted wherever we happen to be
        if r < p_dup + p_mgr:
            return rng.choice(MANAGER_NAMES)
        counter[0] += 1
        return f"c{counter[0]}"

    def gen_items(depth, maxn):
        items = []
        for _ in range(rng.randint(1 if depth == 1 else 0, maxn)):
            if budget[0] <= 0:
                break
            if rng.random() < 0.2 and depth < 4:
                items.append({"g": gen_items(depth + 1, 3), "tuple": rng.random() < 0.5})
            else:
                budget[0] -= 1
                nm = fresh_name()
                used.append(nm)
                items.append({"c": nm, "d": gen_defaults(),
                              "s": gen_items(depth + 1, 4) if depth < 4 and rng.random() < 0.55 else []})
        return items
    items = []
    while budget[0] > 0 and len(items) < 7:
        items += gen_items(1, 4)
    rng.shuffle(items)
    return items


DEL_KEYS = {(): ["alpha", "beta", "gamma", "population", "time", "nope"], ("alpha",): ["x", "y", "deep", "nope"],
            ("population",): ["population_size"], ("beta",): ["x"]}


def gen_attempts(rng, p_del):
    out = []
    for _ in range(rng.randint(1, 3)):
        where = rng.choice([[], [], ["alpha"], ["beta"], ["population"], ["alpha", "deep"]])
        r = rng.random()
        if r < p_del:                                   # open finding F-AA: deletion is not refused
            where = rng.choice([[], [], ["alpha"], ["population"], ["beta"]])
            out.append({"kind": rng.choice(["del", "del", "delattr"]), "at": where, "key": rng.choice(DEL_KEYS[tuple(where)])})
        elif r < p_del + (1 - p_del) * 0.65:
            out.append({"kind": "update", "at": where, "data": gen_cfgdict(rng, 0.25) or {"new_key": 1},
                        "layer": rng.choice([None, "override", "base", "component_configs"]), "source": rng.choice([None, "evil"])})
        else:
            out.append({"kind": "setitem", "at": where, "key": rng.choice(["alpha", "beta", "x", "population_size", "gamma"]),
                        "value": rng.choice([1, 99, {"x": 1}])})
    return out


def gen_ctx(rng):
    p_del = rng.choice([0.0, 0.0, 0.0, 0.4])
    forest = gen_forest(rng)
    via = rng.choice(["ctor", "add", "add", "spec", "spec", "spec+ctor", "spec+add"])
    case = {"forest": forest, "user": gen_cfgdict(rng, 0.3) if rng.random() < 0.3 else {},
            "spec": gen_cfgdict(rng, rng.choice([0.0, 0.15, 0.3])),
            "over": gen_cfgdict(rng, rng.choice([0.0, 0.15, 0.3])), "via": via,
            "spec_as": rng.choice(["tree", "none_if_empty"]), "attempts": gen_attempts(rng, p_del),
            "outside": gen_attempts(rng, p_del) if rng.random() < 0.5 else []}
    if via in ("add", "spec+add") and len(forest) > 1 and rng.random() < 0.5:
        case["split"] = rng.randint(1, len(forest) - 1)       # two add_components calls (clashes with what is registered already)
    if via == "add" and rng.random() < 0.12:
        case["junk"] = {"kind": rng.choice(list(JUNK)), "pos": rng.randint(0, 4), "nested": rng.random() < 0.3}
    if via.startswith("spec"):
        comps = [i for i, it in enumerate(forest) if "c" in it]
        lead = 0
        while lead < len(forest) and "c" in forest[lead]:
            lead += 1
        case["spec_n"] = rng.randint(1, max(1, lead))
        case["spec_style"] = {"quotes": [rng.randint(0, 1) for _ in range(rng.randint(1, 4))],
                              "nest": rng.choice(["flat", "nested_list", "two_sections"]), "yaml": rng.random() < 0.3}
        if comps and rng.random() < 0.4:
            # the SAME component described twice (identical description, perhaps other quotes / another section / the second
            # one supplied as an instance), or one name with different content (different arguments)
            src = copy.deepcopy(forest[rng.choice(comps)])
            if rng.random() < 0.3:
                src["d"] = {}
                src["s"] = []
            if via == "spec" or rng.random() < 0.5:
                pos = rng.randint(0, lead) if lead else 0
                forest.insert(pos, src)
                if via != "spec":
                    case["spec_n"] = min(case["spec_n"] + (1 if pos < case["spec_n"] else 0), lead + 1)
            else:
                forest.append(src)                 # spec + instance of the same name
    return case


def flat_names(items):
    """pre-order list of (name, defaults) and the parent->child edges, computed by plain recursion (the oracle's own)"""
    out, edges = [], []

    def heads(it):
        return [it["c"]] if "c" in it else [h for x in it["g"] for h in heads(x)]

    def go(it):
        if "c" in it:
            out.append((it["c"], it["d"]))
            for s in it["s"]:
                for h in heads(s):
                    edges.append((it["c"], h))
                go(s)
        else:
            for s in it["g"]:
                go(s)
    for it in items:
        go(it)
    return out, edges


def leaves(d, prefix=()):
    for k, v in d.items():
        if isinstance(v, dict):
            yield from leaves(v, prefix + (k,))
        else:
            yield prefix + (k,), v


def citem(it):
    if "c" in it:
        return f"(Comp {cz(NAMES(it['c']))} {cdict(it['d'])} {clist(citem(s) for s in it['s'])})"
    return f"(Group {clist(citem(s) for s in it['g'])})"


def build_objects(items, Probe, shared):
    out = []
    for it in items:
        if "c" in it:
            out.append(Probe(it["c"], it["d"], build_objects(it["s"], Probe, shared), shared))
        else:
            g = build_objects(it["g"], Probe, shared)
            out.append(tuple(g) if it.get("tuple") else g)
    return out


def ccops(paths, events, only=None):
    """the events of one context (reads of every probe, the first probe's attempts, the attempts from outside after
    setup) as ONE sequential cop list"""
    out = []
    for ev in events:
        if ev[0] == "reads":
            out += [f"CGet {cpath(p)} {cpair(cz(c), cz(val_id(v) if c == 0 else 0))}"
                    for i, (p, (c, v)) in enumerate(zip(paths, ev[2])) if only is None or i in only]
            continue
        _, _, at, code, _ = ev
        if at["kind"] == "update":
            layer = at.get("layer")
            out.append(f"CUpdate {cpath(at['at'])} {cdict(at['data'])} {copt(None if layer is None else LAYERS(layer), cz)} "
                       f"{cz(src_id(at.get('source')))} {cz(code)}")
        elif at["kind"] == "setitem":
            out.append(f"CSetItem {cpath(at['at'])} {cz(KEYS(at['key']))} {cdata(at['value'])} {cz(code)}")
        else:
            out.append(f"CDel {cpath(at['at'])} {cz(KEYS(at['key']))} {cz(code)}")
    return clist([clist(out)])


def finding_of_ctx(case, res):
    """F-AA: the ONLY thing wrong with the case is that a deletion on the frozen configuration went through"""
    classes = (res.obs or {}).get("failure_classes") or []
    return "F-AA" if classes and set(classes) == {"F-AA"} else None


JUNK = {"int": 42, "str": "not a component", "none": None, "obj": object}


def realise(case, retry_names=()):
    """Build ONE real context for the case and set it up; `retry_names`: after a refused add_components, components of
    these names (fresh objects, no defaults) are added before setup.  Returns every observation as a dict."""
    from layered_config_tree import LayeredConfigTree
    from vivarium.framework.engine import SimulationContext
    boot.reset_contexts()
    Probe = make_probe_class()
    shared = {"log": [], "events": [], "paths": PATHS, "attempts": case["attempts"], "attempted": False, "cfg": None}
    via = case.get("via") or ("ctor" if case.get("via_constructor") else "add")
    forest = case["forest"]
    n_spec = 0
    if via.startswith("spec"):
        want = len(forest) if via == "spec" else max(1, min(case.get("spec_n", 1), len(forest)))
        while n_spec < want and n_spec < len(forest) and "c" in forest[n_spec]:
            n_spec += 1                               # only components (no nested list) can be named in the block
        if via == "spec" and n_spec < len(forest):
            via = "spec+add"
        if n_spec == 0:
            via = "add"
    rest = forest[n_spec:]
    if any("g" in it for it in rest) and via in ("ctor", "spec+ctor"):
        via = "add" if via == "ctor" else "spec+add"   # a nested list at top level can only be handed to add_components
    # the batches handed to add_components (one, or two; the last one may hold an object that is no component)
    split = case.get("split")
    batches = [rest]
    if via in ("add", "spec+add") and split is not None and 0 < split < len(rest):
        batches = [rest[:split], rest[split:]]
    junk = case.get("junk") if via in ("add", "spec+add") else None
    spec = case["spec"]
    spec_tree = {"configuration": spec}
    yaml_path = None
    if n_spec:                 # the components block of the model specification -> ComponentConfigurationParser
        style = case.get("spec_style") or {}
        descs, by_desc = spec_descriptions(forest[:n_spec], style.get("quotes") or [0])
        _SPEC.update(by_desc=by_desc, Probe=Probe, shared=shared)
        spec_tree = {"components": arrange_descriptions(descs, style.get("nest", "flat")), "configuration": spec}
        if style.get("yaml"):
            import tempfile
            import yaml
            fd, yaml_path = tempfile.mkstemp(prefix="verif_c20_", suffix=".yaml")
            with os.fdopen(fd, "w") as fh:
                yaml.safe_dump(spec_tree, fh, sort_keys=False)
    if yaml_path:
        ms = yaml_path
    else:
        ms = None if (case["spec_as"] == "none_if_empty" and not spec and not n_spec) else LayeredConfigTree(spec_tree)
    built, setup_ok, build_err, setup_err = True, None, None, None
    sim, add_refused, junk_refused, accepted_batches, retry_err = None, False, False, 0, None
    user = case.get("user") or {}
    with Home(user), Recording() as rec:
        try:
            sim = SimulationContext(model_specification=ms, components=build_objects(rest, Probe, shared) if via in ("ctor", "spec+ctor") else [],
                                    configuration=case["over"], logging_verbosity=0)
            if via in ("add", "spec+add"):
                for bi, batch in enumerate(batches):
                    objs = build_objects(batch, Probe, shared)
                    is_last = bi == len(batches) - 1
                    if junk is not None and is_last:
                        thing = JUNK[junk["kind"]]
                        thing = thing() if junk["kind"] == "obj" else thing
                        if junk.get("nested") and objs and hasattr(objs[0], "vp_subs"):
                            objs[0].vp_subs = list(objs[0].vp_subs) + [thing]        # among the sub-components of the first one
                        else:
                            objs.insert(min(junk.get("pos", 0), len(objs)), thing)
                    try:
                        sim.add_components(objs)
                        accepted_batches += 1
                    except Exception as e:  # noqa: BLE001
                        built, build_err, add_refused = False, e, True
                        junk_refused = junk is not None and is_last
                        break
                if add_refused:
                    for n in retry_names:          # a correct component of a name that is NOT registered must be accepted
                        try:
                            sim.add_components([Probe(n, {}, [], shared)])
                        except Exception as e:  # noqa: BLE001
                            retry_err = (n, e)
                            break
        except Exception as e:  # noqa: BLE001
            built, build_err = False, e
    boot.quiet_logging()
    if yaml_path:
        try:
            os.remove(yaml_path)
        except OSError:
            pass
    mgr_objs = list(rec.managers)
    partial = None
    if built or add_refused:
        for m in mgr_objs:                       # record every manager's set-up call (instance-level, calls through)
            def wrap(m=m, orig=m.setup):
                def setup(builder, *a, **k):
                    shared["log"].append(m.name)
                    return orig(builder, *a, **k)
                return setup
            try:
                m.setup = wrap()
            except Exception:
                pass
        if add_refused:
            shared["attempted"] = True           # no modification attempts in this (partially filled) context
        try:
            sim.setup()
            setup_ok = True
        except Exception as e:  # noqa: BLE001
            setup_ok, setup_err = False, e
        boot.quiet_logging()
        if add_refused:
            partial = (bool(setup_ok), list(shared["log"]))
        elif setup_ok and case.get("outside") and shared["cfg"] is not None:
            run_attempts(shared["cfg"], PATHS, case["outside"], shared["events"], "after_setup")
    model_forest = forest
    if junk_refused:                             # the model sees what the earlier batches held
        model_forest = forest[:n_spec] + (batches[0] if len(batches) > 1 else [])
    return dict(shared=shared, via=via, n_spec=n_spec, spec=spec, user=user, built=built, setup_ok=setup_ok, build_err=build_err,
                setup_err=setup_err, partial=partial, yaml=bool(yaml_path), junk_refused=junk_refused, model_forest=model_forest,
                retry_err=retry_err, add_refused=add_refused)


def overlaps_path(p, q):
    p, q = tuple(p), tuple(q)
    return p[:len(q)] == q or q[:len(p)] == p


def run_ctx(case):
    t = ensure_table()
    o = realise(case)
    shared, via, n_spec, spec, user = o["shared"], o["via"], o["n_spec"], o["spec"], o["user"]
    built, setup_ok, build_err, setup_err, partial = o["built"], o["setup_ok"], o["build_err"], o["setup_err"], o["partial"]
    yaml_path = o["yaml"]
    forest = o["model_forest"]
    # ---------------- direct oracle ----------------
    failures = []        # (class, message)

    def fail(m, cls="other"):
        failures.append((cls, m))
    flat, edges = flat_names(forest)          # (with a refused non-component batch: what the earlier batches held)
    junk_refused = o["junk_refused"]
    names = [n for n, _ in flat]
    mnames = [n for n, _ in t["managers"]]
    dup = len(set(names)) != len(names)
    like_manager = any(n in mnames for n in names)
    default_leaves, default_value = {}, {}
    for n, d in t["managers"] + flat:
        for p, v in leaves(d):
            default_leaves.setdefault(p, []).append(n)
            default_value[p] = v
    clash = any(len(v) > 1 for v in default_leaves.values())
    if (dup or like_manager or clash) and built and setup_ok:
        fail(f"duplicate names ({dup}) / a manager's name ({like_manager}) / two defaults for one key ({clash}) were accepted: "
             f"components {names}")
    # every legitimate combination must be accepted: user values over keys that components / managers default included
    sources = [dict(leaves(case["spec"])), dict(leaves(case["over"]))] + [dict(leaves(d)) for _, d in t["managers"] + flat] + \
              [dict(leaves(user))]

    def structural(a, b):
        return any(pa != pb and (pa[:len(pb)] == pb or pb[:len(pa)] == pa) for pa in a for pb in b)
    struct = any(structural(a, b) for i, a in enumerate(sources) for b in sources[i:])
    both_user = set(sources[0]) & set(sources[1])
    if case.get("junk") and o["add_refused"] is False and built and via in ("add", "spec+add"):
        fail(f"a batch holding an object that is no component ({case['junk']}) was accepted")
    if not (dup or clash or struct or both_user or junk_refused) and not built:
        fail(f"a legitimate context was refused ({build_err!r}): components {names}, model specification {case['spec']}, "
             f"keyword arguments {case['over']} - user values for keys that components default must be accepted")
    if not (dup or clash or struct or both_user or like_manager) and built and not setup_ok:
        fail(f"setup of a legitimate context was refused ({setup_err!r}): components {names}")
    log = shared["log"]
    nm = len(mnames)
    if partial is not None and partial[0]:
        # a refused batch is not rolled back: whatever stayed registered is set up - once, managers first, parent first
        clog = log[nm:]
        if sorted(log[:nm]) != sorted(mnames):
            fail(f"after a refused add_components: the first {nm} set-up calls are {log[:nm]}, not the managers")
        if len(set(clog)) != len(clog) or any(c not in names for c in clog):
            fail(f"after a refused add_components the components set up are {clog} (supplied {names})")
        for p, c in edges:
            if names.count(c) == 1 and c in clog and (p not in clog or clog.index(p) > clog.index(c)):
                fail(f"after a refused add_components {c} was set up without / before its parent {p}: {clog}")
        # ... and it is CONSISTENT: no component whose defaults were refused is among the registered ones
        unique = {n: d for n, d in flat if names.count(n) == 1}
        reg_leaves = {}
        for n, d in t["managers"] + [(n, unique[n]) for n in clog if n in unique]:
            for pth, v in leaves(d):
                reg_leaves.setdefault(pth, []).append((n, v))
        for pth, who in reg_leaves.items():
            if len(who) > 1:
                fail(f"after a refused add_components {[w for w, _ in who]} are all registered / set up although they default the same "
                     f"key {'.'.join(pth)}: the component whose defaults were refused must not stay registered")
        # key paths no refused component may have touched (a refused component's update can be applied in part, a
        # duplicate-named one in full, before the refusal): everything else must read as the registered components make it
        dirty = []
        others = [dict(leaves(case["spec"])), dict(leaves(case["over"])), dict(leaves(user))] + \
                 [dict(leaves(d)) for _, d in t["managers"]] + [dict(leaves(unique[n])) for n in clog if n in unique]
        for n, d in flat:
            if n in clog and names.count(n) == 1:
                continue
            mine = dict(leaves(d))
            may_leak = names.count(n) != 1 or any(q in reg_leaves for q in mine) or any(structural(mine, x) for x in others)
            if may_leak:
                dirty += list(mine)
        clean_idx = [i for i, pth in enumerate(PATHS) if not any(overlaps_path(pth, q) for q in dirty)]
        reads = [ev for ev in shared["events"] if ev[0] == "reads"]
        if reads:
            over_l, spec_l, user_l = dict(leaves(case["over"])), dict(leaves(case["spec"])), dict(leaves(user))
            for i in clean_idx:
                tp = tuple(PATHS[i])
                code, v = reads[0][2][i]
                if tp in over_l:
                    want = over_l[tp]
                elif tp in spec_l:
                    want = spec_l[tp]
                elif tp in reg_leaves and len(reg_leaves[tp]) == 1:
                    want = reg_leaves[tp][0][1]
                    if tp in user_l:
                        lay_d = t["l_mgr"] if reg_leaves[tp][0][0] in mnames else t["l_comp"]
                        if t["layers"].index(t["l_user"]) > t["layers"].index(lay_d):
                            want = user_l[tp]
                elif tp not in reg_leaves and tp in user_l:
                    want = user_l[tp]
                elif tp not in reg_leaves and not any(overlaps_path(tp, q) for src in others for q in src):
                    if code == 0:
                        fail(f"after a refused add_components {'.'.join(tp)} reads {v!r} although no registered component, manager "
                             f"or user source sets it: defaults of a component that is NOT registered are in the configuration")
                    continue
                else:
                    continue
                if code != 0 or json.dumps(v, default=str) != json.dumps(want, default=str):
                    fail(f"after a refused add_components {'.'.join(tp)} reads {(code, v)}, expected {want!r} from what is registered")
            if any(r[2] != reads[0][2] for r in reads):
                fail("two components saw different configurations during the setup after a refused add_components")
        # a correct component of a name that is not registered must be accepted afterwards (second, identical context)
        retry = [n for n in dict.fromkeys(names) if n not in clog and n not in mnames]
        if retry:
            o2 = realise(case, retry_names=retry)
            if o2["retry_err"] is not None:
                fail(f"after a refused add_components, {o2['retry_err'][0]} is not registered, yet a new component of that name is refused: "
                     f"{o2['retry_err'][1]!r}")
            elif o2["partial"] is not None and o2["partial"][0]:
                log2 = o2["shared"]["log"][nm:]
                if sorted(log2) != sorted(clog + retry):
                    fail(f"after a refused add_components and a correct add of {retry}: components set up {log2}, expected {sorted(clog + retry)}")
    if built and setup_ok:
        if sorted(log[:nm]) != sorted(mnames):
            fail(f"the first {nm} set-up calls are {log[:nm]}, not the managers {mnames}")
        clog = log[nm:]
        if sorted(clog) != sorted(names):
            fail(f"components set up: {clog}; components supplied: {names}")
        for p, c in edges:
            if p in clog and c in clog and clog.index(p) > clog.index(c):
                fail(f"{c} was set up before its parent {p}: {clog}")
        events = shared["events"]
        reads = [ev for ev in events if ev[0] == "reads"]
        if reads:
            first = reads[0][2]
            for path, (code, v) in zip(PATHS, first):
                tp = tuple(path)
                over_l, spec_l = dict(leaves(case["over"])), dict(leaves(case["spec"]))
                if tp in over_l:
                    want = over_l[tp]
                elif tp in spec_l:
                    want = spec_l[tp]
                elif tp in default_leaves and len(default_leaves[tp]) == 1:
                    want = default_value[tp]
                    if tp in dict(leaves(user)):             # both a default and ~/vivarium.yaml: the higher layer (as observed)
                        lay_d = t["l_mgr"] if default_leaves[tp][0] in mnames else t["l_comp"]
                        if t["layers"].index(t["l_user"]) > t["layers"].index(lay_d):
                            want = dict(leaves(user))[tp]
                elif tp not in default_leaves and tp in dict(leaves(user)):
                    want = dict(leaves(user))[tp]            # ~/vivarium.yaml where nobody else sets the key
                else:
                    continue
                if code != 0 or json.dumps(v, default=str) != json.dumps(want, default=str):
                    fail(f"{'.'.join(path)} reads {(code, v)} during setup; keyword argument {over_l.get(tp, '-')}, "
                         f"model specification {spec_l.get(tp, '-')}, defaults by {default_leaves.get(tp, [])}, "
                         f"~/vivarium.yaml {dict(leaves(user)).get(tp, '-')}")
            # FROZEN: nothing a component (or anybody, later) does changes what the configuration reads
            prev, cause = first, None
            for ev in events[1:]:
                if ev[0] == "attempt":
                    _, when, at, code, gone = ev
                    cause = (when, at)
                    if at["kind"] in ("del", "delattr"):
                        if gone:
                            fail(f"{at['kind']} of {'.'.join(at['at'] + [at['key']])} went through ({when}) although the "
                                 f"configuration is frozen", "F-AA")
                    elif code == 0 and not (at["kind"] == "update" and not at["data"]):
                        fail(f"the frozen configuration accepted {at} ({when})")
                else:
                    if ev[2] != prev:
                        is_del = cause is not None and cause[1]["kind"] in ("del", "delattr")
                        fail(f"the configuration reads differently after {cause} (setup had begun)", "F-AA" if is_del else "other")
                    prev = ev[2]
    ok = not failures
    msg = failures[0][1] if failures else ""
    others = [m for c, m in failures if c != "F-AA"]
    if others:
        msg = others[0]
    # ---------------- Coq ----------------
    cops = ccops(PATHS, shared["events"]) if (built and setup_ok and shared["events"]) else "[]"
    if partial is not None and partial[0] and shared["events"]:
        cops = ccops(PATHS, shared["events"], only=clean_idx)
    cpartial = "None" if partial is None else "(Some (%s, %s))" % (cbool(partial[0]), czlist(NAMES(n) for n in partial[1]) if partial[0] else "[]")
    coq = ("{| x_forest := %s; x_user := %s; x_spec := %s; x_over := %s; x_built := %s; x_setup := %s; x_log := %s; x_junk := %s; x_partial := %s; x_cops := %s |}" % (
        clist(citem(it) for it in forest), cdict(user), cdict(spec), cdict(case["over"]), cbool(built), cbool(bool(setup_ok) and built),
        czlist(NAMES(n) for n in log) if (built and setup_ok) else "[]", cbool(junk_refused), cpartial, cops))
    exact = (built and setup_ok and log[len(mnames):] == names)
    ndel = sum(1 for a in case["attempts"] + case.get("outside", []) if a["kind"] in ("del", "delattr"))
    tags = ("built" if built else "build_rejected:" + type(build_err).__name__,
            ("setup_ok" if setup_ok else "setup_rejected:" + type(setup_err).__name__) if built else
            ("no_setup" if partial is None else ("partial_setup_ok" if partial[0] else "partial_setup_rejected")),
            f"n{min(len(names), 14) // 3 * 3}", "dup" if dup else "nodup", "clash" if clash else "noclash", "via_" + via,
            ("spec_yaml" if yaml_path else "spec_tree") if n_spec else "no_spec_block",
            "spec_dup" if n_spec and len({it["c"] for it in forest[:n_spec]}) < n_spec else "spec_nodup",
            "deletions" if ndel else "no_deletions", "user_yaml" if user else "no_user_yaml") + \
           ((("refused_nonComponent" if junk_refused else "refused_" + type(build_err).__name__),) if partial is not None else ()) + ((("preorder_exact" if exact else "other_valid_order"),) if built and setup_ok else ())
    nontrivial = bool(names) or bool(spec) or bool(case["over"]) or bool(user)
    return Result(ok=ok, msg=msg, coq=coq, key=json.dumps(case, sort_keys=True) if nontrivial else None,
                  obs={"built": built, "setup": setup_ok, "log": log[len(mnames):][:20], "error": repr(build_err or setup_err)[:200],
                       "failure_classes": sorted({c for c, _ in failures})},
                  tags=tags)


def shrink_ctx(case):
    """smaller variants: drop a component (any depth, keeping or dropping its sub-tree), its defaults, a configuration key of
    any source, an attempt, the special supply routes"""
    def forests(items):
        for i, it in enumerate(items):
            yield items[:i] + items[i + 1:]
            kids = it["s"] if "c" in it else it["g"]
            yield items[:i] + kids + items[i + 1:]                        # splice the children in its place
            for sub in forests(kids):
                yield items[:i] + [dict(it, **({"s": sub} if "c" in it else {"g": sub}))] + items[i + 1:]
            if "c" in it and it["d"]:
                yield items[:i] + [dict(it, d={})] + items[i + 1:]
    for f in forests(case["forest"]):
        yield dict(case, forest=copy.deepcopy(f))
    for src in ("user", "spec", "over"):
        for k in list(case.get(src) or {}):
            d = dict(case[src])
            del d[k]
            yield dict(case, **{src: d})
    for lst in ("attempts", "outside"):
        for i in range(len(case.get(lst) or [])):
            yield dict(case, **{lst: case[lst][:i] + case[lst][i + 1:]})
    if case.get("via") not in ("add", None):
        yield dict(case, via="add")
    for k in ("split", "junk"):
        if case.get(k) is not None:
            yield {x: v for x, v in case.items() if x != k}
    if (case.get("spec_style") or {}).get("yaml"):
        yield dict(case, spec_style=dict(case["spec_style"], yaml=False))
    if (case.get("spec_style") or {}).get("nest", "flat") != "flat":
        yield dict(case, spec_style=dict(case["spec_style"], nest="flat"))


def shrink_cfg(case):
    for i in range(len(case["ops"])):
        yield dict(case, ops=case["ops"][:i] + case["ops"][i + 1:])
    for i, op in enumerate(case["ops"]):
        if op["op"] == "update":
            for k in list(op["data"]):
                d = dict(op["data"])
                del d[k]
                yield dict(case, ops=case["ops"][:i] + [dict(op, data=d)] + case["ops"][i + 1:])


def corpus_ctx():
    leaf = lambda n, d=None, s=None: {"c": n, "d": d or {}, "s": s or []}  # noqa: E731
    att = [{"kind": "update", "at": [], "data": {"alpha": {"x": 9}}, "layer": "override", "source": None},
           {"kind": "setitem", "at": ["alpha"], "key": "x", "value": 99}]
    return [
        # deep nesting with lists / tuples everywhere, defaults below user values
        {"forest": [leaf("a", {"alpha": {"x": 1}}, [leaf("b", None, [leaf("c", {"beta": 5})]), {"g": [leaf("d")], "tuple": True}]),
                    {"g": [leaf("e", {"alpha": {"y": 2}}), {"g": [leaf("f", None, [leaf("g")])], "tuple": False}], "tuple": False}],
         "spec": {"alpha": {"x": 10}}, "over": {"beta": 50}, "via": "add", "spec_as": "tree", "attempts": att, "outside": att},
        # duplicate deep in the tree
        {"forest": [leaf("a", None, [leaf("b", None, [leaf("c")])]), leaf("d", None, [{"g": [leaf("c")], "tuple": False}])],
         "spec": {}, "over": {}, "via": "ctor", "spec_as": "tree", "attempts": att, "outside": []},
        # a component named like a manager
        {"forest": [leaf("a"), leaf("population_manager")], "spec": {}, "over": {}, "via": "ctor", "spec_as": "tree", "attempts": att, "outside": []},
        # two defaults for one key; a default for a manager's key; leaf-vs-interior
        {"forest": [leaf("a", {"gamma": 1}), leaf("b", None, [leaf("c", {"gamma": 1})])], "spec": {}, "over": {}, "via": "ctor",
         "spec_as": "tree", "attempts": att, "outside": []},
        {"forest": [leaf("a", {"population": {"population_size": 2}})], "spec": {}, "over": {}, "via": "ctor", "spec_as": "tree", "attempts": att, "outside": []},
        {"forest": [leaf("a", {"alpha": 5}), leaf("b", {"alpha": {"x": 1}})], "spec": {}, "over": {}, "via": "ctor", "spec_as": "tree", "attempts": att, "outside": []},
        # user values for a manager's key win; all three layers on one key
        {"forest": [leaf("a", {"alpha": {"x": 1}})], "spec": {"alpha": {"x": 2}, "population": {"population_size": 2}},
         "over": {"alpha": {"x": 3}, "population": {"population_size": 3}}, "via": "ctor", "spec_as": "tree", "attempts": att, "outside": []},
    ]


# ----------------------------------------------------------------------------------------------------------------
# stream `cfg`: the library model
# ----------------------------------------------------------------------------------------------------------------
CKEYS = ["a", "b", "c", "d"]


def gen_small_dict(rng, depth=0):
    d = {}
    for k in rng.sample(CKEYS, rng.randint(0, 3)):
        d[k] = gen_small_dict(rng, depth + 1) if depth < 2 and rng.random() < 0.35 else rng.choice([0, 1, 2, "v", None])
    return d


def gen_cfg(rng):
    layers = rng.sample(["base", "user", "comp", "model", "override"], rng.randint(1, 5))
    ops = []
    interior, leafs = [[]], []          # a guess of what exists, only to bias the generator

    def note(at, d):
        for k, v in d.items():
            if isinstance(v, dict):
                if at + [k] not in interior:
                    interior.append(at + [k])
                note(at + [k], v)
            elif at + [k] not in leafs:
                leafs.append(at + [k])
    for i in range(rng.randint(3, 14)):
        r = rng.random()
        at = rng.choice(interior) if rng.random() < 0.85 else rng.choice([["a"], ["b"], ["a", "b"], ["c", "a"]])
        if r < 0.45 or i == 0:
            d = gen_small_dict(rng)
            ops.append({"op": "update", "at": at, "data": d,
                        "layer": rng.choice(layers + layers + [None, None, "nolayer"]), "source": rng.choice([None, "s1", "s2"])})
            note(at, d)
        elif r < 0.55:
            ops.append({"op": "setitem", "at": at, "key": rng.choice(CKEYS), "value": rng.choice([5, 6, {"a": 1}, {}])})
        elif r < 0.63:
            ops.append({"op": "freeze", "at": at})
        elif r < 0.85:
            pool = leafs + interior if rng.random() < 0.8 else [["a"], ["b"], ["a", "b"], ["a", "a"], ["c", "a", "b"], ["d"]]
            ops.append({"op": "get", "path": rng.choice(pool)})
        else:
            pool = leafs if leafs and rng.random() < 0.8 else [["a"], ["b"], ["a", "b"], ["c", "a"], ["d"]]
            ops.append({"op": "meta", "path": rng.choice(pool)})
    return {"layers": layers, "ops": ops}


def run_cfg(case):
    from layered_config_tree import LayeredConfigTree
    layers = case["layers"]
    tree = LayeredConfigTree(layers=list(layers))
    L = Interner(1)
    for l in layers:
        L(l)
    cops, trace, tags = [], [], set()
    ok, msg = True, ""
    n_updates = 0
    root_frozen = False
    for op in case["ops"]:
        kind = op["op"]
        if kind in ("update", "setitem"):
            sub = subtree(tree, op["at"])
            before = [read_path(tree, p) for p in ([["a"], ["b"], ["a", "b"], ["d"]])]
            if sub is None:
                code = 9
            else:
                try:
                    if kind == "update":
                        sub.update(op["data"], layer=op["layer"], source=op["source"])
                        n_updates += 1
                    else:
                        sub[op["key"]] = op["value"]
                    code = 0
                except Exception as e:  # noqa: BLE001
                    code = classify_cfg_error(e)
            tags.add(f"{kind}:{code}")
            if kind == "update":
                layer = op["layer"]
                cops.append(f"CUpdate {cpath(op['at'])} {cdict(op['data'])} {copt(None if layer is None else L(layer), cz)} "
                            f"{cz(src_id(op['source']))} {cz(code)}")
            else:
                cops.append(f"CSetItem {cpath(op['at'])} {cz(KEYS(op['key']))} {cdata(op['value'])} {cz(code)}")
            trace.append([kind, op["at"], code])
            if root_frozen and code == 0 and not (kind == "update" and not op["data"]):
                ok, msg = False, f"the frozen configuration accepted {op}"
            if root_frozen:         # direct oracle: the frozen configuration refuses and nothing readable changes
                after = [read_path(tree, p) for p in ([["a"], ["b"], ["a", "b"], ["d"]])]
                if after != before:
                    ok, msg = False, f"an update refused as frozen changed the configuration: {op}"
            if code not in (0, 9, 5):
                break                # the real object may be partially updated after a rejection: the sequence ends
        elif kind == "freeze":
            sub = subtree(tree, op["at"])             # only (sub)trees are frozen, through the public freeze()
            if sub is not None:
                sub.freeze()
                root_frozen = root_frozen or not op["at"]
                cops.append(f"CFreeze {cpath(op['at'])}")
        elif kind == "get":
            c, v = read_path(tree, op["path"])
            cops.append(f"CGet {cpath(op['path'])} {cpair(cz(c), cz(val_id(v) if c == 0 else 0))}")
            tags.add(f"get:{c}")
        else:
            path = op["path"]
            parent = subtree(tree, path[:-1])
            meta = []
            if parent is not None and path[-1] in parent:
                try:
                    md = parent.metadata(path[-1])
                except Exception:  # noqa: BLE001
                    md = None
                if isinstance(md, list):                  # a ConfigNode's metadata (a sub-tree has none)
                    meta = [(L(m["layer"]), src_id(m["source"]), val_id(m["value"])) for m in md]
            cops.append(f"CMeta {cpath(path)} {clist(cpair(cz(l), cpair(cz(s), cz(v))) for l, s, v in meta)}")
    coq = "(" + cpair(czlist(L(l) for l in layers), clist(cops)) + " : cfg_case)"
    return Result(ok=ok, msg=msg, coq=coq, key=json.dumps(case, sort_keys=True) if n_updates else None,
                  obs={"trace": trace[:20]}, tags=tuple(sorted(tags)) + (f"layers{len(layers)}",))


def corpus_cfg():
    return [
        {"layers": ["base", "comp", "override"], "ops": [
            {"op": "update", "at": [], "data": {"a": {"b": 1}, "c": 2}, "layer": "comp", "source": "s1"},
            {"op": "update", "at": [], "data": {"a": {"b": 5}}, "layer": "override", "source": None},
            {"op": "get", "path": ["a", "b"]}, {"op": "meta", "path": ["a", "b"]},
            {"op": "update", "at": ["a"], "data": {"b": 0}, "layer": "base", "source": "s2"}, {"op": "get", "path": ["a", "b"]},
            {"op": "freeze", "at": ["a"]}, {"op": "update", "at": [], "data": {"d": 1}, "layer": None, "source": None},
            {"op": "get", "path": ["d"]}, {"op": "update", "at": ["a"], "data": {"x": 1}, "layer": "comp", "source": None}]},
        {"layers": ["base", "comp"], "ops": [
            {"op": "update", "at": [], "data": {"a": 1}, "layer": "comp", "source": "s1"},
            {"op": "update", "at": [], "data": {"a": 2}, "layer": "comp", "source": "s2"}]},
        {"layers": ["base"], "ops": [
            {"op": "update", "at": [], "data": {"a": {"b": 1}}, "layer": None, "source": None},
            {"op": "update", "at": [], "data": {"a": 3}, "layer": None, "source": None}]},
        {"layers": ["base", "x"], "ops": [
            {"op": "update", "at": [], "data": {"a": 1}, "layer": "nolayer", "source": None}]},
        {"layers": ["base", "x"], "ops": [
            {"op": "update", "at": [], "data": {"a": {"b": {"c": 1}}}, "layer": "base", "source": None}, {"op": "freeze", "at": []},
            {"op": "get", "path": ["a", "b", "c"]}, {"op": "setitem", "at": ["a"], "key": "b", "value": 5}]},
    ]


def streams(tier):
    return [
        Stream(name="ctx", imports="From Viv Require Import Common Config Components.\nFrom VivGen Require Import ConfigLayers_C20.",
               check="(check_ctx cfg_layers l_user l_mgr l_comp l_spec l_over mgr_table)", gen=gen_ctx, run=run_ctx,
               n_quick=500, n_thorough=1500, corpus=corpus_ctx, finding_of=finding_of_ctx, shrink=shrink_ctx,
               doc="real contexts built from generated component forests and configuration layerings"),
        Stream(name="cfg", imports="From Viv Require Import Common Config.", check="check_cfg", gen=gen_cfg, run=run_cfg,
               n_quick=500, n_thorough=3000, corpus=corpus_cfg, shrink=shrink_cfg, doc="stand-alone LayeredConfigTree operation sequences"),
    ]
