"""C17 - State machines move each simulant along its own declared transition (DESIGN.md section 5, C17).

Tie to the code (model: coq/theories/StateMachine.v, theorems: coq/props/C17.v):
  stream `machine`  real SimulationContexts with a generated Machine: 2-5 states, random transition graphs (incl. self
                    loops, states without transitions, a few duplicate targets), allow_self_transition flags, transient
                    states in acyclic chains, triggered transitions (START_INACTIVE / START_ACTIVE) whose active sets are
                    changed by set_active / set_inactive before every call, per-simulant probability tables with dyadic
                    entries incl. 0 and 1 (sole 1, 1 plus others, two 1s, all 0, total > 1, total = 1 + 2^-30), rows whose
                    decision boundary is EXACTLY the simulant's own draw (the draw is read first) or one ulp off it,
                    random current states (incl. a state the machine does not know), untracked simulants, permuted
                    request subsets (ascending, reversed, shuffled, built by Index.append), 1-2 calls per context at
                    successive time steps, births between calls, and - in about 60% of the contexts - common random numbers
                    (1-2 registered key columns).  A probe listener reads the draw of EVERY transition set's real stream for
                    every simulant at the same clock time by SINGLE-simulant get_draw requests (so the model's draws do not
                    depend on the order the machine uses), snapshots the state table, calls Machine.transition and snapshots
                    again; in half of the calls it first runs the same request in another order and two simulants on their
                    own (state column restored in between) - C17_local observed directly.  States are subclasses
                    overriding the public hooks transition_side_effect / cleanup_effect: every hook call (state, group, the
                    group's state column at that moment) of the call and of the Machine.cleanup that follows is logged and
                    compared with the model's log; about one request in eight repeats a label.
  stream `tset`     stand-alone TransitionSets (real Transition / Trigger objects, set_active / set_inactive histories)
                    whose stream is a stub that hands chosen draws to the real `_choice`: boundary-exact draws, draw 0.0
                    (finding F-G when the first weight is 0), 1 - 2^-53, small denominators.
Direct oracle (python, exact Fractions, independent of the Coq model): per simulant the state after the call is the one
its OWN row and draw select (interval rule, followed through transient states), is a declared successor, nobody outside
the tracked request and no other column changes, zero-probability transitions are never taken, unnormalisable rows raise.
"""
import random
from fractions import Fraction

import boot
from core import Result, Stream, cbool, clist, cpair

PROPERTY = "C17"
RULE = ("machine: generated machines on real SimulationContexts (see module doc), population 1-10, 1-2 transition calls; "
        "distinct = distinct case; trivial = no tracked requested simulant stands in a state with transitions.  tset: "
        "one TransitionSet, 1-4 transitions, 1-8 simulants with chosen draws; trivial = no simulant")
ASSUMPTIONS = [
    "probabilities and draws are exact rationals (numerators over 2^53 or 16); the implementation's float arithmetic is "
    "exact on the generated rows, or the draw is farther than 2^-40 from every decision boundary (else the case is skipped "
    "and counted)",
    "per-simulant probability functions are pure functions of the label (tables); a user function that returns a Series "
    "in another order than its argument is outside the property",
    "the draws given to the model are those of each transition set's own stream at the same clock time (C02)",
    "transient states form acyclic chains (a cycle of transient states recurses without bound in the real code: F-K)",
    "request indexes contain existing simulants only (labels may repeat); a hook's group is compared as a set",
    "transition_side_effect / cleanup_effect calls with an EMPTY index (the code makes them for empty groups) are ignored",
]
TRUSTED = [
    "C17: StateMachine.v transcribes state_machine.py (_next_state, _groupby_new_state, Transition.probability, "
    "TransitionSet.choose_new_state/_normalize_probabilities, Machine.transition) and stream._choice in exact arithmetic",
    "C17: the order in which _next_state walks the groups (sorted by str(output)) is read off the live objects by the "
    "harness (ranks of str(state)); it only matters when a call raises half-way",
    "C17: no private attribute is read: streams are found through public names or by type, hooks are observed by overriding "
    "the public State.transition_side_effect / cleanup_effect; the module-private grouping helper is used only if present "
    "(cases that need it are skipped and counted otherwise)",
    "C17: the `tset` stream gives the TransitionSet a real RandomnessStream whose get_draw returns the chosen draws",
]
CLAIM = {
    "technique": "Coq proof over a Gallina model + sampled model/implementation correspondence",
    "text": "Theorems (all machines, probability functions, draws, state assignments, request sets): a successful "
            "Machine.transition puts every tracked requested simulant where its OWN row and draws lead (closed form "
            "`own_destination`, equal to transitioning it alone), which is a declared successor followed through transient "
            "states or its own state; everybody else is untouched; a simulant moved into a non-transient state is not moved "
            "again; every transition_side_effect hook runs after the state write, exactly once per write of a simulant and never "
            "for an unmoved one, and cleanup hands each simulant to the hook of the state it is in, once; zero-probability (incl. "
            "inactive triggered) transitions are never taken and a sole probability-1 "
            "transition always is, under the exact F-G guard; rows with two 1s, total 0 without self transition or total > "
            "1+1e-08 with it are rejected before anything is written.  The model is tied to /repo/src by running generated "
            "machines on real contexts with the draws of the real streams and letting Coq compare the predicted state column "
            "(and error class) with the observed one; a python oracle recomputes every simulant's destination.",
    "note": "Exact rational arithmetic: float rounding is outside (rows are dyadic-exact or far from boundaries; skipped "
            "cases are counted).  Open finding F-G (draw exactly 0.0 with first weight 0) is excluded by an explicit guard "
            "and reproduced by the tset stream.  Transient cycles (F-K) only return OutOfFuel in the model.  Sampled "
            "correspondence, not exhaustive.",
}
LEVEL_NOTE = ""

B53 = 2 ** 53
TOL = Fraction(1 + 1e-08)


def z(n):
    n = int(n)
    return f"({n})" if n < 0 else str(n)


def zl(ns):
    return clist(z(n) for n in ns)


def nat(n):
    return f"{int(n)}%nat"


# ----------------------------------------------------------------------------------------------------------------
# exact reference semantics (python; used by the oracle only)
# ----------------------------------------------------------------------------------------------------------------
def py_weights(nums, D, null):
    """Weights handed to the choice, per the documented rule; None = not normalisable."""
    ones = sum(1 for n in nums if n == D)
    if ones > 1:
        return None
    T = sum(nums)
    if null:
        if ones == 1:
            return list(nums) + [0]
        if Fraction(T, D) > TOL:
            return None
        return list(nums) + [max(0, D - T)]
    if ones == 1:
        return list(nums)
    if T == 0:
        return None
    return list(nums)


def py_choice(a, b, ws):
    """Interval rule: the first option whose cumulative weight reaches the draw (bins closed on the right)."""
    W = sum(ws)
    cum = 0
    for k, w in enumerate(ws):
        cum += w
        if a * W <= cum * b:
            return k
    return len(ws)


def row_exact(nums, D, null):
    """Is the implementation's float arithmetic exact on this row?"""
    ones = sum(1 for n in nums if n == D)
    T = sum(nums)
    if ones == 1 and T != D:
        return False
    if null:
        return T <= D
    return T > 0 and (T & (T - 1)) == 0


def near_boundary(a, b, ws, exact):
    """True iff the draw is closer than 2^-40 to a decision boundary on which float rounding could decide."""
    if exact:
        return False
    W = sum(ws)
    if W == 0:
        return False
    cum = 0
    d = Fraction(a, b)
    for w in ws:
        cum += w
        if abs(d - Fraction(cum, W)) < Fraction(1, 2 ** 40):
            return True
    return False


# ----------------------------------------------------------------------------------------------------------------
# generator of machines
# ----------------------------------------------------------------------------------------------------------------
ROW_KINDS_OK = ["valid", "valid", "valid", "valid", "sole_one", "one_plus", "zeros", "eq_draw", "eq_draw", "eq_draw_off",
                "half_half", "tiny_over", "sparse", "tol_in", "tol_in", "near_one", "tiny"]
ROW_KINDS_BAD = ["two_ones", "zeros", "over", "tol_out", "tol_out", "tol_out"]

# The numeric thresholds of _normalize_probabilities, hit on BOTH sides and at several scales, from exactly representable parts:
#   total > 1 + 1e-08 (the DOUBLE 1 + 1e-08 = 1 + TOL_EXCESS / 2^53 exactly): totals 1 + e / 2^53 with e even (doubles in
#   [1, 2) are multiples of 2^-52), so that the float sum is exact and the exact-rational model decides;
#   probabilities == 1: entries 1 - 2^-53 and 1; total == 0: a single entry 2^-53.
TOL_EXCESS = int((Fraction(1 + 1e-08) - 1) * B53)               # 90071992: the tolerance itself, in units of 2^-53
assert Fraction(1 + 1e-08) == 1 + Fraction(TOL_EXCESS, B53) and TOL_EXCESS % 2 == 0


def _even(x):
    x = int(x)
    return x - (x % 2)


TOL_INSIDE = [TOL_EXCESS, TOL_EXCESS - 2, TOL_EXCESS // 2, _even(TOL_EXCESS * 0.9), 2 ** 23, 2]
TOL_OUTSIDE = [TOL_EXCESS + 2, TOL_EXCESS + 4, _even(TOL_EXCESS * 1.1), 2 * TOL_EXCESS, 10 * TOL_EXCESS, 100 * TOL_EXCESS,
               500 * TOL_EXCESS, 1000 * TOL_EXCESS, 10000 * TOL_EXCESS]


def gen_row(rng, ntr, null, kind):
    """numerators over 16 (scaled later); eq_draw kinds are resolved at run time from the simulant's draw"""
    if ntr == 0:
        return {"kind": "valid", "k": []}
    if kind == "valid":
        if null:
            ks, left = [], 16
            for _ in range(ntr):
                v = rng.choice([0, 0, 1, 2, 4, 4, 8, rng.randint(0, left)])
                v = min(v, left)
                ks.append(v); left -= v
            rng.shuffle(ks)
        else:
            ks = [rng.choice([0, 0, 1, 2, 3, 4, 8, 12]) for _ in range(ntr)]
            if sum(ks) == 0:
                ks[rng.randrange(ntr)] = rng.choice([1, 4, 8])
        return {"kind": kind, "k": ks}
    if kind == "sparse":
        ks = [0] * ntr
        ks[rng.randrange(ntr)] = rng.choice([1, 2, 4, 8, 15]) if null else rng.choice([1, 2, 4, 8])
        return {"kind": kind, "k": ks}
    if kind == "sole_one":
        ks = [0] * ntr
        ks[rng.randrange(ntr)] = 16
        return {"kind": kind, "k": ks}
    if kind == "one_plus":
        ks = [rng.choice([0, 0, 4, 8]) for _ in range(ntr)]
        ks[rng.randrange(ntr)] = 16
        return {"kind": kind, "k": ks}
    if kind == "two_ones":
        ks = [rng.choice([0, 4]) for _ in range(ntr)]
        for j in rng.sample(range(ntr), min(2, ntr)):
            ks[j] = 16
        return {"kind": kind, "k": ks}
    if kind == "zeros":
        return {"kind": kind, "k": [0] * ntr}
    if kind == "over":
        ks = [rng.choice([4, 8, 12]) for _ in range(ntr)]
        if sum(ks) <= 16:
            ks[0] = 15 if ntr > 1 else 15
            if ntr == 1:
                ks = [15]          # a single 15/16 is not `over`; keep the row valid then
            else:
                ks[1] = max(ks[1], 2)
        return {"kind": kind, "k": ks}
    if kind == "half_half":
        ks = [0] * ntr
        for j in rng.sample(range(ntr), min(2, ntr)):
            ks[j] = 8
        return {"kind": kind, "k": ks}
    if kind in ("tol_in", "tol_out"):
        # total = 1 + excess / 2^53 (meaningful with a null transition; otherwise the row is simply renormalised)
        return {"kind": kind, "k": [0] * ntr, "excess": rng.choice(TOL_INSIDE if kind == "tol_in" else TOL_OUTSIDE),
                "pos": rng.sample(range(ntr), min(ntr, rng.choice([1, 2, 2, 3])))}
    if kind == "near_one":
        # 1 - 2^-53 is NOT the default-transition marker 1; optionally topped up to a total of exactly 1 by a 2^-53 entry
        return {"kind": kind, "k": [0] * ntr, "pos": rng.sample(range(ntr), min(ntr, 2)), "top_up": rng.random() < 0.5}
    if kind == "tiny":
        return {"kind": kind, "k": [0] * ntr, "pos": [rng.randrange(ntr)]}       # total 2^-53: not zero
    if kind == "tiny_over":
        # 1/2 and 1/2 + 2^-30: total 1 + 2^-30 <= 1 + 1e-08 is accepted with a null transition (weight clipped to 0)
        return {"kind": kind, "k": [0] * ntr, "pos": rng.sample(range(ntr), min(2, ntr))}
    # eq_draw / eq_draw_off: boundary of bin `pos` is the simulant's own draw (off: one ulp below / above)
    return {"kind": kind, "k": [0] * ntr, "pos": rng.randrange(ntr), "variant": rng.choice(["two", "split", "null"]),
            "off": rng.choice([-1, 1])}


def resolve_row(row, a, null):
    """numerators over 2^53 of a generated row, given the simulant's draw numerator a (0 <= a < 2^53)"""
    kind = row["kind"]
    ntr = len(row["k"])
    if kind in ("eq_draw", "eq_draw_off"):
        p = a if kind == "eq_draw" else min(B53 - 1, max(0, a + row["off"]))
        nums = [0] * ntr
        pos = row["pos"]
        variant = row["variant"]
        if variant == "split" and pos >= 1 and p % 2 == 0:
            nums[pos - 1] = p // 2
            nums[pos] = p // 2
        else:
            nums[pos] = p
        rest = B53 - p
        if not (variant == "null" and null):
            # the rest goes to another transition when there is one (total exactly 1)
            others = [j for j in range(ntr) if nums[j] == 0 and j > pos] or [j for j in range(ntr) if nums[j] == 0]
            if others:
                nums[others[0]] = rest
        return nums
    if kind in ("tol_in", "tol_out"):
        nums = [0] * ntr
        ps, e = row["pos"], row["excess"]
        if len(ps) == 1:
            nums[ps[0]] = B53 + e
        elif len(ps) == 2:
            nums[ps[0]], nums[ps[1]] = B53 // 2, B53 // 2 + e
        else:
            nums[ps[0]], nums[ps[1]], nums[ps[2]] = B53 // 4, B53 // 4, B53 // 2 + e
        return nums
    if kind == "near_one":
        nums = [0] * ntr
        ps = row["pos"]
        nums[ps[0]] = B53 - 1
        if row.get("top_up") and len(ps) > 1:
            nums[ps[1]] = 1
        return nums
    if kind == "tiny":
        nums = [0] * ntr
        nums[row["pos"][0]] = 1
        return nums
    if kind == "tiny_over":
        nums = [0] * ntr
        ps = row["pos"]
        nums[ps[0]] = B53 // 2
        if len(ps) > 1:
            nums[ps[1]] = B53 // 2 + 2 ** 23
        return nums
    return [k * (B53 // 16) for k in row["k"]]


def gen_machine(rng):
    ns = rng.randint(2, 5)
    transient = [rng.random() < 0.3 for _ in range(ns)]
    if all(transient):
        transient[rng.randrange(ns)] = False
    states = []
    for i in range(ns):
        ntr = rng.choice([0, 1, 1, 2, 2, 2, 3, 3])
        if transient[i]:
            # acyclic transient chains: a transient state only points to non-transient states or to LATER transient ones
            allowed = [j for j in range(ns) if (not transient[j]) or j > i]
        else:
            allowed = list(range(ns))
        targets = rng.sample(allowed, min(ntr, len(allowed)))
        # (two transitions between the same pair of states cannot be built in a context: component names must be unique;
        #  duplicate outputs are exercised by the `tset` stream)
        trans = []
        for t in targets:
            trig = rng.choice([None, None, None, "inactive", "active"])
            trans.append({"to": t, "trigger": trig})
        states.append({"null": rng.random() < 0.5, "transient": transient[i], "trans": trans})
    n = rng.choice([1, 2, 3, 4, 5, 6, 8, 10])
    bad_case = rng.random() < 0.2
    ncalls = rng.choice([1, 1, 2])
    # common random numbers: key columns registered with the randomness manager (the draw of a simulant is then looked up
    # through the IndexMap by ITS key, whatever the order of the request)
    crn = rng.choice([[], [], ["uid"], ["uid"], ["entrance_time", "uid"]])
    calls = []
    nc = n
    for c in range(ncalls):
        births = rng.choice([0, 0, 0, 1, 2, 3]) if (c > 0 or rng.random() < 0.5) else 0
        nc += births
        rows = []
        bad_budget = 1 if bad_case else 0
        for s in states:
            per = []
            for l in range(nc):
                if bad_budget and rng.random() < 0.15:
                    kind = rng.choice(ROW_KINDS_BAD + (["tol_out"] * 4 if s["null"] else [])); bad_budget -= 1
                    if kind == "tol_out" and not s["null"]:
                        kind = "two_ones"
                else:
                    kind = rng.choice(ROW_KINDS_OK)
                    if kind == "zeros" and not s["null"]:
                        kind = "valid"
                    if kind in ("tiny_over", "tol_in") and not s["null"]:
                        kind = "half_half"
                per.append(gen_row(rng, len(s["trans"]), s["null"], kind))
            rows.append(per)
        ops = []
        for si, s in enumerate(states):
            for ti, t in enumerate(s["trans"]):
                if t["trigger"] is not None:
                    for _ in range(rng.choice([0, 1, 1, 2, 3])):
                        labs = rng.sample(range(nc), rng.randint(0, nc))
                        ops.append([si, ti, rng.random() < 0.7, labs])
        r = rng.random()
        if r < 0.5:
            idx = list(range(nc))
        elif r < 0.9:
            idx = rng.sample(range(nc), rng.randint(0, nc))
        else:
            idx = [rng.randrange(nc)]
        # the ORDER and the construction of the request: ascending, reversed, shuffled, two ascending runs appended
        order = rng.choice(["asc", "desc", "shuffled", "shuffled", "append", "append"])
        idx.sort()
        split = 0
        if order == "desc":
            idx.reverse()
        elif order == "shuffled":
            rng.shuffle(idx)
        elif order == "append" and len(idx) >= 2:
            k = rng.randrange(1, len(idx))
            idx = idx[k:] + idx[:k]                   # Index(high part).append(Index(low part))
            split = len(idx) - k
        if idx and rng.random() < 0.12:
            for _ in range(rng.choice([1, 1, 2])):                      # a label requested twice
                idx.insert(rng.randrange(len(idx) + 1), rng.choice(idx))
            split = min(split, len(idx) - 1)
        calls.append({"rows": rows, "ops": ops, "idx": idx, "order": order, "split": split, "births": births,
                      "local": rng.random() < 0.5,
                      "untrack": [l for l in range(nc) if rng.random() < 0.12],
                      "retrack": [l for l in range(nc) if rng.random() < 0.05]})
    assign = [rng.randrange(ns) if rng.random() > 0.05 else -1 for _ in range(nc)]     # -1: a state the machine does not know
    uids = rng.sample(range(0, 100000), nc)
    return {"states": states, "n": n, "assign": assign, "calls": calls, "crn": crn, "uids": uids}


# ----------------------------------------------------------------------------------------------------------------
# running a machine on the real code
# ----------------------------------------------------------------------------------------------------------------
def sname(i):
    return f"s{i}" if i >= 0 else "zz"


def stream_of(state):
    """the RandomnessStream of a state's transition set: by its public attribute names, else looked up BY TYPE (a rename or
    a restructuring of these attributes is not a change of behaviour)"""
    from vivarium.framework.randomness.stream import RandomnessStream
    from vivarium.framework.state_machine import TransitionSet
    ts = getattr(state, "transition_set", None)
    if not isinstance(ts, TransitionSet):
        ts = next((v for v in vars(state).values() if isinstance(v, TransitionSet)), None)
    if ts is None:
        return None
    r = getattr(ts, "random", None)
    if not isinstance(r, RandomnessStream):
        r = next((v for v in vars(ts).values() if isinstance(v, RandomnessStream)), None)
    return r


def build_machine(case, tables, hooks=None):
    """hooks: {"side": fn(state_name, index), "cleanup": fn(state_name, index)} - the public overridable hooks of State"""
    import pandas as pd
    from vivarium.framework.state_machine import Machine, State, Transition, TransientState, Trigger

    hooks = hooks or {}

    class HState(State):
        def transition_side_effect(self, index, event_time):
            if "side" in hooks:
                hooks["side"](self.state_id, index)

        def cleanup_effect(self, index, event_time):
            if "cleanup" in hooks:
                hooks["cleanup"](self.state_id, index)

    class HTransientState(TransientState):
        transition_side_effect = HState.transition_side_effect
        cleanup_effect = HState.cleanup_effect

    def pf(si, ti):
        def f(index):
            t = tables[(si, ti)]
            return pd.Series([t[int(l)] for l in index], index=index, dtype=float)
        f.__name__ = f"p_{si}_{ti}"
        return f

    objs = []
    for i, s in enumerate(case["states"]):
        cls = HTransientState if s["transient"] else HState
        objs.append(cls(sname(i), allow_self_transition=s["null"]))
    trans = {}
    for i, s in enumerate(case["states"]):
        for ti, t in enumerate(s["trans"]):
            trig = {None: Trigger.NOT_TRIGGERED, "inactive": Trigger.START_INACTIVE, "active": Trigger.START_ACTIVE}[t["trigger"]]
            tr = Transition(objs[i], objs[t["to"]], probability_func=pf(i, ti), triggered=trig)
            objs[i].add_transition(tr)
            trans[(i, ti)] = tr
    return Machine("st", objs), objs, trans


def execute_machine(case):
    import pandas as pd
    from vivarium import Component
    from vivarium.framework.engine import SimulationContext
    boot.reset_contexts()
    tables = {}
    log = {"calls": [], "errors": []}
    rec_hooks = {"on": False, "side": [], "cleanup": []}

    def on_side(state_name, index):
        if rec_hooks["on"] and len(index):
            seen = list(sim.get_population(untracked=True).loc[index, "st"])     # the state column as the hook sees it
            rec_hooks["side"].append((state_name, [int(l) for l in index], seen))

    def on_cleanup(state_name, index):
        if rec_hooks["on"] and len(index):
            rec_hooks["cleanup"].append((state_name, [int(l) for l in index]))

    machine, objs, trans = build_machine(case, tables, {"side": on_side, "cleanup": on_cleanup})
    n = case["n"]
    crn = list(case.get("crn", []))
    uids = case.get("uids") or list(range(len(case["assign"])))

    def request_index(call, idx=None):
        """the pd.Index handed to Machine.transition, built the way the case says"""
        idx = list(call["idx"]) if idx is None else idx
        k = call.get("split", 0)
        if call.get("order") == "append" and 0 < k < len(idx):
            return pd.Index(idx[:k], dtype="int64").append(pd.Index(idx[k:], dtype="int64"))
        return pd.Index(idx, dtype="int64")

    class C17Driver(Component):
        @property
        def columns_created(self):
            return ["st", "other", "marker", "uid", "entrance_time"]

        @property
        def columns_required(self):
            return ["tracked"]

        def setup(self, builder):
            self.k = 0
            self.register = builder.randomness.register_simulants
            self.creator = builder.population.get_simulant_creator()
            builder.event.register_listener("time_step", self.go)

        def on_initialize_simulants(self, pop_data):
            idx = pop_data.index
            df = pd.DataFrame({
                "st": pd.Series([sname(case["assign"][int(l)]) for l in idx], index=idx, dtype="str"),
                "other": pd.Series([int(l) * 7 + 1 for l in idx], index=idx, dtype="int64"),
                "marker": pd.Series([f"m{int(l)}" for l in idx], index=idx, dtype="str"),
                "uid": pd.Series([int(uids[int(l)]) for l in idx], index=idx, dtype="int64"),
                "entrance_time": pd.Series(pop_data.creation_time, index=idx)})
            self.population_view.update(df)
            if crn and len(idx):
                self.register(df[crn])

        def _restore(self, before):
            self.population_view.subview(["st"]).update(pd.Series(list(before["st"]), index=before.index, name="st", dtype="str"))

        def _attempt(self, before, index, event):
            """one Machine.transition from the state `before`: (state column afterwards, exception); state restored"""
            err = None
            try:
                machine.transition(index, event.time)
            except Exception as e:
                err = e
            col = {int(l): v for l, v in sim.get_population(untracked=True)["st"].items()}
            self._restore(before)
            return col, err

        def go(self, event):
            if self.k >= len(case["calls"]):
                return
            call = case["calls"][self.k]
            self.k += 1
            if call.get("births", 0):
                self.creator(int(call["births"]), {"sim_state": "time_step"})
            labs = [int(l) for l in sim.get_population(untracked=True).index]
            # the draws of every transition set's stream at this clock time, asked for ONE simulant at a time: a
            # simulant's own draw must not depend on the company or the order in which it is requested (C02)
            draws = {}
            for si, st in enumerate(objs):
                draws[si] = {}
                stream = stream_of(st)
                if stream is None:
                    log["errors"].append("UNOBSERVABLE: the transition set's randomness stream was not found")
                    return
                for l in labs:
                    x = float(stream.get_draw(pd.Index([l], dtype="int64")).iloc[0])
                    draws[si][l] = int(x * B53)
                    if draws[si][l] / B53 != x:
                        log["errors"].append("a draw is not a multiple of 2^-53")
            nums = {}
            for si, s in enumerate(case["states"]):
                for l in labs:
                    nums[(si, l)] = resolve_row(call["rows"][si][l], draws[si][l], s["null"])
                for ti in range(len(s["trans"])):
                    tables[(si, ti)] = {l: nums[(si, l)][ti] / B53 for l in labs}
                    if any(int(v * B53) != nums[(si, l)][ti] for l, v in tables[(si, ti)].items()):
                        log["errors"].append("a probability is not exactly representable")
            for si, ti, on, ls in call["ops"]:
                (trans[(si, ti)].set_active if on else trans[(si, ti)].set_inactive)(pd.Index(ls, dtype="int64"))
            for ls, val in ((call["untrack"], False), (call["retrack"], True)):
                if ls:
                    self.population_view.subview(["tracked"]).update(
                        pd.Series([val] * len(ls), index=pd.Index(ls), name="tracked"))
            before = sim.get_population(untracked=True).copy()
            # C17_local on the real code: the same request in another order, and a few simulants on their own (same clock
            # time, same tables, same active sets; the state column is put back after every attempt)
            local = None
            if call.get("local") and call["idx"]:
                idx = list(call["idx"])
                other = sorted(idx) if idx != sorted(idx) else sorted(idx, reverse=True)
                local = {"other": self._attempt(before, pd.Index(other, dtype="int64"), event), "alone": {}}
                for l in idx[:1] + idx[-1:]:
                    local["alone"][l] = self._attempt(before, pd.Index([l], dtype="int64"), event)
            err = None
            rec_hooks.update(on=True, side=[], cleanup=[])
            try:
                machine.transition(request_index(call), event.time)
            except Exception as e:
                err = e
            after = sim.get_population(untracked=True).copy()
            cerr = None
            try:
                machine.cleanup(request_index(call), event.time)
            except Exception as e:
                cerr = e
            rec_hooks["on"] = False
            log["calls"].append({"draws": draws, "nums": nums, "before": before, "after": after, "err": err, "local": local,
                                 "side": list(rec_hooks["side"]), "cleanup": list(rec_hooks["cleanup"]), "cleanup_err": cerr,
                                 "after_cleanup": sim.get_population(untracked=True).copy()})

    drv = C17Driver()
    sim = SimulationContext(components=[drv, machine], configuration={
        "population": {"population_size": n},
        "randomness": {"map_size": 400, "key_columns": crn},
        "time": {"start": {"year": 2005, "month": 7, "day": 1}, "end": {"year": 2005, "month": 8, "day": 1}, "step_size": 1}},
        logging_verbosity=0)
    boot.quiet_logging()
    sim.setup()
    sim.initialize_simulants()
    for _ in case["calls"]:
        sim.step()
    # ranks of str(output) as `sorted(groups, key=lambda x: str(x[0]))` sees them
    strs = sorted({str(o) for o in objs} | {"null_transition"})
    ranks = [strs.index(str(o)) for o in objs]
    return log, ranks, strs.index("null_transition")


def active_sets(case, upto):
    """active index of every triggered transition after the ops of calls 0..upto (model input AND oracle input)"""
    act = {}
    ops_hist = {}
    for si, s in enumerate(case["states"]):
        for ti, t in enumerate(s["trans"]):
            if t["trigger"] is not None:
                act[(si, ti)] = set()
                ops_hist[(si, ti)] = []
    for c in case["calls"][:upto + 1]:
        for si, ti, on, labs in c["ops"]:
            ops_hist[(si, ti)].append((on, list(labs)))
            if on:
                act[(si, ti)] |= set(labs)
            else:
                act[(si, ti)] -= set(labs)
    return act, ops_hist


def run_machine(case):
    log, ranks, null_rank = execute_machine(case)
    ok, msgs = True, []

    def fail(m):
        nonlocal ok
        ok = False
        if len(msgs) < 6:
            msgs.append(m)

    if any(e.startswith("UNOBSERVABLE") for e in log["errors"]):
        # the harness could not reach what it needs through public names or by type: skip and count, never alarm
        return Result(ok=True, coq=None, key=None, obs={"skipped": log["errors"][:3]}, tags=("unobservable_skipped",))
    for e in log["errors"]:
        fail("harness: " + e)
    if len(log["calls"]) != len(case["calls"]):
        return Result(ok=False, msg=f"harness: {len(log['calls'])} of {len(case['calls'])} calls were made")
    states = case["states"]
    ns, n = len(states), case["n"]
    ids = {sname(i): i for i in range(ns)}
    ids["zz"] = 99
    coq_calls = []
    tags = [f"states{ns}", f"n{min(n, 10)}", f"calls{len(case['calls'])}"]
    nontrivial = False
    skipped = False
    for ci, (call, rec) in enumerate(zip(case["calls"], log["calls"])):
        act, ops_hist = active_sets(case, ci)
        draws, nums = rec["draws"], rec["nums"]
        before, after = rec["before"], rec["after"]
        code = 0 if rec["err"] is None else (1 if isinstance(rec["err"], ValueError) else 2)
        if code == 2:
            fail(f"call {ci}: unexpected exception {rec['err']!r}")
        n = len(before.index)                       # simulants alive at this call (labels 0..n-1; births add labels)
        if [int(l) for l in before.index] != list(range(n)):
            fail(f"harness: labels are not 0..{n - 1}")
        st_before = {int(l): before.at[l, "st"] for l in before.index}
        st_after = {int(l): after.at[l, "st"] for l in after.index}
        tracked = {int(l): bool(before.at[l, "tracked"]) for l in before.index}
        # ---------------- oracle ----------------
        for col in ("other", "marker", "tracked", "uid", "entrance_time"):
            if not before[col].equals(after[col]):
                fail(f"call {ci}: column {col} changed")
        if list(before.index) != list(after.index):
            fail(f"call {ci}: the set of simulants changed")

        def eff(si, l):
            out = []
            for ti, t in enumerate(states[si]["trans"]):
                p = nums[(si, l)][ti]
                if t["trigger"] is not None and l not in act[(si, ti)]:
                    p = 0
                out.append(p)
            return out

        def successors(si, seen=()):
            """states reachable by one declared transition, followed through transient states"""
            out = set()
            for t in states[si]["trans"]:
                j = t["to"]
                out.add(j)
                if states[j]["transient"] and j not in seen:
                    out |= successors(j, seen + (j,))
            return out

        near = []

        def own(si, l, depth=0):
            """('ok', final state index or None = stays, [states written, in order]) | ('bad', reason)"""
            s = states[si]
            if not s["trans"]:
                return ("ok", None, [])
            row = eff(si, l)
            ws = py_weights(row, B53, s["null"])
            if ws is None:
                return ("bad", f"row {row} of simulant {l} in {sname(si)} cannot be normalised")
            targets = [t["to"] for t in s["trans"]]
            if len(set(targets)) != len(targets):
                return ("bad", f"duplicate targets in {sname(si)}")
            a = draws[si][l]
            if near_boundary(a, B53, ws, row_exact(row, B53, s["null"])):
                near.append((si, l))
            k = py_choice(a, B53, ws)
            if k >= len(ws):
                return ("bad", "draw above every bin")
            if ws[k] == 0 and not (a == 0 and k == 0):
                return ("bad", f"interval rule selected a zero weight?! {ws} {a}")
            if k == len(targets):
                return ("ok", None, [])                   # null transition
            j = targets[k]
            if states[j]["transient"]:
                if depth > ns + 1:
                    return ("bad", "transient cycle")
                r = own(j, l, depth + 1)
                if r[0] == "bad":
                    return r
                return ("ok", j if r[1] is None else r[1], [j] + r[2])
            return ("ok", j, [j])

        expect_err = None
        expected = {}
        trails = {}
        for l in range(n):
            si = ids.get(st_before[l], 99)
            if l in call["idx"] and tracked[l] and si != 99:
                if states[si]["trans"]:
                    nontrivial = True
                r = own(si, l)
                if r[0] == "bad":
                    expect_err = expect_err or r[1]
                    expected[l] = None
                else:
                    expected[l] = si if r[1] is None else r[1]
                    trails[l] = r[2]
            else:
                expected[l] = si
                trails[l] = []
        if near:
            skipped = True
        if (expect_err is not None) != (code != 0):
            fail(f"call {ci}: " + (f"no error although {expect_err}" if expect_err else f"raised {rec['err']!r} although every row can be normalised"))
        for l in range(n):
            si = ids.get(st_before[l], 99)
            sa = ids.get(st_after[l], 98)
            moved_ok = l in call["idx"] and tracked[l] and si != 99
            if not moved_ok:
                if sa != si:
                    fail(f"call {ci}: simulant {l} (not in the tracked request / unknown state) moved {st_before[l]}->{st_after[l]}")
                continue
            allowed = successors(si) | {si}
            if sa not in allowed:
                fail(f"call {ci}: simulant {l} went {st_before[l]}->{st_after[l]}, not a declared successor")
            if code == 0 and not near:
                if sa != expected[l]:
                    fail(f"call {ci}: simulant {l} in {st_before[l]} ended in {st_after[l]}; its own row {eff(si, l)} and draw "
                         f"{draws[si][l]}/2^53 select {sname(expected[l]) if expected[l] is not None else None}")
                if sa == si and si not in successors(si) and not (states[si]["null"] or not states[si]["trans"]):
                    fail(f"call {ci}: simulant {l} stayed in {st_before[l]} which allows no self transition")
        # hooks: transition_side_effect exactly once per write, after it, never for the unmoved; cleanup_effect once, by
        # the state the simulant is in
        if not rec["after_cleanup"].equals(after):
            fail(f"call {ci}: Machine.cleanup changed the state table")
        if rec["cleanup_err"] is not None:
            fail(f"call {ci}: Machine.cleanup raised {rec['cleanup_err']!r}")
        for name, members, seen in rec["side"]:
            if any(x != name for x in seen):
                fail(f"call {ci}: the side-effect hook of {name} ran for {members} whose state column read {seen} (before the write?)")
            for l in members:
                if not (l in call["idx"] and tracked[l]):
                    fail(f"call {ci}: the side-effect hook of {name} was handed simulant {l}, which is not in the tracked request")
        if code == 0 and not near:
            for l in range(n):
                got = [ids.get(name, 98) for name, members, _ in rec["side"] if l in members]
                want = list(trails.get(l, []))
                if got != want:
                    fail(f"call {ci}: simulant {l} was seen by the side-effect hooks of {[sname(x) for x in got]}; the states it "
                         f"was written into are {[sname(x) for x in want]}")
        for l in range(n):
            got = [name for name, members in rec["cleanup"] if l in members]
            sa_name = st_after[l]
            want = [sa_name] if (l in call["idx"] and tracked[l] and sa_name in ids and ids[sa_name] != 99) else []
            if got != want:
                fail(f"call {ci}: cleanup hooks that were handed simulant {l}: {got}, expected {want}")
        # C17_local, directly on the implementation: same request in another order / a simulant on its own
        if rec.get("local"):
            tags.append("local_checked")
            ocol, oerr = rec["local"]["other"]
            if (oerr is None) != (rec["err"] is None):
                fail(f"call {ci}: the request {call['idx']} ended with {rec['err']!r} but the same simulants in another order with {oerr!r}")
            elif oerr is None:
                for l in call["idx"]:
                    if ocol[l] != st_after[l]:
                        fail(f"call {ci}: simulant {l} ends in {st_after[l]} when requested as {call['idx']} but in {ocol[l]} "
                             f"when the same simulants are requested in another order")
            for l, (acol, aerr) in rec["local"]["alone"].items():
                l = int(l)
                if aerr is None and rec["err"] is None and acol[l] != st_after[l]:
                    fail(f"call {ci}: simulant {l} ends in {st_after[l]} together with {call['idx']} but in {acol[l]} on its own")
                if aerr is None:
                    for l2 in range(n):
                        if l2 != l and acol[l2] != st_before[l2]:
                            fail(f"call {ci}: transitioning simulant {l} alone moved simulant {l2}")
                if aerr is not None and rec["err"] is None:
                    fail(f"call {ci}: simulant {l} alone raised {aerr!r} but the whole request did not")
        # ---------------- Coq ----------------
        sts = []
        for si, s in enumerate(states):
            ts = []
            for ti, t in enumerate(s["trans"]):
                table = clist(cpair(z(l), z(nums[(si, l)][ti])) for l in range(n) if nums[(si, l)][ti] != 0)   # absent = 0
                trig = "None" if t["trigger"] is None else "(Some " + clist(cpair(cbool(on), zl(labs)) for on, labs in ops_hist[(si, ti)]) + ")"
                ts.append(cpair(z(t["to"]), table, trig))
            sts.append(cpair(z(si), cbool(s["null"]), cbool(s["transient"]), z(ranks[si]), clist(ts)))
        # (a state without transitions never consults its stream)
        dr = clist(cpair(z(si), clist(cpair(z(l), z(draws[si][l])) for l in range(n))) for si in range(ns) if states[si]["trans"])
        rows = clist(cpair(z(l), cbool(tracked[l]), z(ids.get(st_before[l], 99))) for l in range(n))
        aft = clist(cpair(z(l), z(ids.get(st_after[l], 98))) for l in range(n))
        # groups as sorted sets (repeats and order inside a group are not constrained)
        hk = clist(cpair(z(ids.get(name, 98)), zl(sorted(set(members))), cbool(all(x == name for x in seen)))
                   for name, members, seen in rec["side"])
        cl = clist(cpair(z(ids.get(name, 98)), zl(sorted(set(members)))) for name, members in rec["cleanup"])
        coq_calls.append("(" + cpair(z(B53), z(null_rank), clist(sts), z(B53), dr, rows, zl(call["idx"]), nat(ns + 2), z(code), aft,
                                     hk, cl) + " : machine_case)")
        if len(set(call["idx"])) != len(call["idx"]):
            tags.append("duplicate_labels")
        if rec["side"]:
            tags.append("hooks_ran")
        tags.append(f"code{code}")
        tags.append(f"order_{call.get('order', 'plain')}")
        if call.get("births"):
            tags.append("births")
        kinds = {call["rows"][ids[st_before[l]]][l]["kind"] for l in call["idx"]
                 if tracked[l] and st_before[l] in ids and ids[st_before[l]] != 99 and states[ids[st_before[l]]]["trans"]}
        tags += [f"row_{k}" for k in sorted(kinds)]
        if any(st_before[l] != st_after[l] for l in range(n)):
            tags.append("somebody_moved")
        if any(states[ids[st_after[l]]]["transient"] for l in range(n) if st_after[l] in ids and ids[st_after[l]] != 99 and st_before[l] != st_after[l]):
            tags.append("stopped_in_transient")
    tags.append(f"crn{len(case.get('crn', []))}")
    if any(s["transient"] for s in states):
        tags.append("has_transient")
    if any(t["trigger"] for s in states for t in s["trans"]):
        tags.append("has_triggered")
    if skipped:
        tags.append("near_boundary_skipped")
    coq = None if skipped else clist("\n   " + c for c in coq_calls)
    obs = {"calls": [{"code": 0 if r["err"] is None else 1, "error": repr(r["err"])[:160] if r["err"] else None,
                      "before": list(r["before"]["st"]), "after": list(r["after"]["st"])} for r in log["calls"]]}
    return Result(ok=ok, msg="; ".join(msgs), coq=coq, key=case if nontrivial else None, obs=obs, tags=tuple(dict.fromkeys(tags)))


# ----------------------------------------------------------------------------------------------------------------
# stream `tset`: TransitionSet.choose_new_state with injected draws
# ----------------------------------------------------------------------------------------------------------------
def gen_tset(rng):
    ntr = rng.randint(1, 4)
    null = rng.random() < 0.5
    D = rng.choice([16, 16, B53])
    b = rng.choice([16, 16, 64, B53])
    n = rng.randint(0, 8) if rng.random() < 0.05 else rng.randint(1, 8)
    labels = rng.sample(range(0, 24), n)
    trans = []
    for j in range(ntr):
        trig = rng.choice([None, None, None, "inactive", "active"])
        ops = []
        if trig is not None:
            for _ in range(rng.choice([0, 1, 2, 3])):
                pool = labels + [rng.randrange(0, 24)]
                ops.append([rng.random() < 0.7, rng.sample(pool, rng.randint(0, len(pool)))])
        trans.append({"trigger": trig, "ops": ops, "to": j})
    if ntr >= 2 and rng.random() < 0.04:
        trans[rng.randrange(1, ntr)]["to"] = 0         # two transitions into the same output: pd.Categorical refuses it
    bad = rng.random() < (0.35 if (D == B53 and null) else 0.12)
    fg = rng.random() < 0.10
    rows, draws = [], []
    bad_budget = 1 if bad else 0
    for l in labels:
        fine = D == B53                      # the threshold rows need the 2^-53 grid
        if bad_budget and rng.random() < 0.3:
            kind = rng.choice(ROW_KINDS_BAD + (["tol_out"] * 6 if (fine and null) else [])); bad_budget -= 1
            if kind == "tol_out" and not (fine and null):
                kind = "two_ones"
        else:
            kind = rng.choice(["valid", "valid", "valid", "sole_one", "one_plus", "zeros", "half_half", "sparse"] +
                              (["tol_in", "tol_in", "near_one", "tiny"] if fine else []))
            if kind in ("zeros", "tol_in") and not null:
                kind = "valid"
        row = gen_row(rng, ntr, null, kind)
        nums = resolve_row(row, 0, null) if kind in ("tol_in", "tol_out", "near_one", "tiny") else [k * (D // 16) for k in row["k"]]
        ws = py_weights(nums, D, null)
        # boundary-rich draws: exactly a cumulative bound, one step off it, 0, the largest draw, or anything
        r = rng.random()
        a = rng.randrange(b)
        if ws is not None and sum(ws) > 0 and r < 0.55:
            W = sum(ws)
            cums, c = [], 0
            for w in ws:
                c += w
                cums.append(Fraction(c, W))
            q = rng.choice(cums) * b
            if q.denominator == 1:
                a = int(q) + rng.choice([0, 0, -1, 1])
            a = min(max(a, 0), b - 1)
        elif r < 0.65:
            a = b - 1
        elif r < 0.70 or (fg and r < 0.85):
            a = 0                                     # with a zero first weight: finding F-G
        if a == 0 and not fg and ws is not None and ws and ws[0] == 0:
            a = 1                                     # keep the F-G class to the cases meant to show it
        rows.append(nums)
        draws.append(a)
    return {"D": D, "b": b, "null": null, "trans": trans, "labels": labels, "rows": rows, "draws": draws}


def run_tset(case):
    import pandas as pd
    from vivarium.framework.randomness import stream as stream_mod
    from vivarium.framework import state_machine as sm_mod
    from vivarium.framework.state_machine import State, Transition, TransitionSet, Trigger
    _groupby_new_state = getattr(sm_mod, "_groupby_new_state", None)
    D, b, null = case["D"], case["b"], case["null"]
    labels = case["labels"]
    ntr = len(case["trans"])
    src = State("src", allow_self_transition=null)
    outs = [State(f"t{j}") for j in range(ntr)]
    ts = TransitionSet("src", allow_self_transition=null)
    tables = {j: {l: case["rows"][i][j] / D for i, l in enumerate(labels)} for j in range(ntr)}
    act = {}
    for j, t in enumerate(case["trans"]):
        trig = {None: Trigger.NOT_TRIGGERED, "inactive": Trigger.START_INACTIVE, "active": Trigger.START_ACTIVE}[t["trigger"]]
        tr = Transition(src, outs[t["to"]], probability_func=lambda index, j=j: pd.Series(
            [tables[j][int(l)] for l in index], index=index, dtype=float), triggered=trig)
        if t["trigger"] is not None:
            act[j] = set()
            for on, labs in t["ops"]:
                (tr.set_active if on else tr.set_inactive)(pd.Index(labs, dtype="int64"))
                act[j] = (act[j] | set(labs)) if on else (act[j] - set(labs))
        ts.append(tr)
    index = pd.Index(labels, dtype="int64")
    draw_series = pd.Series([a / b for a in case["draws"]], index=index, dtype=float)

    class StubStream(stream_mod.RandomnessStream):
        """a REAL RandomnessStream whose draws are the chosen ones: `choice` and everything below it is the code under test"""
        def get_draw(self, index, additional_key=None):
            return draw_series.loc[index]

    stub = StubStream("c17_tset", lambda: 0, 0, None)

    class _StubRandomness:
        def get_stream(self, *a, **k):
            return stub

    class _StubBuilder:
        """what TransitionSet.setup asks of a builder: builder.randomness.get_stream(name)"""
        randomness = _StubRandomness()

        def __getattr__(self, name):                 # anything else a future setup might touch: inert
            class _Inert:
                def __getattr__(self, n):
                    return lambda *a, **k: None
            return _Inert()

    try:
        ts.setup(_StubBuilder())                     # the public way a transition set gets its stream
    except Exception:
        pass
    if stream_of(type("S", (), {"transition_set": ts})()) is not stub:
        ts.random = stub                             # fall back to the attribute the code reads today
    code, decided, err = 0, [], None
    dup = len({t["to"] for t in case["trans"]}) != ntr
    if dup and _groupby_new_state is None:
        # two transitions into one output are refused by the (module-private) grouping step only; without it the case is
        # not observable (the two decisions cannot be told apart either): skip and count
        return Result(ok=True, coq=None, key=None, obs={"skipped": "grouping helper not found"}, tags=("unobservable_skipped",))
    grouping_wrong = None
    try:
        outputs, decisions = ts.choose_new_state(index)                # public
        for l in labels:
            d = decisions.loc[l]
            pos = [k for k, o in enumerate(outputs) if o is d or (isinstance(o, str) and isinstance(d, str) and o == d)]
            decided.append(pos[0] if pos else -1)
        # the grouping step (module-private helper, used defensively: any list of (output, members) whose non-empty
        # groups partition the request by decision is fine - the order and the presence of empty groups are not constrained)
        groups = _groupby_new_state(index, outputs, decisions) if _groupby_new_state is not None else None
        if groups is not None:
            seen = []
            for out, members in groups:
                for l in members:
                    d = decisions.loc[int(l)]
                    if not (out is d or (isinstance(d, str) and isinstance(out, str) and out == d)):
                        grouping_wrong = f"simulant {int(l)} decided {d!r} but is grouped under {out!r}"
                    seen.append(int(l))
            if sorted(seen) != sorted(labels):
                grouping_wrong = grouping_wrong or f"groups {[(str(o), list(ix)) for o, ix in groups]} do not partition {labels}"
    except ValueError as e:
        code, err = 1, e
    except IndexError as e:
        code, err = 2, e
    # ---------------- oracle ----------------
    ok, msgs, fg_msgs = True, [], []
    near = False
    expect_bad = "two transitions share an output state" if dup else None
    expected = []
    if grouping_wrong:
        ok = False
        msgs.append(grouping_wrong)
    for i, l in enumerate(labels):
        row = [0 if (j in act and l not in act[j]) else case["rows"][i][j] for j in range(ntr)]
        ws = py_weights(row, D, null)
        if ws is None:
            expect_bad = expect_bad or f"row {row} (over {D}) cannot be normalised"
            expected.append(None)
            continue
        a = case["draws"][i]
        if near_boundary(a, b, ws, row_exact(row, D, null)):
            near = True
        k = py_choice(a, b, ws)
        expected.append((k, ws, a))
    if dup and _groupby_new_state is None:
        expect_bad = None if code == 0 else expect_bad
    if labels or dup:
        if (expect_bad is not None) != (code == 1):
            ok = False
            msgs.append(f"no error although {expect_bad}" if expect_bad else f"raised {err!r} although every row can be normalised")
        if code == 2 and not near:
            ok = False
            msgs.append(f"IndexError {err!r}")
    if code == 0 and not near:
        for i, (l, e) in enumerate(zip(labels, expected)):
            if e is None:
                continue
            k, ws, a = e
            got = decided[i]
            if got != k:
                ok = False
                msgs.append(f"simulant {l}: weights {ws}, draw {a}/{b}: decided option {got}, the interval rule gives {k}")
            elif ws[k] == 0:
                # the interval rule itself lands on a zero weight only for draw == 0 and a zero FIRST weight
                ok = False
                fg_msgs.append(f"F-G: simulant {l}: draw 0 takes option 0 whose weight is 0 (weights {ws})")
    # ---------------- Coq ----------------
    tspecs = []
    for j, t in enumerate(case["trans"]):
        table = clist(cpair(z(l), z(case["rows"][i][j])) for i, l in enumerate(labels))
        trig = "None" if t["trigger"] is None else "(Some " + clist(cpair(cbool(on), zl(labs)) for on, labs in t["ops"]) + ")"
        tspecs.append(cpair(z(t["to"] + 1), table, trig))
    ss = cpair(z(0), cbool(null), "false", z(0), clist(tspecs))
    dr = clist(cpair(z(l), z(a)) for l, a in zip(labels, case["draws"]))
    coq = "(" + cpair(z(D), ss, z(b), dr, z(code), clist(nat(max(k, 0)) for k in decided)) + " : tset_case)"
    if near or any(k < 0 for k in decided) or (dup and _groupby_new_state is None):
        coq = None
    if any(k < 0 for k in decided):
        ok = False
        msgs.append("a decision is not one of the outputs")
    tags = [f"code{code}", f"ntr{ntr}", "null" if null else "nonull", f"D{'53' if D == B53 else D}", f"b{'53' if b == B53 else b}"]
    if fg_msgs:
        tags.append("F-G")
    if near:
        tags.append("near_boundary_skipped")
    if near and code == 2:
        # float rounding, outside the exact-arithmetic property: the last cumulative bin of a non-dyadic row can round below
        # 1, and the largest draw 1 - 2^-53 then indexes past the last option (DESIGN section 7, the float relative of F-G)
        tags.append("float_corner_indexerror")
    if any(t["trigger"] for t in case["trans"]):
        tags.append("triggered")
    if D == B53 and null:
        for r_ in case["rows"]:
            ex = sum(r_) - D
            if 0 < ex <= 10000 * TOL_EXCESS and D not in r_:
                tags.append("total_just_above_1_" + ("accepted" if ex <= TOL_EXCESS else "rejected"))
                if ex in (TOL_EXCESS, TOL_EXCESS + 2, TOL_EXCESS - 2):
                    tags.append("total_at_tolerance_pm_ulp")
    return Result(ok=ok, msg="; ".join(msgs + fg_msgs), coq=coq, key=case if labels else None,
                  obs={"code": code, "decided": decided, "error": repr(err)[:160] if err else None,
                       "fg_only": bool(fg_msgs) and not msgs}, tags=tuple(tags))


def finding_of_tset(case, res):
    """F-G exactly: every complaint of the oracle is of the class `draw == 0.0 and the first weight is 0`."""
    if isinstance(res.obs, dict) and res.obs.get("fg_only"):
        return "F-G"
    return None


def shrink_machine(case):
    """smaller variants of a machine case: fewer calls, no CRN / births / local check / ops / untracking, a shorter request,
    one simulant less, plain `valid` rows"""
    import copy
    calls = case["calls"]
    if len(calls) > 1:
        c = copy.deepcopy(case); c["calls"] = c["calls"][:-1]; _trim_population(c); yield c
        c = copy.deepcopy(case); c["calls"] = c["calls"][1:]
        c["n"] = c["n"] + case["calls"][0].get("births", 0); yield c
    if case.get("crn"):
        c = copy.deepcopy(case); c["crn"] = []; yield c
    for ci, call in enumerate(calls):
        for key, empty in (("ops", []), ("untrack", []), ("retrack", []), ("local", False)):
            if call.get(key):
                c = copy.deepcopy(case); c["calls"][ci][key] = empty; yield c
        for i in range(len(call["ops"])):
            c = copy.deepcopy(case); del c["calls"][ci]["ops"][i]; yield c
        if call.get("order") not in (None, "asc"):
            c = copy.deepcopy(case); c["calls"][ci]["idx"] = sorted(call["idx"]); c["calls"][ci]["order"] = "asc"
            c["calls"][ci]["split"] = 0; yield c
        if len(call["idx"]) > 1:
            h = len(call["idx"]) // 2
            for part in (call["idx"][:h], call["idx"][h:]):
                c = copy.deepcopy(case); c["calls"][ci]["idx"] = list(part); c["calls"][ci]["split"] = 0
                c["calls"][ci]["order"] = "shuffled"; yield c
        for i in range(len(call["idx"])):
            c = copy.deepcopy(case); del c["calls"][ci]["idx"][i]
            c["calls"][ci]["split"] = 0; c["calls"][ci]["order"] = "shuffled"; yield c
    # drop the simulant with the highest label
    total = len(case["assign"])
    if total > 1:
        c = copy.deepcopy(case)
        last = total - 1
        for ci in range(len(c["calls"]) - 1, -1, -1):
            if c["calls"][ci].get("births", 0) > 0:
                c["calls"][ci]["births"] -= 1
                break
        else:
            c["n"] -= 1
        if c["n"] >= 1:
            c["assign"] = c["assign"][:last]; c["uids"] = (c.get("uids") or list(range(total)))[:last]
            for call in c["calls"]:
                call["rows"] = [per[:last] for per in call["rows"]]
                call["idx"] = [l for l in call["idx"] if l != last]
                call["untrack"] = [l for l in call["untrack"] if l != last]
                call["retrack"] = [l for l in call["retrack"] if l != last]
                call["ops"] = [[a, b2, on, [l for l in labs if l != last]] for a, b2, on, labs in call["ops"]]
                call["split"] = 0
                if call.get("order") == "append":
                    call["order"] = "shuffled"
            yield c
    # plain rows
    for ci, call in enumerate(calls):
        for si, per in enumerate(call["rows"]):
            for l, row in enumerate(per):
                if row["kind"] not in ("valid", "zeros") and row["k"]:
                    c = copy.deepcopy(case)
                    c["calls"][ci]["rows"][si][l] = {"kind": "valid", "k": [4] + [0] * (len(row["k"]) - 1)}
                    yield c
    # drop the last transition of a state
    for si, st in enumerate(case["states"]):
        if st["trans"]:
            c = copy.deepcopy(case)
            ti = len(st["trans"]) - 1
            del c["states"][si]["trans"][ti]
            for call in c["calls"]:
                call["rows"][si] = [{"kind": "valid", "k": [4] * ti if ti else []} for _ in call["rows"][si]]
                call["ops"] = [o for o in call["ops"] if not (o[0] == si and o[1] == ti)]
            yield c


def _trim_population(c):
    """after dropping calls: forget the simulants that would have been born in them"""
    total = c["n"] + sum(call.get("births", 0) for call in c["calls"])
    c["assign"] = c["assign"][:total]
    if c.get("uids"):
        c["uids"] = c["uids"][:total]


def shrink_tset(case):
    import copy
    n = len(case["labels"])
    for i in range(n):
        c = copy.deepcopy(case)
        lab = c["labels"][i]
        for key in ("labels", "rows", "draws"):
            del c[key][i]
        for t in c["trans"]:
            t["ops"] = [[on, [l for l in labs if l != lab]] for on, labs in t["ops"]]
        yield c
    for j, t in enumerate(case["trans"]):
        if t["ops"]:
            c = copy.deepcopy(case); c["trans"][j]["ops"] = c["trans"][j]["ops"][:-1]; yield c
        if t["trigger"] is not None and not t["ops"]:
            c = copy.deepcopy(case); c["trans"][j]["trigger"] = None; yield c
    if len(case["trans"]) > 1:
        j = len(case["trans"]) - 1
        c = copy.deepcopy(case); del c["trans"][j]
        c["rows"] = [r[:j] for r in c["rows"]]
        for t in c["trans"]:
            t["to"] = min(t["to"], j - 1)
        yield c


def _corpus(name):
    import json
    import os
    d = os.path.join(os.path.dirname(os.path.dirname(os.path.dirname(os.path.abspath(__file__)))), "corpus", "C17")
    out = []
    if os.path.isdir(d):
        for f in sorted(os.listdir(d)):
            if f.startswith(name + "_") and f.endswith(".json"):
                out.append(json.load(open(os.path.join(d, f)))["case"])
    return out


def streams(tier):
    imp = "From Viv Require Import Common StateMachine."
    return [
        Stream(name="machine", imports=imp, check="(forallb check_machine)", gen=gen_machine, run=run_machine,
               n_quick=180, n_thorough=2000, corpus=lambda: _corpus("machine"), shrink=shrink_machine,
               doc="Machine.transition on real contexts with the draws of the real streams"),
        Stream(name="tset", imports=imp, check="check_tset", gen=gen_tset, run=run_tset, n_quick=500, n_thorough=6000,
               corpus=lambda: _corpus("tset"), finding_of=finding_of_tset, shrink=shrink_tset,
               doc="TransitionSet.choose_new_state with chosen draws (boundaries, 0.0)"),
    ]
