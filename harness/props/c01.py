"""C01 - Seeded runs are reproducible, whatever the process state (DESIGN.md section 5 C01; PARTIAL by design, section 9).

Three ties to the code (model: coq/theories/Sim.v, theorems: coq/props/C01.v):

 (i)  stream `env` - environment differential ON THE IMPLEMENTATION (the part no model can replace).  A generated
      *program* (harness/probes.py: CRN on/off, births, untracking, state machine, replace/list pipelines with rate
      post-processing, lookup tables, adding/concatenating observers, per-simulant step modifiers, snoozing, a
      RESIDUAL_CHOICE keeper) is run in fresh sub-processes that differ in PYTHONHASHSEED, in pollution of the global
      numpy.random / random generators before and BETWEEN steps, in heap churn (freed numpy buffers full of garbage, so that
      reads of uninitialised memory differ), in the number of contexts created earlier in the process, and in the driver (run_simulation | manual setup/initialize/step.../finalize | InteractiveContext.step |
      take_steps | run | run_for+run_until).  The SHA-1 of the canonicalised state table (columns sorted, labels sorted,
      floats as hex, times as integer ns, dtypes included) after EVERY step, of the final table and of the results
      must agree with the reference environment.  This is the direct oracle.
 (ii) the same runs' schedule (clock, global step, event time, event step, the four event indexes, the per-simulant
      next_event_time/step_size/tracked table after every step) is emitted as Gallina and checked by Coq against
      Sim.v's step functions (`check_scheds`), once per driver kind - so the driver-equivalence theorems speak about
      the drivers that exist.
 (iii) obligation `census` - static AST census of /repo/src/vivarium/framework: uses of numpy.random.* other than
      RandomState(seed), random.*, id(), hash(), wall-clock time, os.environ/getpid/uuid and iteration over sets, counted
      per (file, kind) and compared with the committed corpus/C01/census.json.  A NEW entry = the model's list of
      channels is no longer known to be complete -> obligation fails and the differential is run on 3x the programs.
"""
import ast
import concurrent.futures
import json
import os
import random

import boot
import probes
from core import VERIF, Result, Stream

PROPERTY = "C01"
CLAIM = {
    "technique": "Coq schedule model + driver-equivalence proofs; implementation environment differential; static census",
    "text": "PARTIAL - proved in Coq (Sim.v): InteractiveContext.step, a manual step and the step inside run() are the same "
            "function of the schedule state for arbitrary component behaviour, for any number of steps; run() is exactly the "
            "steps taken before the stop time, and InteractiveContext.run/run_until/run_for are that same loop (also with per-simulant "
            "clocks; refuted for the code before 98b7435f); set-iteration order cannot change a successful multi-column update, a table "
            "read as a map, or a stratification tuple.  Checked on the implementation each run: per-step SHA-1 digests of "
            "the state table and of the results agree across PYTHONHASHSEEDs, polluted global RNGs, prior contexts and six "
            "drivers for generated programs; the observed schedules satisfy the Coq model; the census of entropy sources in "
            "the framework source is unchanged.",
    "note": "PARTIAL - completeness of the list of entropy channels and everything about process state is established only by "
            "the sampled environment differential and the static census, not by proof; trusted: probe components, canonicaliser, "
            "sub-process orchestration, dill, pandas/numpy",
}
RULE = ("env: corpus first (hand-picked rich programs, the F-AB regression, and the repository's own example models "
        "vivarium.examples.disease_model and vivarium.examples.boids - the latter with the global numpy seed it draws from "
        "fixed as part of the program); then generated programs (2-8 minimum steps quick / 2-12 thorough, population 0-16 + births, both clocks, fractional "
        "steps, durations that are no multiple of the step) x 8 (quick: 3 sub-processes) / 24 (thorough: 6 sub-processes) environments grouped into fresh "
        "sub-processes by PYTHONHASHSEED, 3 programs per sub-process (a failure is re-run alone, or recorded with its process history); distinct = distinct program; trivial = empty population and no births")
ASSUMPTIONS = [
    "schedule cases are emitted relative to their first clock value and in units of the gcd of their durations (Sim.v is "
    "invariant under this affine change of time units: it only adds, subtracts, compares and takes minima of times)",
    "the probes' own logs (births, untracking, snoozes) and the step_size column after a step are the inputs of the "
    "schedule model (component behaviour is an arbitrary function in Sim.v)",
    "Timedelta/Timedelta division in run_until is exact for the magnitudes used (durations of a few days, steps of hours)",
    "environments (and, in a batch, programs) inside one sub-process run one after another: a later one also has the earlier "
    "ones as prior process history; a failure seen in a batch is re-run alone, and if it needs the history the history is stored "
    "in the replay",
]
TRUSTED = [
    "probe component library harness/probes.py and the sub-process worker harness/probes_worker.py",
    "the canonicaliser (columns sorted, rows by label, float.hex, integer ns) - column ORDER is deliberately not observed "
    "(theorem C01_new_column_order_irrelevant explains why it may differ)",
    "per-step observation under run()/take_steps() is obtained by an INSTANCE attribute `step` set on the context by the "
    "harness (calls the class's step, then hashes); component instances of the context are the ones the harness built",
    "components of a context restored from a backup are found by capability (any attribute offering list_components()), "
    "not by attribute name; when none is found only the schedule correspondence is skipped",
    "the census is an AST heuristic (names bound to set(...)/set literals/Set annotations inside one file)",
]
LEVEL_NOTE = ("PARTIAL: the Coq theorems cover the schedule under the three drivers and the named set-order channels; that no "
              "other entropy source reaches tables or results is established by the sampled environment differential and "
              "the static census only.")

_POOL = concurrent.futures.ThreadPoolExecutor(max_workers=int(os.environ.get("VERIF_WORKERS", "10")))
_PENDING = {}
_BOOST = [1]
DRIVERS = ["run_simulation", "manual", "i_step", "i_take_steps", "i_run", "i_run_for"]
POLLUTE = ["none", "seed", "consume", "both"]


# ----------------------------------------------------------------------------------------------------------------
# generation
# ----------------------------------------------------------------------------------------------------------------
def gen_envs(rng, program, n_groups, per_group, hashseeds=None):
    # all six drivers for every program: since /repo 98b7435f (finding F-AB) InteractiveContext.run/run_until/run_for are
    # the same `while clock < end: step()` loop as run() - also with per-simulant clocks and inexact SimpleClock steps
    # (theorem C01_run_until_eq_run)
    drivers = list(DRIVERS)
    hashseeds = hashseeds or draw_hashseeds(rng, n_groups)
    groups = [{"hashseed": 0, "envs": [{"driver": "run_simulation", "pollute": "none", "prior": 0}]}]
    todo = [d for d in drivers if d != "run_simulation"]
    rng.shuffle(todo)
    for g in range(n_groups):
        if g > 0:
            groups.append({"hashseed": hashseeds[g], "envs": []})
        while len(groups[g]["envs"]) < per_group:
            d = todo.pop() if todo else rng.choice(drivers)
            e = {"driver": d, "pollute": rng.choice(POLLUTE), "prior": rng.choice([0, 0, 1, 2, 3]),
                 "churn": rng.choice([0, 1, 2, 3, 3])}            # heap churn level (reference environment: none)
            if d == "i_take_steps":
                e["chunk"] = rng.choice([1, 2, 3, 5])
            groups[g]["envs"].append(e)
    return groups


def draw_hashseeds(rng, n_groups):
    """distinct PYTHONHASHSEEDs, the reference group always 0"""
    hs = [0]
    while len(hs) < n_groups:
        h = rng.choice([1, 2, 3, 17, 12345, rng.randint(4, 4000000)])
        if h not in hs:
            hs.append(h)
    return hs


def gen_case(rng, tier, hashseeds=None):
    force = set()
    r = rng.random()
    if r < 0.25:
        force = {"stepmod", "births"}
    elif r < 0.4:
        force = {"mortality", "condition", "obs"}
    elif r < 0.5:
        force = {"residual", "obs", "tables"}
    program = probes.gen_program(rng, max_steps=8 if tier == "quick" else 12, force=force)
    groups = gen_envs(rng, program, 3 if tier == "quick" else 6, 3 if tier == "quick" else 4, hashseeds)
    if tier == "quick":
        groups[0]["envs"] = groups[0]["envs"][:2]          # 2 + 3 + 3 = 8 environments
    return {"program": program, "groups": groups}


BATCH_PROGRAMS = 3      # programs per sub-process (they share the batch's PYTHONHASHSEEDs); start-up dominates the cost
_BATCH = {"cases": [], "hashseeds": None}
_RERUN = [False]
_LAST_FAIL = {}          # program -> the environment that first differed (guides shrink)


class _Slice:
    """future-like view: item `i` of a batched worker result, as the {"outs": ...} a single-program worker returns"""

    def __init__(self, fut, i):
        self.fut, self.i = fut, i

    def result(self):
        res = self.fut.result()
        if "multi" not in res:
            return res
        return {"outs": res["multi"][self.i]}


def _launch_many(cases):
    """One sub-process per group index runs that group's environments of ALL the cases, one program after another.
    The cases must agree on their groups' hash seeds."""
    n_groups = len(cases[0]["groups"])
    per_case = [[] for _ in cases]
    for g in range(n_groups):
        items = [{"program": c["program"], "envs": c["groups"][g]["envs"]} for c in cases]
        fut = _POOL.submit(probes.spawn_worker, {"mode": "multi", "items": items}, cases[0]["groups"][g]["hashseed"])
        for i in range(len(cases)):
            per_case[i].append(_Slice(fut, i))
    return per_case


def _launch(case):
    """Exactly this case: alone, or - when it carries a `prefix` (a failure that only showed up after other programs had
    run in the same processes) - after the prefix programs, as in the batch that found it."""
    prefix = case.get("prefix") or []
    futs = _launch_many(prefix + [case])
    return futs[-1]


def _flush():
    cases = _BATCH["cases"]
    if cases:
        for i, (c, futs) in enumerate(zip(cases, _launch_many(cases))):
            _PENDING[_key(c)] = (futs, cases[:i])
    _BATCH["cases"], _BATCH["hashseeds"] = [], None


def _key(case):
    return json.dumps(case, sort_keys=True)


def make_gen(tier):
    n_groups = 3 if tier == "quick" else 6

    def gen(rng):
        if _BATCH["hashseeds"] is None:
            _BATCH["hashseeds"] = draw_hashseeds(rng, n_groups)
        case = gen_case(rng, tier, _BATCH["hashseeds"])
        _BATCH["cases"].append(case)
        if len(_BATCH["cases"]) >= BATCH_PROGRAMS:
            _flush()                              # sub-processes start now and run while the other cases are generated
        return case
    return gen


# ----------------------------------------------------------------------------------------------------------------
# the differential
# ----------------------------------------------------------------------------------------------------------------
def first_diff(a, b):
    for i, (x, y) in enumerate(zip(a, b)):
        if x != y:
            return i
    return min(len(a), len(b)) if len(a) != len(b) else None


def run_case(case):
    _flush()                                      # the last, possibly incomplete batch
    pending = _PENDING.pop(_key(case), None)
    if pending is None:
        return evaluate(case, _launch(case))
    futs, batch_prefix = pending
    r = evaluate(case, futs)
    if not r.ok and batch_prefix:
        # the case ran after other programs in the same sub-processes: make the replay exact.  For the first failure of
        # a run (the one that becomes the replay) try it alone first, to keep the replay minimal ...
        if not _RERUN[0]:
            _RERUN[0] = True
            alone = evaluate(case, _launch(case))
            if not alone.ok:
                return alone
        # ... otherwise record the process history in the case itself (replays store the case and re-run it with it)
        case["prefix"] = [{"program": c["program"], "groups": c["groups"]} for c in batch_prefix]
        r.msg += " (observed after the programs in case.prefix had run in the same sub-processes)"
    return r


def evaluate(case, futs):
    program = case["program"]
    envs, outs = [], []
    for g, f in zip(case["groups"], futs):
        res = f.result()
        if "outs" not in res:
            return Result(ok=False, msg=f"worker failed (hashseed {g['hashseed']}): {res.get('error')} {res.get('tb', '')[-600:]}")
        for e, o in zip(g["envs"], res["outs"]):
            envs.append(dict(e, hashseed=g["hashseed"]))
            outs.append(o)
    ref_env, ref = envs[0], outs[0]
    ok, msg = True, ""
    obs = {"n_envs": len(envs), "reference": ref_env}
    if "error" in ref:
        return Result(ok=False, msg=f"reference run failed: {ref['error']}\n{ref.get('tb', '')[-800:]}", obs=obs)
    init = next((o["init"] for o in outs if "init" in o), None)
    for e, o in zip(envs[1:], outs[1:]):
        why = None
        if "error" in o:
            why = f"run raised {o['error']}"
        else:
            d = first_diff(ref["digests"], o["digests"])
            if d is not None:
                why = (f"state table differs after step {d + 1}" if d < min(len(ref["digests"]), len(o["digests"]))
                       else f"number of steps differs: {len(ref['digests'])} vs {len(o['digests'])}")
            elif o["final"] != ref["final"]:
                why = "final state table differs"
            elif o["results"] != ref["results"]:
                why = "results differ"
            elif "init" in o and o["init"] != init:
                why = "initial population differs"
        if why and ok:
            ok = False
            msg = f"{why}: environment {json.dumps(e)} vs reference {json.dumps(ref_env)}"
            obs.update(failing_env=e, first_difference=why)
            _LAST_FAIL[json.dumps(program, sort_keys=True)] = e
    # ---- schedule cases for Coq: one per driver kind ----
    coq = None
    rows0 = next((o["rows0"] for o in outs if "rows0" in o), None)
    picks, seen = [], set()
    for e, o in zip(envs, outs):
        kind = 1 if e["driver"].startswith("i_") else (0 if e["driver"] == "run_simulation" else 2)
        if "error" not in o and kind not in seen:
            seen.add(kind)
            picks.append((0 if kind != 1 else 1, o))
    lits = []
    if rows0 is None:
        obs["outside_model"] = "no environment observed the initial population"
    if rows0 is not None:
        for drv, o in picks:
            if not o["trace"]:
                continue
            clock0 = o["trace"][0][2:4]
            lit, why_not = probes.sched_case(program, drv, clock0, rows0, o["trace"], o["actions"], o["rows"], o["clocks"],
                                             with_init=program["pop"] < 4000)
            if lit is not None:
                lits.append(lit)
            else:
                obs["outside_model"] = why_not
    if lits:
        coq = "[" + ";\n   ".join(lits) + "]"
    nontrivial = bool(ref.get("digests")) and (program["pop"] > 0 or any(c["kind"] == "births" for c in program["components"]))
    obs.update(steps=len(ref.get("digests", [])), results=ref.get("results"), rows_final=len(ref["rows"][-1]) if ref.get("rows") else 0)
    tags = probes.program_tags(program) + tuple(f"driver:{e['driver']}" for e in envs) + \
        tuple(f"pollute:{e['pollute']}" for e in envs) + tuple(f"churn:{e.get('churn', 0)}" for e in envs) + (f"steps:{min(len(ref.get('digests', [])), 12)}",)
    return Result(ok=ok, msg=msg, coq=coq, key=_key(program) if nontrivial else None, obs=obs, tags=tags)


OPTIONAL_KINDS = ["obs", "private", "swallow", "snoozer", "residual", "risk", "condition", "births", "tables", "stepmod", "mortality", "pipes"]


def _program_ok(p):
    kinds = [c["kind"] for c in p["components"]]
    if p.get("example"):
        return True
    if "mortality" in kinds and "pipes" not in kinds:
        return False
    if "risk" in kinds and "tables" not in kinds:
        return False
    if any(c["kind"] == "risk" and c.get("use_exposure") for c in p["components"]) and "pipes" not in kinds:
        return False
    if any(c["kind"] == "condition" and c.get("p_inc") is None for c in p["components"]) and "tables" not in kinds:
        return False
    if any(c["kind"] == "obs" and c.get("have_cond") for c in p["components"]) and "condition" not in kinds:
        return False
    return True


def shrink_program(p):
    """Smaller programs: fewer steps, fewer simulants, one optional component less, traits switched off."""
    import copy
    if p["n_min_steps"] > 1:
        for n in sorted({1, p["n_min_steps"] // 2, p["n_min_steps"] - 1}):
            if 1 <= n < p["n_min_steps"]:
                yield dict(copy.deepcopy(p), n_min_steps=n)
    if p["pop"] > 1:
        for n in sorted({1, 2, p["pop"] // 2}):
            if n < p["pop"]:
                yield dict(copy.deepcopy(p), pop=n)
    if p.get("example"):
        return
    for kind in OPTIONAL_KINDS:
        idx = [i for i, c in enumerate(p["components"]) if c["kind"] == kind]
        if idx:
            q = copy.deepcopy(p)
            del q["components"][idx[-1]]
            if kind == "condition":
                for c in q["components"]:
                    if c["kind"] == "obs":
                        c["have_cond"] = False
            if _program_ok(q):
                yield q
    for i, c in enumerate(p["components"]):
        for key, off in (("special", []), ("nan_bin", None), ("nan_exposure", 0), ("empty_calls", False), ("triggered", False),
                         ("every", 0), ("conflict_at", None), ("lifecycle", False), ("setup_dups", False), ("mods", []), ("pafs", []), ("schedule", None), ("use_exposure", False), ("snooze", False)):
            if c.get(key) and c.get(key) != off:
                q = copy.deepcopy(p)
                if key == "schedule":
                    first = sorted(c["schedule"])[0]
                    if len(c["schedule"]) == 1:
                        continue
                    q["components"][i]["schedule"] = {first: c["schedule"][first]}
                else:
                    q["components"][i][key] = off
                yield q
    for key, off in (("end_frac", 0), ("std", None), ("default_strat", None), ("crn", False)):
        if p.get(key):
            q = dict(copy.deepcopy(p), **{key: off})
            if key == "crn":
                for c in q["components"]:
                    if c["kind"] == "base_pop":
                        c["crn"] = False
            yield q


def shrink_case(case):
    """Variants for core's greedy minimiser (each costs a few sub-processes, so the big cuts come first): only the
    reference and the environment that differed; no process history; then smaller programs."""
    import copy
    fail = _LAST_FAIL.get(json.dumps(case["program"], sort_keys=True))
    n_env = sum(len(g["envs"]) for g in case["groups"])
    if case.get("prefix"):
        c = copy.deepcopy(case)
        del c["prefix"]
        yield c
    if fail is not None and n_env > 2:
        c = copy.deepcopy(case)
        c.pop("prefix", None)
        ref = c["groups"][0]["envs"][0]
        e = {k: v for k, v in fail.items() if k != "hashseed"}
        if fail.get("hashseed") == c["groups"][0]["hashseed"]:
            c["groups"] = [{"hashseed": c["groups"][0]["hashseed"], "envs": [ref, e]}]
        else:
            c["groups"] = [{"hashseed": c["groups"][0]["hashseed"], "envs": [ref]}, {"hashseed": fail["hashseed"], "envs": [e]}]
        yield c
    if n_env == 2:
        for g in case["groups"]:
            for i, e in enumerate(g["envs"]):
                if g is case["groups"][0] and i == 0:
                    continue
                for key, off in (("prior", 0), ("pollute", "none"), ("churn", 0)):
                    if e.get(key, off) != off:
                        c = copy.deepcopy(case)
                        gi = case["groups"].index(g)
                        c["groups"][gi]["envs"][i][key] = off
                        yield c
    for q in shrink_program(case["program"]):
        c = copy.deepcopy(case)
        c["program"] = q
        _LAST_FAIL.setdefault(json.dumps(q, sort_keys=True), fail)
        yield c


def corpus():
    d = os.path.join(VERIF, "corpus", "C01")
    out = []
    if os.path.isdir(d):
        for f in sorted(os.listdir(d)):
            if f.startswith("case_") and f.endswith(".json"):
                out.append(json.load(open(os.path.join(d, f))))
    for c in out:
        _PENDING[_key(c)] = (_launch(c), [])
    return out


def streams(tier):
    b = _BOOST[0]
    return [Stream(name="env", imports="From Viv Require Import Common Sim.", check="check_scheds",
                   gen=make_gen(tier), run=run_case, n_quick=15 * b, n_thorough=42 * b, corpus=corpus, shrink=shrink_case,
                   doc="environment differential + schedule correspondence")]


# ----------------------------------------------------------------------------------------------------------------
# static census
# ----------------------------------------------------------------------------------------------------------------
class Census(ast.NodeVisitor):
    def __init__(self, rel, tree):
        self.rel, self.entries, self.stack = rel, [], []
        self.np_names, self.nprandom_names, self.random_mod, self.time_mod, self.time_fn, self.os_mod = set(), set(), set(), set(), set(), set()
        self.uuid_mod, self.set_names = set(), set()
        for n in ast.walk(tree):
            if isinstance(n, ast.Import):
                for a in n.names:
                    nm = a.asname or a.name.split(".")[0]
                    if a.name == "numpy":
                        self.np_names.add(nm)
                    if a.name == "numpy.random":
                        (self.nprandom_names if a.asname else self.np_names).add(nm)
                    if a.name == "random":
                        self.random_mod.add(nm)
                    if a.name == "time":
                        self.time_mod.add(nm)
                    if a.name == "os":
                        self.os_mod.add(nm)
                    if a.name == "uuid":
                        self.uuid_mod.add(nm)
            elif isinstance(n, ast.ImportFrom):
                for a in n.names:
                    nm = a.asname or a.name
                    if n.module == "numpy" and a.name == "random":
                        self.nprandom_names.add(nm)
                    if n.module == "random":
                        self.entries.append(("random", f"from random import {a.name}", n.lineno, "<module>"))
                    if n.module == "numpy.random" and a.name != "RandomState":
                        self.entries.append(("numpy.random", f"from numpy.random import {a.name}", n.lineno, "<module>"))
                    if n.module == "time" and a.name in ("time", "time_ns", "perf_counter", "monotonic"):
                        self.time_fn.add(nm)
                    if n.module == "os" and a.name in ("environ", "getenv", "getpid", "urandom"):
                        self.entries.append(("os-env", f"from os import {a.name}", n.lineno, "<module>"))
            # names that hold sets (file-local heuristic)
            if isinstance(n, ast.Assign) and self._is_set_expr(n.value, shallow=True):
                for t in n.targets:
                    self.set_names.add(ast.unparse(t))
            if isinstance(n, ast.AnnAssign) and ("Set[" in ast.unparse(n.annotation) or "set[" in ast.unparse(n.annotation)):
                self.set_names.add(ast.unparse(n.target))
            if isinstance(n, ast.AugAssign) and isinstance(n.op, ast.BitOr) and self._is_set_expr(n.value, shallow=True):
                self.set_names.add(ast.unparse(n.target))

    def _is_set_expr(self, e, shallow=False):
        if isinstance(e, (ast.Set, ast.SetComp)):
            return True
        if isinstance(e, ast.Call) and isinstance(e.func, ast.Name) and e.func.id in ("set", "frozenset"):
            return True
        if isinstance(e, ast.BinOp) and isinstance(e.op, (ast.BitOr, ast.BitAnd, ast.Sub, ast.BitXor)):
            return self._is_set_expr(e.left, shallow) or self._is_set_expr(e.right, shallow)
        if isinstance(e, ast.Call) and isinstance(e.func, ast.Attribute) and e.func.attr in (
                "union", "intersection", "difference", "symmetric_difference") and self._is_set_expr(e.func.value, shallow):
            return True
        if isinstance(e, (ast.Name, ast.Attribute)) and ast.unparse(e) in self.set_names:
            return True
        return False

    def where(self):
        return ".".join(self.stack) or "<module>"

    def add(self, kind, node):
        self.entries.append((kind, ast.unparse(node)[:120], node.lineno, self.where()))

    def visit_FunctionDef(self, node):
        self.stack.append(node.name)
        self.generic_visit(node)
        self.stack.pop()

    visit_AsyncFunctionDef = visit_FunctionDef
    visit_ClassDef = visit_FunctionDef

    def visit_Attribute(self, node):
        txt = ast.unparse(node)
        base = node.value
        if isinstance(base, ast.Attribute) and isinstance(base.value, ast.Name) and base.value.id in self.np_names \
                and base.attr == "random" and node.attr != "RandomState":
            self.add("numpy.random", node)
        elif isinstance(base, ast.Name) and base.id in self.nprandom_names and node.attr != "RandomState":
            self.add("numpy.random", node)
        elif isinstance(base, ast.Name) and base.id in self.random_mod:
            self.add("random", node)
        elif isinstance(base, ast.Name) and base.id in self.time_mod and node.attr in ("time", "time_ns", "perf_counter", "monotonic"):
            self.add("wall-clock", node)
        elif isinstance(base, ast.Name) and base.id in self.os_mod and node.attr in ("environ", "getenv", "getpid", "urandom"):
            self.add("os-env", node)
        elif isinstance(base, ast.Name) and base.id in self.uuid_mod:
            self.add("os-env", node)
        elif txt.endswith("datetime.now") or txt.endswith("datetime.today") or txt.endswith("Timestamp.now"):
            self.add("wall-clock", node)
        self.generic_visit(node)

    def visit_Call(self, node):
        if isinstance(node.func, ast.Name):
            if node.func.id in ("id", "hash"):
                self.add(node.func.id, node)
            elif node.func.id in self.time_fn:
                self.add("wall-clock", node)
            elif node.func.id in ("list", "tuple", "enumerate", "iter", "next") and node.args and self._is_set_expr(node.args[0]):
                self.add("set-iteration", node)
            elif node.func.id == "sorted" and node.args and self._is_set_expr(node.args[0]):
                self.add("set-sorted", node)
        # RandomState() without a seed reads OS entropy
        if ast.unparse(node.func).endswith("RandomState") and not node.args and not node.keywords:
            self.add("numpy.random", node)
        self.generic_visit(node)

    def visit_For(self, node):
        if self._is_set_expr(node.iter):
            self.add("set-iteration", node.iter)
        self.generic_visit(node)

    def visit_comprehension(self, node):
        if self._is_set_expr(node.iter):
            self.add("set-iteration", node.iter)
        self.generic_visit(node)


def census():
    root = os.path.join(boot.REPO_SRC, "vivarium", "framework")
    entries = []
    for dirpath, _, files in os.walk(root):
        for f in sorted(files):
            if f.endswith(".py"):
                path = os.path.join(dirpath, f)
                rel = os.path.relpath(path, os.path.join(boot.REPO_SRC, "vivarium"))
                try:
                    tree = ast.parse(open(path).read())
                except SyntaxError:
                    continue
                c = Census(rel, tree)
                c.visit(tree)
                entries += [(rel,) + e for e in c.entries]
    return sorted(entries)


def census_counts(entries):
    counts = {}
    for rel, kind, txt, line, where in entries:
        if kind == "set-sorted":
            continue             # sorted(set) is order-free by C01_stratification_order_irrelevant
        counts[f"{rel}::{kind}"] = counts.get(f"{rel}::{kind}", 0) + 1
    return counts


def tables(run):
    entries = census()
    counts = census_counts(entries)
    path = os.path.join(VERIF, "corpus", "C01", "census.json")
    committed = json.load(open(path)) if os.path.exists(path) else {"counts": {}}
    new = {k: (committed["counts"].get(k, 0), v) for k, v in counts.items() if v > committed["counts"].get(k, 0)}
    gone = {k: (v, counts.get(k, 0)) for k, v in committed["counts"].items() if counts.get(k, 0) < v}
    detail = ""
    if new:
        cur = [f"{rel}:{line} {where}: [{kind}] {txt}" for rel, kind, txt, line, where in entries
               if f"{rel}::{kind}" in new]
        detail = ("new entropy-channel candidates (committed count -> current count): " + json.dumps(new) +
                  "\ncurrent entries of these classes:\n" + "\n".join(cur))
        _BOOST[0] = 3
    run.obligation("static census of entropy sources in vivarium/framework matches corpus/C01/census.json "
                   f"({sum(counts.values())} entries in {len(counts)} (file, kind) classes)", not new, detail)
    if gone:
        run.notes.append("census entries that disappeared (harmless, update corpus/C01/census.json): " + json.dumps(gone))
    run.notes.append("census detail: " + "; ".join(f"{rel}:{where}[{kind}]" for rel, kind, txt, line, where in entries))
    return []


def generate_census():
    """Maintenance helper: python -c 'import props.c01 as m; m.generate_census()' rewrites corpus/C01/census.json."""
    entries = census()
    os.makedirs(os.path.join(VERIF, "corpus", "C01"), exist_ok=True)
    why = {
        "numpy.random": "only RandomState(seed=...) objects seeded from sha1(key, clock, seed) may appear",
        "wall-clock": "engine.run: decides WHEN a backup is written, never a value; lifecycle timings feed performance metrics only",
        "id": "object identity used for hashing / names of callables only",
        "hash": "TransitionSet.__hash__ = hash(id(self)) only makes the object usable as a dict key; never ordered by it",
        "set-iteration": "column order of a validated update / required columns / stratification names: C01_update_order_irrelevant, "
                         "C01_new_column_order_irrelevant, C01_stratification_order_irrelevant",
        "os-env": "none expected",
        "random": "none expected",
    }
    json.dump({"_comment": "committed census of possible entropy channels in /repo/src/vivarium/framework (counts per file::kind); "
                           "regenerate with props.c01.generate_census() after reviewing every new entry",
               "counts": census_counts(entries), "why_harmless": why,
               "entries": [f"{rel}:{line} {where}: [{kind}] {txt}" for rel, kind, txt, line, where in entries]},
              open(os.path.join(VERIF, "corpus", "C01", "census.json"), "w"), indent=1)
