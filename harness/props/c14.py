"""C14 - A pipeline value is source, then modifiers in order, then post-processing (DESIGN.md section 5, C14).

Tie to the code: every case builds a real SimulationContext.  2-4 probe components register, in a generated global
order, sources / modifiers / look-ups for 1-4 pipelines (either combiner; no / rate / union / custom post-processor;
modifiers before or after the source; second sources; pipelines that never get a source); an optional component
registers a per-simulant step-size modifier (sub-day clocks included).  After every registration the probe reads the
registry back (source, mutator list, combiner, post-processor of every probe pipeline).  The pipelines are then called
(Pipeline.__call__) after population creation, inside a time_step listener and after steps, with index subsets, extra
positional arguments and skip_post_processor.  Every probe callable logs each call with the arguments it received and
what it returned; the built-in post-processors are wrapped (harness process only, to record - never to alter).

Numbers: probe values are dyadic rationals with small numerators, so replace / list / union arithmetic is exact in
binary64 and compared exactly; rescaled rates (the year, 365*86400 s, is not a power of two) are compared with the
model's exact rational within 4 ulp of the returned float.
"""
import math
import random
import types
from fractions import Fraction

import boot
from core import Result, Stream, cbool, clist, copt, cpair

PROPERTY = "C14"
RULE = ("one case = one real SimulationContext (3-6 simulants; clock step 6h-3d; optional per-simulant step modifier; "
        "1-4 pipelines x {replace,list} x {none,rate,union,custom}; 0-5 non-commuting modifiers each; 2-4 registering "
        "components; 4-14 registration/look-up operations in a generated global order incl. second sources and "
        "unsourced pipelines; 3-9 calls at up to 5 call points). distinct = distinct canonical case; trivial = no call")
ASSUMPTIONS = [
    "probe callables are pure functions of their arguments (v -> a*v+b, tagged contributions); sources of list "
    "pipelines return a fresh list per call (list_combiner appends in place)",
    "probe values are dyadic rationals with small numerators: replace / list / union arithmetic is exact in binary64; "
    "rescaled rates are compared within 4 ulp of the returned float (two correctly rounded operations)",
]
TRUSTED = [
    "C14: probe components/callables and their logs; logging wrappers installed over "
    "vivarium.framework.values.rescale_post_processor / union_post_processor for the duration of a case; the registry is "
    "read back through the public interface only: builder.value.get_value(name) and the documented attributes of "
    "Pipeline (source, mutators, combiner, post_processor; unreadable -> snapshot skipped and counted); step sizes "
    "through builder.time.simulant_step_sizes() / step_size(); no private attribute of /repo/src is read",
]
CLAIM = {
    "technique": "Coq proof over a logging Gallina model of the value pipelines + Coq-decided correspondence on real contexts",
    "text": "Machine-checked (Coq 8.16.1, no axioms) for ALL sequences of registrations, look-ups and calls by any "
            "components in any order, all callables and arguments: a pipeline's mutators are exactly the registered "
            "modifiers in registration order, its source is the first registered one and later ones are rejected "
            "inertly; a call logs exactly source(args), each modifier once in order (replace: previous output as last "
            "argument; list: one appended entry), then the post-processor once unless skipped; no source => rejected "
            "with nothing evaluated; rate post-processor = rate x own step / year (exact, local, linear); union = "
            "1 - prod(1 - p) (in [0,1], order-independent, >= every input). Tied to /repo/src by vm_compute-decided "
            "agreement of registry snapshots, call logs and values on generated real-context cases, plus an "
            "independent oracle (counters, order, recomputed value).",
    "note": "callables are universally quantified pure functions (Section variables); no guard on sources since fix "
            "e7ddbc13 (F-Y; the old truthiness behaviour is kept as an explicitly named old model) nor on post-processors "
            "since 8d240cc5 (F-AD): callables of any truth value are generated; exact rational arithmetic in the model, float rounding of rescaled rates "
            "bounded by 4 ulp in the correspondence only; correspondence sampled",
}

NAMES = {1: "c14_pipe_a", 2: "c14_pipe_b", 3: "c14_pipe_c", 4: "c14_pipe_d"}
KWIDS = {"kw_a": 1, "kw_b": 2}
YEAR_S = 365 * 86400
MAXDEV = [0.0]      # largest observed |float - exact| / ulp over rescaled values of this run


# ----------------------------------------------------------------------------------------------------------------
# exact numbers
# ----------------------------------------------------------------------------------------------------------------
def fr(x):
    return Fraction(x[0], x[1])


def canon_num(v):
    f = Fraction(float(v))
    return [f.numerator, f.denominator]


def canon_value(v):
    """python value -> ["sc", q] | ["vec", [q...]] | ["many", [atom...]] | ["other", text]"""
    import numpy as np
    import pandas as pd
    if isinstance(v, list):
        atoms = [canon_value(x) for x in v]
        if any(a[0] not in ("sc", "vec") for a in atoms):
            return ["other", repr(v)[:80]]
        return ["many", atoms]
    if isinstance(v, pd.Series):
        try:
            return ["vec", [canon_num(x) for x in v.tolist()], [int(i) for i in v.index.tolist()]]
        except Exception:
            return ["other", repr(v)[:80]]
    if isinstance(v, (int, float, np.floating, np.integer)) and not isinstance(v, bool):
        if math.isnan(float(v)) or math.isinf(float(v)):
            return ["other", repr(v)]
        return ["sc", canon_num(v)]
    return ["other", repr(v)[:80]]


def canon_args(args, kwargs=None):
    """arguments -> [index labels | None, extras, [[keyword id, value]...] sorted]"""
    import pandas as pd
    args = list(args)
    idx = None
    if args and isinstance(args[0], pd.Index):
        idx = [int(i) for i in args[0].tolist()]
        args = args[1:]
    kw = sorted([KWIDS.get(k, repr(k)), v if isinstance(v, int) and not isinstance(v, bool) else repr(v)[:30]]
                for k, v in (kwargs or {}).items())
    return [idx, [int(a) if isinstance(a, int) and not isinstance(a, bool) else repr(a)[:30] for a in args], kw]


# ----------------------------------------------------------------------------------------------------------------
# probe callables
# ----------------------------------------------------------------------------------------------------------------
class Recorder:
    def __init__(self):
        self.cur = None          # trace of the call in progress


def eval_entry(entry, args):
    import pandas as pd
    if entry[0] == "sc":
        return float(fr(entry[1]))
    idx = args[0] if args and isinstance(args[0], pd.Index) else pd.Index([], dtype="int64")
    return pd.Series([float(fr(entry[1][int(i)])) for i in idx], index=idx, dtype="float64")


def affine(a, b, v):
    if isinstance(v, list):
        return [a * x + b for x in v]
    return a * v + b


def make_source(rec, sid, spec):
    def source(*args, **kwargs):
        if spec["list"]:
            out = [eval_entry(e, args) for e in spec["entries"]]
        else:
            out = eval_entry(spec["entries"][0], args)
        if rec.cur is not None:
            rec.cur.append({"k": "src", "id": sid, "args": canon_args(args, kwargs), "ret": canon_value(out)})
        return out
    source.__name__ = f"c14_source_{sid}"
    source.vid = sid
    return source


def make_modifier(rec, mid, spec):
    a, b = float(fr(spec["a"])), float(fr(spec["b"]))

    def modifier(*args, **kwargs):
        if spec["conv"] == "replace":
            value, rest = args[-1], args[:-1]
            out = affine(a, b, value)
            last = canon_value(value)
        else:
            rest, last = args, None
            out = eval_entry(spec["entry"], args)
        if rec.cur is not None:
            rec.cur.append({"k": "mod", "id": mid, "args": canon_args(rest, kwargs), "last": last, "ret": canon_value(out)})
        return out
    modifier.__name__ = f"c14_modifier_{mid}"
    modifier.vid = mid
    return modifier


class DualCallable:
    """ONE object registered both as the source of a pipeline and as a modifier (of the same or another pipeline).
    Observation convention: an evaluation of it counts as a source evaluation iff nothing was evaluated before it in the
    current pipeline call (the property puts the source first); it then returns its entry, otherwise it acts as the
    modifier described by its modifier spec."""

    def __init__(self, rec, did, sspec, mspec):
        self._rec, self.vid, self.name, self._s, self._m = rec, did, f"c14_dual_{did}", sspec, mspec
        self._a, self._b = float(fr(mspec["a"])), float(fr(mspec["b"]))

    def __call__(self, *args, **kwargs):
        rec = self._rec
        as_source = rec.cur is not None and len(rec.cur) == 0
        if as_source:
            out = eval_entry(self._s["entries"][0], args)
            rec.cur.append({"k": "src", "id": self.vid, "args": canon_args(args, kwargs), "ret": canon_value(out)})
            return out
        if self._m["conv"] == "replace":
            value, rest = args[-1], args[:-1]
            out, last = affine(self._a, self._b, value), canon_value(value)
        else:
            rest, last = args, None
            out = eval_entry(self._m["entry"], args)
        if rec.cur is not None:
            rec.cur.append({"k": "mod", "id": self.vid, "args": canon_args(rest, kwargs), "last": last, "ret": canon_value(out)})
        return out


class EqCallable:
    """Distinct callable objects that compare EQUAL (and hash alike) when they share an eqkey."""

    def __init__(self, fn, eqkey):
        self._fn, self.vid, self.name, self._eqkey = fn, fn.vid, fn.__name__, eqkey

    def __call__(self, *args, **kwargs):
        return self._fn(*args, **kwargs)

    def __eq__(self, other):
        return isinstance(other, EqCallable) and other._eqkey == self._eqkey

    def __hash__(self):
        return hash(("c14_eq", self._eqkey))


def make_custom_post(rec, cid, spec):
    c, d = float(fr(spec["c"])), float(fr(spec["d"]))

    def post(value, manager):
        if rec.cur is not None:
            rec.cur.append({"k": "post", "kind": ["custom", cid], "val": canon_value(value)})
        return affine(c, d, value)
    post.__name__ = f"c14_post_{cid}"
    post.kind = ["custom", cid]
    return post


class CallableObject:
    """An ordinary callable object (third flavour besides plain functions and bound methods)."""

    def __init__(self, fn, truthy=True):
        self._fn, self.vid, self.name, self._truthy = fn, fn.vid, fn.__name__, truthy

    def __call__(self, *args, **kwargs):
        return self._fn(*args, **kwargs)

    def __len__(self):          # consulted by bool(): an "empty" callable container is falsy (finding F-Y)
        return 1 if self._truthy else 0


class FalsyCallable:
    """A callable whose __bool__ says False."""

    def __init__(self, fn):
        self._fn, self.vid, self.name = fn, fn.vid, fn.__name__

    def __call__(self, *args, **kwargs):
        return self._fn(*args, **kwargs)

    def __bool__(self):
        return False


def flavoured(fn, flavour, owner, truthy=True):
    if not truthy:
        return FalsyCallable(fn) if flavour == "method" else CallableObject(fn, truthy=False)
    if flavour == "method":
        def method(self_, *args, **kwargs):
            return fn(*args, **kwargs)
        method.__name__ = fn.__name__
        method.vid = fn.vid
        return types.MethodType(method, owner)
    if flavour == "obj":
        return CallableObject(fn)
    return fn


class FalsyPost:
    """A post-processor callable whose truth value is False (finding F-AD)."""

    def __init__(self, fn, via_len):
        self._fn, self.kind, self.name, self._via_len = fn, fn.kind, fn.__name__, via_len

    def __call__(self, value, manager):
        return self._fn(value, manager)

    def __bool__(self):
        return False

    def __len__(self):
        return 0 if self._via_len else 1


class PostWrappers:
    """Logging wrappers over the built-in post-processors, installed in vivarium.framework.values for one case."""

    def __init__(self, rec):
        self.rec = rec

    def __enter__(self):
        from vivarium.framework import values
        self.mod = values
        self.orig = (values.rescale_post_processor, values.union_post_processor)
        rec, (rescale, union) = self.rec, self.orig

        def rescale_logged(value, manager):
            if rec.cur is not None:
                rec.cur.append({"k": "post", "kind": ["rescale"], "val": canon_value(value)})
            return rescale(value, manager)

        def union_logged(values_, manager):
            if rec.cur is not None:
                rec.cur.append({"k": "post", "kind": ["union"], "val": canon_value(values_)})
            return union(values_, manager)
        rescale_logged.kind, union_logged.kind = ["rescale"], ["union"]
        rescale_logged.__name__, union_logged.__name__ = "rescale_post_processor", "union_post_processor"
        values.rescale_post_processor, values.union_post_processor = rescale_logged, union_logged
        return self

    def __exit__(self, *a):
        self.mod.rescale_post_processor, self.mod.union_post_processor = self.orig


# ----------------------------------------------------------------------------------------------------------------
# running a case
# ----------------------------------------------------------------------------------------------------------------
def err_code(e):
    from vivarium.framework.resource import ResourceError
    from vivarium.framework.values import DynamicValueError
    if e is None:
        return 0
    if isinstance(e, DynamicValueError):
        return 1
    if isinstance(e, ResourceError):
        return 2
    return 3


def read_registry(get_value, touched):
    """{pipe id: [source id|None, [mutator ids], combiner 0/1/None, post kind|None]} of the probe pipelines that some
    operation has named so far - read through the PUBLIC interface: builder.value.get_value(name) and the documented
    attributes of Pipeline.  (get_value on a name that an operation has already named changes nothing that is
    registered: C14_get_value_inert.)  Returns None when the attributes cannot be read (counted, never a failure)."""
    from vivarium.framework import values
    out = {}
    try:
        for n in sorted(touched):
            pipe = get_value(NAMES[n])
            source, mutators = pipe.source, list(pipe.mutators)
            combiner, post_processor = pipe.combiner, pipe.post_processor
            src = None if source is None else source_id(source)
            muts = [getattr(m, "vid", -1) for m in mutators]
            comb = 0 if combiner is values.replace_combiner else 1 if combiner is values.list_combiner else None
            post = getattr(post_processor, "kind", ["unknown"]) if post_processor is not None else None
            out[n] = [src, muts, comb, post]
    except AttributeError:
        return None
    return out


def source_id(source):
    """probe callables carry their id; a Pipeline used as a source is 100 + the id of the pipeline it is"""
    from vivarium.framework.values import Pipeline
    if isinstance(source, Pipeline):
        inv = {v: k for k, v in NAMES.items()}
        return 100 + inv.get(getattr(source, "name", None), 99)
    return getattr(source, "vid", -1)


def run_context(case):
    import pandas as pd
    from vivarium import Component
    from vivarium.framework import values
    from vivarium.framework.engine import SimulationContext

    rec = Recorder()
    reg_log = []            # one entry per registration / look-up, in execution order
    handles = {}            # pipe id -> Pipeline (from the caller component's get_value)
    shared = {"get_value": None, "sss": None, "gstep": None, "hook": None, "touched": set()}

    def post_of(spec):
        if spec is None:
            return None
        if spec[0] == "rescale":
            return values.rescale_post_processor
        if spec[0] == "union":
            return values.union_post_processor
        return custom_posts[spec[1]]

    objs = {}               # callable id -> THE object (one object per id, however often and wherever it is registered)

    def get_obj(kind, oid, owner):
        if oid in objs:
            return objs[oid]
        ssp, msp = case["sources"].get(str(oid)), case["mods"].get(str(oid))
        if ssp is not None and msp is not None:
            o = DualCallable(rec, oid, ssp, msp)
        elif kind == "src":
            o = flavoured(make_source(rec, oid, ssp), ssp["flavour"], owner, ssp.get("truthy", True))
        elif msp.get("eqkey") is not None:
            o = EqCallable(make_modifier(rec, oid, msp), msp["eqkey"])
        else:
            o = flavoured(make_modifier(rec, oid, msp), msp["flavour"], owner)
        objs[oid] = o
        return o

    custom_posts = {}
    for cid, sp in case["posts"].items():
        fn = make_custom_post(rec, int(cid), sp)
        custom_posts[int(cid)] = fn if sp.get("truthy", True) else FalsyPost(fn, int(cid) % 2 == 0)

    class Registrar(Component):
        def __init__(self, cname, actions):
            super().__init__()
            self._cname, self._actions = cname, actions

        @property
        def name(self):
            return self._cname

        def setup(self, builder):
            if shared["get_value"] is None:
                shared["get_value"] = builder.value.get_value
                shared["sss"] = builder.time.simulant_step_sizes()
                shared["gstep"] = builder.time.step_size()
            for act in self._actions:
                err = None
                try:
                    if act[0] == "prod":
                        _, n, sid = act
                        sp = case["sources"][str(sid)]
                        if sp.get("nested"):
                            # the source is another pipeline itself: fetch it first (a look-up, logged as one)
                            q = sp["nested"]
                            fn = builder.value.get_value(NAMES[q])
                            shared["touched"].add(q)
                            reg_log.append({"act": ["get", q], "code": 0, "err": None,
                                            "snap": read_registry(shared["get_value"], shared["touched"])})
                        else:
                            fn = get_obj("src", sid, self)
                        comb = values.replace_combiner if sp["comb"] == 0 else values.list_combiner
                        if sp["post"] == ["rescale"] and sp["comb"] == 0 and sp.get("via_rate") and not sp.get("nested"):
                            builder.value.register_rate_producer(NAMES[n], fn)
                        else:
                            builder.value.register_value_producer(NAMES[n], fn, preferred_combiner=comb,
                                                                  preferred_post_processor=post_of(sp["post"]))
                    elif act[0] == "mod":
                        _, n, mid = act
                        sp = case["mods"][str(mid)]
                        builder.value.register_value_modifier(NAMES[n], get_obj("mod", mid, self))
                    elif act[0] == "get":
                        handles[act[1]] = builder.value.get_value(NAMES[act[1]])
                except Exception as e:
                    err = e
                shared["touched"].add(act[1])
                reg_log.append({"act": act, "code": err_code(err), "err": type(err).__name__ if err else None,
                                "snap": read_registry(shared["get_value"], shared["touched"])})
            if self._cname == "c14_caller":
                builder.event.register_listener("time_step", self.on_ts)

        def on_ts(self, event):
            if shared["hook"]:
                shared["hook"]()

    class StepMod(Component):
        @property
        def name(self):
            return "c14_stepmod"

        def setup(self, builder):
            hours = case["stepmod"]
            builder.time.register_step_size_modifier(
                lambda idx: pd.Series([pd.Timedelta(hours=hours[int(i)]) for i in idx], index=idx))

    comps = ([StepMod()] if case["stepmod"] else []) + [Registrar(c["name"], c["actions"]) for c in case["components"]]
    boot.reset_contexts()
    cfg = {"population": {"population_size": case["npop"]},
           "time": {"start": {"year": 2005, "month": 7, "day": 1}, "end": {"year": 2006, "month": 7, "day": 1},
                    "step_size": case["step"]}}
    calls_out = []
    with PostWrappers(rec):
        sim = SimulationContext(components=comps, configuration=cfg, logging_verbosity=0)
        boot.quiet_logging()
        sim.setup()
        sim.initialize_simulants()

        def do_calls(phase):
            for ci, c in enumerate(case["calls"]):
                if c["when"] != phase:
                    continue
                pipe = handles[c["pipe"]]
                args = ([pd.Index(c["idx"], dtype="int64")] if c["idx"] is not None else []) + list(c["extras"])
                steps = []
                if c["idx"] is not None:
                    s = shared["sss"](pd.Index(c["idx"], dtype="int64"))
                    steps = [int(pd.Timedelta(x).value) for x in s.tolist()]
                gstep = int(pd.Timedelta(shared["gstep"]()).value)
                rec.cur = []
                err = out = None
                try:
                    kw = dict(c.get("kwargs") or {})
                    out = pipe(*args, skip_post_processor=True, **kw) if c["skip"] else pipe(*args, **kw)
                except Exception as e:
                    err = e
                trace, rec.cur = rec.cur, None
                calls_out.append({"ci": ci, "code": err_code(err), "err": f"{type(err).__name__}: {err}"[:160] if err else None,
                                  "trace": trace, "raw": out, "value": canon_value(out) if err is None else None,
                                  "steps": steps, "gstep": gstep,
                                  "snap": read_registry(shared["get_value"], shared["touched"])})

        do_calls(0)
        fired = []

        def hook():
            if not fired:
                fired.append(1)
                do_calls(1)
        shared["hook"] = hook
        for k in range(case["nsteps"]):
            sim.step()
            do_calls(2 + k)
    calls_out.sort(key=lambda c: c["ci"])
    return reg_log, calls_out


# ----------------------------------------------------------------------------------------------------------------
# exact reference arithmetic for the direct oracle (independent of the Coq model)
# ----------------------------------------------------------------------------------------------------------------
def model_sid(case, sid):
    """the id the model (and the registry read-back) uses for a source: 100 + q for 'pipeline q itself'"""
    sp = case["sources"][str(sid)]
    return 100 + sp["nested"] if sp.get("nested") else sid


def fl_of(x):
    """binary64 -> (mantissa, exponent) with |mantissa| in [2^52, 2^53) or (0, 0)"""
    x = float(x)
    if x == 0.0:
        return (0, 0)
    m, e = math.frexp(x)
    return (int(m * (1 << 53)), e - 53)


def atom_q(a):
    """canonical atom -> ("sc", Fraction) | ("vec", [Fraction])"""
    return ("sc", fr(a[1])) if a[0] == "sc" else ("vec", [fr(x) for x in a[1]])


def entry_q(entry, idx):
    if entry[0] == "sc":
        return ("sc", fr(entry[1]))
    return ("vec", [fr(entry[1][i]) for i in (idx or [])])


def amap(f, a):
    return (a[0], f(a[1])) if a[0] == "sc" else (a[0], [f(x) for x in a[1]])


def expected_value(case, state, c):
    """-> ("exact", shape, value) | ("rate", shape, [Fraction]) | None when the combination raises / is outside the
    oracle's scope (then only the generic checks apply)."""
    sp = case["sources"][str(state["src"])]
    idx = c["idx"]
    if sp.get("nested"):
        inner = c["_states"].get(sp["nested"])
        if inner is None or inner["src"] is None:
            return None
        iv = expected_value(case, inner, dict(c, skip=False))
        if iv is None or iv[0] != "exact":
            return None
        v = iv[1]
    elif sp["list"]:
        v = ("many", [entry_q(e, idx) for e in sp["entries"]])
    else:
        v = entry_q(sp["entries"][0], idx)
    for mid in state["mods"]:
        m = case["mods"][str(mid)]
        if sp["comb"] == 0:
            a, b = fr(m["a"]), fr(m["b"])
            f = lambda x, a=a, b=b: a * x + b
            v = ("many", [amap(f, t) for t in v[1]]) if v[0] == "many" else amap(f, v)
        else:
            if v[0] != "many":
                return None
            v = ("many", v[1] + [entry_q(m["entry"], idx)])
    post = sp["post"]
    if post is None or c["skip"]:
        return ("exact", v)
    if post[0] == "custom":
        p = case["posts"][str(post[1])]
        cc, d = fr(p["c"]), fr(p["d"])
        f = lambda x: cc * x + d
        return ("exact", ("many", [amap(f, t) for t in v[1]]) if v[0] == "many" else amap(f, v))
    if post[0] == "union":
        if v[0] == "vec":           # a bare Series is taken as the list of its elements
            if len(v[1]) == 1:
                return ("exact", ("sc", v[1][0])) if idx == [0] else None
            prod = Fraction(1)
            for x in v[1]:
                prod *= 1 - x
            return ("exact", ("sc", 1 - prod))
        if v[0] != "many":
            return None
        atoms = v[1]
        if len(atoms) == 1:
            return ("exact", atoms[0])
        n = next((len(a[1]) for a in atoms if a[0] == "vec"), None)

        def at(a, i):
            return a[1] if a[0] == "sc" else a[1][i]

        def joint(i):
            prod = Fraction(1)
            for a in atoms:
                prod *= 1 - at(a, i)
            return 1 - prod
        return ("exact", ("sc", joint(0)) if n is None else ("vec", [joint(i) for i in range(n)]))
    if post[0] == "rescale":
        if v[0] == "many":
            return None
        if v[0] == "sc":
            return ("rate", ("sc", v[1] * Fraction(c["_gstep"], 10 ** 9) / YEAR_S))
        return ("rate", ("vec", [x * Fraction(s, 10 ** 9) / YEAR_S for x, s in zip(v[1], c["_steps"])]))
    return None


def close(f, x):
    """|f - x| <= 4 ulp(f) (exactly zero for a float zero); records the deviation"""
    m, e = fl_of(f)
    if m == 0:
        return x == 0
    dev = abs(Fraction(f) - x) / (Fraction(2) ** e)
    MAXDEV[0] = max(MAXDEV[0], float(dev))
    return dev <= 4


def expect_events(case, state, n, skip):
    """what a call of pipeline n must evaluate, in order: [("src", id) | ("mod", id) | ("post", kind)], or None when a
    pipeline down the chain has no source (the call must then be rejected with nothing evaluated)"""
    st = state.get(n)
    if st is None or st["src"] is None:
        return None
    sp = case["sources"][str(st["src"])]
    if sp.get("nested"):
        ev = expect_events(case, state, sp["nested"], False)
        if ev is None:
            return None
    else:
        ev = [("src", st["src"])]
    ev = ev + [("mod", m) for m in st["mods"]]
    if sp["post"] is not None and not skip:
        ev.append(("post", tuple(sp["post"])))
    return ev


def oracle_nested(case, state, n, spec, c, want_args):
    """a pipeline whose source is another pipeline: the inner evaluation is embedded once, then the outer stages"""
    ev = expect_events(case, state, n, spec["skip"])
    tr = c["trace"]
    if ev is None:
        if c["code"] != 1 or tr:
            return False, f"call {c['ci']}: a pipeline down the chain of {n} has no source, yet outcome {c['err'] or 'returned'} / {len(tr)} evaluations"
        return True, ""
    if c["code"] == 1:
        return False, f"call {c['ci']}: fully sourced chain of pipeline {n} raised {c['err']}"
    if c["code"] != 0:
        return True, ""
    got = [(t["k"], t["id"]) if t["k"] != "post" else ("post", tuple(t["kind"])) for t in tr]
    if got != ev:
        return False, f"call {c['ci']}: nested evaluation {got} differs from {ev} (inner pipeline once, then outer stages)"
    for t in tr:
        if t["k"] != "post" and t["args"] != want_args:
            return False, f"call {c['ci']}: {t['k']} {t['id']} received {t['args']} instead of {want_args}"
    exp = expected_value(case, state[n], dict(spec, _steps=c["steps"], _gstep=c["gstep"], _states=state))
    if exp is not None and exp[0] == "exact":
        v = c["value"]
        if v[0] == "other":
            return False, f"call {c['ci']}: returned {v[1]}"
        g = ("many", [atom_q(a) for a in v[1]]) if v[0] == "many" else atom_q(v)
        if g != exp[1]:
            return False, f"call {c['ci']}: value {g} differs from inner value -> outer modifiers -> outer post {exp[1]}"
    return True, ""


def oracle(case, reg_log, calls):
    """The property statement on the observed registrations, logs and values."""
    state = {}              # pipe id -> {"src": sid|None, "mods": [...]} as the property prescribes

    def want_snap():
        out = {}
        for n, st in state.items():
            if st["src"] is None:
                out[n] = [None, list(st["mods"]), None, None]
            else:
                sp = case["sources"][str(st["src"])]
                out[n] = [model_sid(case, st["src"]), list(st["mods"]), sp["comb"], sp["post"]]
        return out

    def snap_matches(snap):
        w = want_snap()
        if set(snap) != set(w):
            return False
        for n in w:
            if snap[n][:2] != w[n][:2]:
                return False
            if w[n][0] is not None and snap[n][2:] != w[n][2:]:
                return False
        return True

    for e in reg_log:
        act = e["act"]
        n = act[1]
        st = state.setdefault(n, {"src": None, "mods": []})
        if act[0] == "prod":
            if st["src"] is None:
                if e["code"] != 0:
                    return False, f"first source {act[2]} of pipeline {n} was refused ({e['err']})"
                st["src"] = act[2]
            else:
                if e["code"] == 0:
                    return False, f"second source {act[2]} for pipeline {n} was accepted"
                if e["code"] != 1:
                    return False, f"second source {act[2]} for pipeline {n}: {e['err']} instead of DynamicValueError"
        elif act[0] == "mod":
            if e["code"] != 0:
                return False, f"modifier {act[2]} of pipeline {n} was refused ({e['err']})"
            st["mods"].append(act[2])
        elif e["code"] != 0:
            return False, f"get_value({n}) raised {e['err']}"
        if e["snap"] is not None and not snap_matches(e["snap"]):
            return False, f"after {act}: registry {e['snap']} is not {want_snap()} (second source must change nothing)"
    for c, spec in zip(calls, case["calls"]):
        n = spec["pipe"]
        st = state.get(n, {"src": None, "mods": []})
        if c["snap"] is not None and not snap_matches(c["snap"]):
            return False, f"call {c['ci']} changed the registry: {c['snap']}"
        tr = c["trace"]
        want_args = [spec["idx"], list(spec["extras"]), sorted([KWIDS[k], v] for k, v in (spec.get("kwargs") or {}).items())]
        if st["src"] is None:
            if c["code"] != 1 or tr:
                return False, (f"call {c['ci']} of pipeline {n} without a source: outcome {c['err'] or 'returned'}, "
                               f"{len(tr)} callables evaluated (expected DynamicValueError, none)")
            continue
        sp = case["sources"][str(st["src"])]
        if sp.get("nested"):
            o, m_ = oracle_nested(case, state, n, spec, c, want_args)
            if not o:
                return False, m_
            continue
        nsrc = [t for t in tr if t["k"] == "src"]
        if c["code"] == 1:
            return False, f"call {c['ci']}: sourced pipeline {n} raised {c['err']}"
        if tr and tr[0]["k"] != "src":
            return False, f"call {c['ci']}: {tr[0]['k']} evaluated before the source"
        if len(nsrc) != 1 or nsrc[0]["id"] != st["src"] or nsrc[0]["args"] != want_args:
            return False, f"call {c['ci']}: source evaluations {[(t['id'], t['args']) for t in nsrc]}, expected once {st['src']} with {want_args}"
        if c["code"] != 0:
            continue            # a callable / post-processor raised on a value of the wrong shape: nothing more is promised
        mods = [t for t in tr if t["k"] == "mod"]
        if [t["id"] for t in mods] != st["mods"]:
            return False, f"call {c['ci']}: modifiers evaluated {[t['id'] for t in mods]}, registered {st['mods']}"
        prev = nsrc[0]["ret"]
        for t in mods:
            if t["args"] != want_args:
                return False, f"call {c['ci']}: modifier {t['id']} received {t['args']} instead of {want_args}"
            if sp["comb"] == 0:
                if t["last"] != prev:
                    return False, f"call {c['ci']}: modifier {t['id']} did not receive the previous stage's output as last argument"
                prev = t["ret"]
            elif t["last"] is not None:
                return False, f"call {c['ci']}: list modifier {t['id']} received an extra argument"
        posts = [t for t in tr if t["k"] == "post"]
        applies = sp["post"] is not None and not spec["skip"]
        if len(posts) != (1 if applies else 0):
            return False, f"call {c['ci']}: post-processor evaluated {len(posts)} times (skip={spec['skip']}, post={sp['post']})"
        if applies and (tr[-1]["k"] != "post" or posts[0]["kind"] != sp["post"]):
            return False, f"call {c['ci']}: post-processor {posts[0]['kind']} not last / not the registered one"
        if applies and sp["comb"] == 0 and posts[0]["val"] != prev:
            return False, f"call {c['ci']}: post-processor did not receive the last stage's output"
        spec2 = dict(spec, _steps=c["steps"], _gstep=c["gstep"], _states=state)
        exp = expected_value(case, st, spec2)
        if exp is None:
            continue
        got = c["value"]
        if got[0] == "other":
            return False, f"call {c['ci']}: returned {got[1]}"
        if got[0] == "vec" and spec["idx"] is not None and got[2] != spec["idx"]:
            return False, f"call {c['ci']}: result indexed {got[2]} instead of {spec['idx']}"
        kind, want = exp
        if kind == "exact":
            g = ("many", [atom_q(a) for a in got[1]]) if got[0] == "many" else atom_q(got)
            if g != want:
                return False, f"call {c['ci']}: value {g} differs from source->modifiers->post recomputed {want}"
        else:
            raw = c["raw"]
            if want[0] == "sc":
                okv = got[0] == "sc" and close(float(raw), want[1])
            else:
                okv = got[0] == "vec" and len(got[1]) == len(want[1]) and all(close(f, x) for f, x in zip(raw.tolist(), want[1]))
            if not okv:
                return False, (f"call {c['ci']}: rescaled rate {got[1]} is not annual rate x own step size / 1 year "
                               f"(steps ns {c['steps']}, global {c['gstep']})")
    return True, ""


# ----------------------------------------------------------------------------------------------------------------
# Coq rendering
# ----------------------------------------------------------------------------------------------------------------
def cz(n):
    n = int(n)
    return f"({n})" if n < 0 else f"{n}"


def czlist(ns):
    return clist(cz(n) for n in ns)


def cq(x):
    return f"({cz(x[0])}, {cz(x[1])})"


def catom(a):
    return f"Sc {cq(a[1])}" if a[0] == "sc" else "Vec " + clist(cq(x) for x in a[1])


def cpv(v):
    if v[0] == "many":
        return "Many " + clist(catom(a) for a in v[1])
    return f"One ({catom(v)})"


def centry(e):
    if e[0] == "sc":
        return f"NSc {cq(e[1])}"
    return "NTbl " + clist(cpair(cz(i), cq(x)) for i, x in enumerate(e[1]))


def cpost(p):
    if p is None:
        return "PNone"
    return {"rescale": "PRescale", "union": "PUnion"}.get(p[0]) or f"(PCustom {cz(p[1])})"


def ccomb(c):
    return "CList" if c == 1 else "CReplace"


def carg(a):
    return cpair(copt(a[0], czlist), czlist(a[1]), clist(cpair(cz(k), cz(v)) for k, v in a[2]))


def coq_ok(v):
    """is a logged value / argument list inside the model's value language?"""
    return v is None or v[0] in ("sc", "vec", "many")


def cev(t):
    if t["k"] == "src":
        return f"ESrc {cz(t['id'])} {carg(t['args'])}"
    if t["k"] == "mod":
        return f"EMod {cz(t['id'])} {carg(t['args'])} {copt(t['last'], lambda v: '(' + cpv(v) + ')')}"
    return f"EPost {cpost(t['kind'])} ({cpv(t['val'])})"


def csnap(snap):
    return clist(cpair(cz(n), cpair(copt(s[0], cz), czlist(s[1]), ccomb(s[2]), cpost(s[3]))) for n, s in sorted(snap.items()))


def render(case, reg_log, calls):
    env = ("{| e_srcs := " + clist(cpair(cz(int(sid)), cpair(cbool(sp.get("truthy", True)), cbool(sp["list"]),
                                                             clist(centry(e) for e in sp["entries"])))
                                   for sid, sp in sorted(case["sources"].items(), key=lambda kv: int(kv[0]))) +
           "; e_mods := " + clist(cpair(cz(int(mid)), cpair(cq(m["a"]), cq(m["b"]), centry(m["entry"])))
                                  for mid, m in sorted(case["mods"].items(), key=lambda kv: int(kv[0]))) +
           "; e_posts := " + clist(cpair(cz(int(cid)), cpair(cq(p["c"]), cq(p["d"])))
                                   for cid, p in sorted(case["posts"].items(), key=lambda kv: int(kv[0]))) + " |}")
    items = []
    for e in reg_log:
        act = e["act"]
        if e["snap"] is not None and any(
                s[0] == -1 or -1 in s[1] or (s[3] is not None and s[3][0] == "unknown") or (s[0] is not None and s[2] is None)
                for s in e["snap"].values()):
            return None
        if act[0] == "prod":
            sp = case["sources"][str(act[2])]
            op = f"RegisterProducer {cz(act[1])} {cz(model_sid(case, act[2]))} {ccomb(sp['comb'])} {cpost(sp['post'])}"
        elif act[0] == "mod":
            op = f"RegisterModifier {cz(act[1])} {cz(act[2])}"
        else:
            op = f"GetValue {cz(act[1])}"
        # Coq sees the touched pipeline after every operation and the whole registry after the last one (the python
        # oracle compares the whole registry every time)
        full = e["snap"] or {}            # {} when the registry could not be read back (nothing to compare)
        snap = full if e is reg_log[-1] else {k: v for k, v in full.items() if k == act[1]}
        items.append(cpair(f"XOp ({op})", f"BReg {cz(e['code'])} {csnap(snap)}"))
    for c, spec in zip(calls, case["calls"]):
        for t in c["trace"]:
            targs = t.get("args", [None, [], []])
            if (not coq_ok(t.get("last")) or not coq_ok(t.get("val")) or any(isinstance(x, str) for x in targs[1])
                    or any(isinstance(k, str) or isinstance(v, str) for k, v in targs[2])):
                return None
        kws = sorted([KWIDS[k], v] for k, v in (spec.get("kwargs") or {}).items())
        xcall = (f"XCall {cz(spec['pipe'])} {carg([spec['idx'], spec['extras'], kws])} {cbool(spec['skip'])} "
                 f"{czlist(c['steps'])} {cz(c['gstep'])}")
        if c["code"] != 0:
            val = "None"
        else:
            v = c["value"]
            if v[0] == "other":
                return None
            st_post = None
            rescaled = False
            for e in reg_log:       # the post-processor in force = that of the first accepted producer
                if e["act"][0] == "prod" and e["act"][1] == spec["pipe"] and e["code"] == 0:
                    st_post = case["sources"][str(e["act"][2])]["post"]
                    break
            rescaled = st_post == ["rescale"] and not spec["skip"]
            if rescaled:
                raw = c["raw"]
                fls = [fl_of(raw)] if v[0] == "sc" else [fl_of(x) for x in raw.tolist()] if v[0] == "vec" else None
                if fls is None:
                    return None
                val = f"(Some (OF {cbool(v[0] == 'sc')} {clist(cpair(cz(m), cz(e)) for m, e in fls)}))"
            else:
                val = f"(Some (OV ({cpv(v)})))"
        items.append(cpair(f"{xcall}", f"BCall {cz(c['code'])} {clist(cev(t) for t in c['trace'])} {val}"))
    return f"(({env}, {clist(items)}) : ccase)"


def run_case(case):
    reg_log, calls = run_context(case)
    ok, msg = oracle(case, reg_log, calls)
    coq = render(case, reg_log, calls)
    tags = set()
    for e in reg_log:
        tags.add(f"reg_{e['act'][0]}_code{e['code']}")
        if e["snap"] is None:
            tags.add("registry_unreadable_skipped")
        if e["act"][0] == "prod" and e["code"] == 1 and any(
                not case["sources"][str(x["act"][2])].get("truthy", True) for x in reg_log
                if x["act"][0] == "prod" and x["act"][1] == e["act"][1] and x["code"] == 0):
            tags.add("reg_second_source_after_falsy_rejected")
    for c, spec in zip(calls, case["calls"]):
        tags.add(f"call_code{c['code']}")
        tags.add(f"call_mods{min(sum(1 for t in c['trace'] if t['k'] == 'mod'), 5)}")
        if spec["skip"]:
            tags.add("call_skip")
        if spec.get("kwargs"):
            tags.add("call_kwargs")
        mids = [t["id"] for t in c["trace"] if t["k"] == "mod"]
        if len(set(mids)) < len(mids):
            tags.add("call_same_object_applied_repeatedly")
        if any(str(m) in case["sources"] for m in mids):
            tags.add("call_dual_source_and_modifier_object")
        eqs = [case["mods"][str(m)].get("eqkey") for m in mids if str(m) in case["mods"]]
        if any(k is not None and eqs.count(k) > 1 for k in eqs):
            tags.add("call_equal_but_distinct_objects")
        if len([t for t in c["trace"] if t["k"] == "src"]) == 1 and c["trace"][0]["k"] == "src":
            owner = next((e["act"][1] for e in reg_log if e["act"][0] == "prod" and e["act"][2] == c["trace"][0]["id"]), None)
            if owner is not None and owner != spec["pipe"]:
                tags.add("call_nested_pipeline_source")
        if not c["trace"] and c["code"] == 1 and any(e["act"][0] == "mod" and e["act"][1] == spec["pipe"] for e in reg_log):
            tags.add("call_unsourced_with_modifiers_rejected")
        if any(t["k"] == "post" and t["kind"] == ["union"] and t["val"][0] == "vec" for t in c["trace"]):
            tags.add("call_union_over_series")
        if any(t["k"] == "src" and not case["sources"][str(t["id"])].get("truthy", True) for t in c["trace"]):
            tags.add("call_falsy_source")
        if any(t["k"] == "post" and t["kind"][0] == "custom" and not case["posts"][str(t["kind"][1])].get("truthy", True)
               for t in c["trace"]):
            tags.add("call_falsy_post_applied")
        if c["steps"] and len(set(c["steps"])) > 1:
            tags.add("call_distinct_steps")
        if any(s % 86400000000000 for s in c["steps"]):
            tags.add("call_subday_steps")
        for t in c["trace"]:
            if t["k"] == "post":
                tags.add("post_" + t["kind"][0])
    tags.add(f"pipes{len({a[1] for comp in case['components'] for a in comp['actions']})}")
    obs = {"registrations": [{"act": e["act"], "code": e["code"], "snap": e["snap"]} for e in reg_log],
           "calls": [{k: c[k] for k in ("ci", "code", "err", "trace", "value", "steps", "gstep")} for c in calls]}
    key = {k: v for k, v in case.items()} if calls else None
    return Result(ok=ok, msg=msg, coq=coq, key=key, obs=obs, tags=tuple(sorted(tags)))


# ----------------------------------------------------------------------------------------------------------------
# generator
# ----------------------------------------------------------------------------------------------------------------
A_CHOICES = [[2, 1], [3, 1], [1, 2], [-1, 1], [3, 2], [1, 4], [-1, 2], [1, 1], [5, 4]]
B_CHOICES = [[0, 1], [1, 1], [-1, 2], [3, 4], [1, 4], [-3, 1], [2, 1], [1, 8]]
PROBS = [[0, 1], [1, 8], [1, 4], [3, 8], [1, 2], [3, 4], [7, 8], [1, 1], [1, 16]]
RATES = [[0, 1], [1, 2], [1, 1], [3, 2], [2, 1], [5, 1], [12, 1], [1, 4], [73, 1], [365, 1], [1, 8]]


def gen_entry(rng, n, pool, scalar_only):
    if scalar_only or rng.random() < 0.35:
        return ["sc", rng.choice(pool)]
    return ["tbl", [rng.choice(pool) for _ in range(n)]]


def gen_case(rng: random.Random):
    n = rng.randint(3, 6)
    step = rng.choice([1, 1, 1, 0.5, 0.5, 0.25, 2, 3])
    stepmod = None
    if rng.random() < 0.65:
        base = int(step * 24)
        stepmod = [base * rng.choice([1, 1, 2, 3, 4, 5, 1.5, 2.5, 7]) for _ in range(n)]
    nsteps = rng.choice([0, 1, 2, 2, 3])
    npipes = rng.choice([1, 2, 2, 3, 4])
    sources, mods, posts = {}, {}, {}
    actions = []                      # (pipe, action)
    next_sid, next_mid, next_cid = [10], [20], [40]
    plans = {}
    for p in range(1, npipes + 1):
        scalar_only = rng.random() < 0.25
        nprod = 0 if rng.random() < 0.12 else (2 if rng.random() < 0.3 else 1)
        for _ in range(nprod):
            sid = next_sid[0]
            next_sid[0] += 1
            comb = rng.choice([0, 0, 1])
            is_list = (comb == 1) if rng.random() < 0.93 else (comb == 0)
            r = rng.random()
            if comb == 0:
                post = None if r < 0.3 else ["rescale"] if r < 0.65 else ["custom"] if r < 0.85 else ["union"]
            else:
                post = None if r < 0.25 else ["union"] if r < 0.8 else ["custom"] if r < 0.95 else ["rescale"]
            pool = PROBS if post == ["union"] else RATES if post == ["rescale"] else RATES + B_CHOICES
            if is_list:
                entries = [gen_entry(rng, n, pool, scalar_only) for _ in range(rng.choice([0, 1, 1, 2, 3]))]
            else:
                entries = [gen_entry(rng, n, pool, scalar_only)]
            if post == ["custom"]:
                cid = next_cid[0]
                next_cid[0] += 1
                posts[str(cid)] = {"c": rng.choice(A_CHOICES), "d": rng.choice(B_CHOICES), "truthy": rng.random() < 0.6}
                post = ["custom", cid]
            nested = rng.randrange(1, p) if p > 1 and rng.random() < 0.55 else None
            sources[str(sid)] = {"nested": nested, "list": is_list, "entries": entries, "comb": comb, "post": post,
                                 "flavour": rng.choice(["func", "func", "method", "obj"]), "truthy": rng.random() < 0.8,
                                 "via_rate": rng.random() < 0.5}
            actions.append((p, ["prod", p, sid]))
        nm = rng.choice([0, 1, 2, 3, 3, 4, 5])
        for _ in range(nm):
            mid = next_mid[0]
            next_mid[0] += 1
            mods[str(mid)] = {"a": rng.choice(A_CHOICES), "b": rng.choice(B_CHOICES), "entry": None, "conv": None,
                              "flavour": rng.choice(["func", "func", "method", "obj"])}
            actions.append((p, ["mod", p, mid]))
        if nm and rng.random() < 0.35:              # the SAME object registered again for this pipeline (1-2 more times)
            again = rng.choice([a[1][2] for a in actions if a[0] == p and a[1][0] == "mod"])
            for _ in range(rng.choice([1, 1, 2])):
                actions.append((p, ["mod", p, again]))
        if nm >= 2 and rng.random() < 0.25:         # two DISTINCT objects of this pipeline that compare equal
            ms = [a[1][2] for a in actions if a[0] == p and a[1][0] == "mod"]
            m1, m2 = rng.sample(sorted(set(ms)), 2) if len(set(ms)) >= 2 else (None, None)
            if m1 is not None:
                mods[str(m1)]["eqkey"] = mods[str(m2)]["eqkey"] = p
        for _ in range(rng.choice([0, 0, 1])):
            actions.append((p, ["get", p]))
        plans[p] = {"scalar_only": scalar_only}
    rng.shuffle(actions)
    ncomp = rng.randint(2, 4)
    comps = [{"name": f"c14_reg_{i}", "actions": []} for i in range(ncomp)]
    for p, act in actions:
        rng.choice(comps)["actions"].append(act)
    rng.shuffle(comps)
    executed = [act for comp in comps for act in comp["actions"]]      # the global execution order
    # the combiner in force is that of the first producer in execution order: its modifiers follow its convention
    first = {}
    for act in executed:
        if act[0] == "prod" and act[1] not in first:
            first[act[1]] = act[2]
    # a pipeline may be the source of another one; to keep the arithmetic exact, only along chains without the rate /
    # union post-processors (otherwise the producer falls back to its ordinary probe source)
    def chain_plain(p, depth=0):
        sp = sources.get(str(first.get(p)))
        if sp is None:
            return True
        if sp["post"] in (["rescale"], ["union"]):
            return False
        return chain_plain(sp["nested"], depth + 1) if sp.get("nested") else True
    for sid, sp in sources.items():
        if sp.get("nested"):
            owner = next(act[1] for act in executed if act[0] == "prod" and act[2] == int(sid))
            if sp["post"] in (["rescale"], ["union"]) or not chain_plain(sp["nested"]) or first.get(owner) != int(sid):
                sp["nested"] = None
    for act in executed:
        if act[0] == "mod":
            p = act[1]
            sp = sources.get(str(first.get(p)))
            conv = "list" if (sp and sp["comb"] == 1) else "replace"
            post = sp["post"] if sp else None
            pool = PROBS if post == ["union"] else RATES
            mods[str(act[2])]["conv"] = conv
            mods[str(act[2])]["entry"] = gen_entry(rng, n, pool, plans[p]["scalar_only"])
            if post == ["union"] and conv == "replace":
                # union over a bare Series multiplies the complements of ALL requested simulants: keep the modifiers'
                # contribution to the bit length small so that the product stays exact in binary64
                mods[str(act[2])]["a"] = rng.choice([[1, 1], [1, 2]])
                mods[str(act[2])]["b"] = rng.choice([[0, 1], [1, 4]])
    def winner(p):
        return sources.get(str(first.get(p)))

    def plain(p):           # no union post-processor (its inputs must be probabilities) - sharing stays exact
        w = winner(p)
        return w is None or w["post"] != ["union"]
    regs = [c for c in comps]
    # the same modifier object registered for ANOTHER pipeline too (same calling convention)
    for act in list(executed):
        if act[0] == "mod" and npipes > 1 and rng.random() < 0.15:
            p2 = rng.choice([q for q in range(1, npipes + 1) if q != act[1]])
            conv2 = "list" if (winner(p2) and winner(p2)["comb"] == 1) else "replace"
            if mods[str(act[2])]["conv"] == conv2 and plain(act[1]) and plain(p2) and not mods[str(act[2])].get("dual"):
                comp = rng.choice(regs)
                comp["actions"].insert(rng.randint(0, len(comp["actions"])), ["mod", p2, act[2]])
    # ONE object as the source of a pipeline and as a modifier of the same / another pipeline
    for p in range(1, npipes + 1):
        w = winner(p)
        prods_p = [a for a in executed if a[0] == "prod" and a[1] == p]
        if (w is None or w.get("nested") or w["list"] or not plain(p) or len(prods_p) != 1 or rng.random() > 0.25):
            continue
        sid = first[p]
        p2 = p if rng.random() < 0.4 else rng.randint(1, npipes)
        if not plain(p2):
            continue
        conv2 = "list" if (winner(p2) and winner(p2)["comb"] == 1) else "replace"
        mods[str(sid)] = {"a": rng.choice([[1, 1], [1, 2], [2, 1]]), "b": rng.choice(B_CHOICES), "entry": w["entries"][0],
                          "conv": conv2, "flavour": "obj", "dual": True}
        comp = rng.choice(regs)
        comp["actions"].insert(rng.randint(0, len(comp["actions"])), ["mod", p2, sid])
    comps.append({"name": "c14_caller", "actions": [["get", p] for p in range(1, npipes + 1)]})
    calls = []
    for _ in range(rng.randint(3, 9)):
        p = rng.randint(1, npipes)
        r = rng.random()
        if plans[p]["scalar_only"] and r < 0.4:
            idx = None
        elif r < 0.5:
            idx = rng.sample(range(n), rng.randint(1, n))
        elif r < 0.9:
            idx = list(range(n))
            if rng.random() < 0.5:
                rng.shuffle(idx)
        else:
            idx = []
        extras = [] if rng.random() < 0.75 else rng.choice([[7], [1, 2], [0]])
        kwargs = {} if rng.random() < 0.75 else rng.choice([{"kw_a": 5}, {"kw_b": 0, "kw_a": 3}, {"kw_b": -2}])
        calls.append({"pipe": p, "idx": idx, "extras": extras, "kwargs": kwargs, "skip": rng.random() < 0.3,
                      "when": rng.choice([0] + ([1] if nsteps else []) + [2 + k for k in range(nsteps)] * 2)})
    return {"npop": n, "step": step, "stepmod": stepmod, "nsteps": nsteps, "components": comps, "sources": sources,
            "mods": mods, "posts": posts, "calls": calls}


def shrink_case(case):
    """Smaller variants of a pipeline case: drop a call, drop a registration (never the winning one of several
    producers: the modifiers follow its calling convention), drop an empty component, no step modifier, fewer steps,
    shorter index / no extras / no keyword arguments in a call."""
    import copy
    for i in range(len(case["calls"])):
        if len(case["calls"]) > 1:
            c = copy.deepcopy(case); del c["calls"][i]; yield c
    executed = [act for comp in case["components"] for act in comp["actions"]]
    prods = {}
    for act in executed:
        if act[0] == "prod":
            prods.setdefault(act[1], []).append(act[2])
    for ci, comp in enumerate(case["components"]):
        if comp["name"] == "c14_caller":
            continue
        for ai, act in enumerate(comp["actions"]):
            if act[0] == "prod" and len(prods[act[1]]) > 1 and prods[act[1]][0] == act[2]:
                continue
            c = copy.deepcopy(case); del c["components"][ci]["actions"][ai]; yield c
        if not comp["actions"] and len(case["components"]) > 2:
            c = copy.deepcopy(case); del c["components"][ci]; yield c
    if case["stepmod"]:
        c = copy.deepcopy(case); c["stepmod"] = None; yield c
    if case["nsteps"] > 0:
        c = copy.deepcopy(case); c["nsteps"] -= 1
        for call in c["calls"]:
            if call["when"] >= 2 + c["nsteps"] or (c["nsteps"] == 0 and call["when"] == 1):
                call["when"] = 0
        yield c
    for i, call in enumerate(case["calls"]):
        if call["idx"] and len(call["idx"]) > 1:
            c = copy.deepcopy(case); c["calls"][i]["idx"] = call["idx"][: len(call["idx"]) // 2]; yield c
            c = copy.deepcopy(case); c["calls"][i]["idx"] = call["idx"][len(call["idx"]) // 2:]; yield c
        if call["extras"]:
            c = copy.deepcopy(case); c["calls"][i]["extras"] = []; yield c
        if call.get("kwargs"):
            c = copy.deepcopy(case); c["calls"][i]["kwargs"] = {}; yield c
        if call["when"] != 0:
            c = copy.deepcopy(case); c["calls"][i]["when"] = 0; yield c


def _load_corpus():
    import glob
    import json
    import os
    here = os.path.dirname(os.path.dirname(os.path.dirname(os.path.abspath(__file__))))
    out = []
    for f in sorted(glob.glob(os.path.join(here, "corpus", "C14", "*.json"))):
        d = json.load(open(f))
        out.append(d["case"] if "case" in d and "components" not in d else d)
    return out


def streams(tier):
    return [Stream(name="pipes", imports="From Viv Require Import Common Pipeline.", check="check_case", gen=gen_case,
                   run=run_case, n_quick=200, n_thorough=2400, corpus=_load_corpus, shrink=shrink_case,
                   doc="registrations, registry snapshots, call logs and values of probe pipelines in real contexts")]


def extra(run):
    run.notes.append(f"largest deviation of a rescaled rate from the exact rational: {MAXDEV[0]:.3f} ulp (bound 4)")
